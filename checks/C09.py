"""C09 — coefficient-domain ring operations match Z[X]/(X^N+1) exactly."""
from vlib import common, halpipe
from vlib.common import log

LEVEL = "model_checking"


def run(rep, tier):
    wd = common.workdir("C09")
    quick = tier == "quick"
    # 1. MC: ring laws on the specification alone
    r = common.tlc("Ring/MC_Poly", cfg="Ring/MC_Poly_quick" if quick else "Ring/MC_Poly", workers=8, wd=wd, coverage=False)
    common.tlc_must(r, "MC_Poly")
    rep.add_tlc(r, "MC_Poly")
    if not r.ok:
        rep.violation("spec:MC_Poly:" + str(r.invariant), "ring law %s fails in the specification" % r.invariant, {"tlc": r.out[-3000:]})
        return
    # 2. REPLAY: TLC enumerates descriptors, harness executes, TLC validates
    cfg = "Hal/Gen_C09_quick" if quick else "Hal/Gen_C09_thorough"
    descs, n = halpipe.gen_descs(rep, wd, "Hal/Gen_C09", cfg, "c09")
    n = halpipe.subsample(descs, 0, common.seed())
    events, bad = halpipe.run_and_validate(rep, wd, descs, "c09", n)
    rep.evaluations += n * 8
    ops = {}
    for e in events:
        ops[e["op"]] = ops.get(e["op"], 0) + 1
    rep.distinct += n
    rep.extra["ops_covered"] = ops
    rep.extra["exhaustive"] = True
    rep.rule = ("every descriptor (op, N, sizes, k|g, limb, part) of Gen_C09 (%s) enumerated by TLC, each executed on 4 back-ends x 2 garbage "
                "pre-fills with seeded operand values and validated against Poly.tla by TLC; distinct = distinct descriptors" % cfg)
    for e in events[:: max(1, len(events) // 4)][:4]:
        rep.sample({k: e[k] for k in ("op", "n", "na", "rs", "p", "shape")})
    nb = halpipe.report(rep, events, bad, {"sem"}, "c09")
    log("[C09] %d events, %d rejected (sem)" % (n, nb))
    rep.assumptions += ["TLC/SANY correct", "harness projection = raw limbs read through public layout (n*(limb*cols+col))",
                        "operand values seeded-random in [-VMax,VMax]; the maps are linear/permutations so one generic input determines them"]
