"""C11 — outputs are fully determined by inputs: no stale data, no stray writes."""
from vlib import common, halpipe
from vlib.common import log

LEVEL = "model_checking"


def run(rep, tier):
    wd = common.workdir("C11")
    for name in ("c09", "c08", "c07", "wide"):
        events, bad = halpipe.run_corpus(rep, wd, name, tier)
        nb = halpipe.report(rep, events, bad, {"fill"}, name)
        log("[C11] corpus %s: %d events, %d fill-dependent or frame-violating" % (name, len(events), nb))
        for e in [events[0]]:
            rep.sample({k: e[k] for k in ("op", "n", "rs", "p", "shape")})
    rep.rule = ("every HAL descriptor executed twice per back-end from two independent garbage fills of every writable byte (result buffer incl. other columns, slack limbs, "
                "scratch) inside canary-guarded exact-size windows; HalTrace.FillOK requires identical outcomes and every byte outside the selected result column unchanged; "
                "column counts 1..3 and target columns drawn per descriptor (seeded); distinct = events")
    rep.assumptions += ["whole-buffer byte comparison by the harness (frame flag) is trusted; the equality of outcomes across fills is decided by TLC"]
