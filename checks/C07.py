"""C07 — DFT-domain products equal exact negacyclic (bivariate) convolution."""
import os
from vlib import common, halpipe
from vlib.common import log

LEVEL = "model_checking"


def run(rep, tier):
    wd = common.workdir("C07")
    r = common.tlc("Hal/MC_Dft", workers=8, wd=wd, timeout=1800)
    common.tlc_must(r, "MC_Dft")
    rep.add_tlc(r, "MC_Dft")
    if not r.ok:
        rep.violation("spec:MC_Dft:" + str(r.invariant), "spec-level identity %s fails" % r.invariant, {"tlc": r.out[-3000:]})
        return
    # shape logic, exact native integers, all four back-ends
    events, bad = halpipe.run_corpus(rep, wd, "c07", tier)
    halpipe.binding_selftest(rep, wd, os.path.join(wd, "c07.s0.events.ndjson"), "c07")
    nb = halpipe.report(rep, events, bad, {"sem", "sem1", "enum"}, "c07")
    for e in [events[i] for i in range(0, len(events), max(1, len(events) // 3))][:3]:
        rep.sample({k: e[k] for k in ("op", "n", "rs", "p", "shape")})
    # magnitude corpus: FFT64 must equal the exact NTT120 arithmetic inside its domain; no panics
    ev2, bad2 = halpipe.run_corpus(rep, wd, "mag", tier)
    nb2 = halpipe.report(rep, ev2, bad2, {"sem", "be"}, "mag")
    for e in [ev2[i] for i in range(0, len(ev2), max(1, len(ev2) // 2))][:2]:
        rep.sample({k: e[k] for k in ("op", "n", "rs", "p", "shape", "chk")})
    rep.extra["exhaustive"] = True
    rep.rule = ("c07: every (op, shape, step/offset/limb_offset/cnv_offset/mask/scale, value class) descriptor of Gen_C07 enumerated by TLC, executed on 4 back-ends x 2 pre-fills "
                "(prepared operands via the library's own prepare calls, result projected through idft) and compared bit for bit with the exact integer product computed by TLC; "
                "mag: realistic N<=1024 (thorough 65536) and radices inside the FFT64 domain, FFT64 vs exact NTT120 agreement; distinct = events")
    log("[C07] shape events %d rejected %d; magnitude events %d rejected %d" % (len(events), nb, len(ev2), nb2))
    rep.assumptions += ["TLC/SANY correct", "projection through the library's own vec_znx_dft_apply/idft (themselves checked as the dft_apply/idft events)",
                        "magnitude corpus decides exactness only relative to NTT120 (exact modular arithmetic); a defect identical on both families at large N would be missed"]
