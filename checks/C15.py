"""C15 — encrypted integers: bootstrap, word operations and bit surgery match u32."""
from vlib import common, fhepipe
from vlib.common import log

LEVEL = "model_checking"


def run(rep, tier):
    wd = common.workdir("C15")
    # design level: the code-shaped selection / retrieval / retriever algorithms implement the user-level statements of Select.tla
    r = common.tlc("BinFhe/MC_Select", workers=8, wd=wd, timeout=1800)
    common.tlc_must(r, "MC_Select")
    rep.add_tlc(r, "MC_Select")
    if not r.ok:
        rep.violation("spec:MC_Select:" + str(r.invariant), "invariant %s of MC_Select fails in the specification" % r.invariant, {"tlc": r.out[-3000:]})
        return
    # negative control: the same model with the retriever's merge gate reversed must be refuted
    rn = common.tlc("BinFhe/MC_Select", cfg="BinFhe/MC_Select_neg", workers=8, wd=wd, timeout=1800)
    if rn.ok or rn.invariant != "AllOK":
        raise common.ToolError("MC_Select negative control (reversed merge gate) was not refuted:\n" + rn.out[-1500:])
    rows = fhepipe.gen(rep, wd, "c15_" + tier)
    events, bad = fhepipe.run(rep, wd, rows, "c15", shards=8 if tier == "quick" else 14)
    nb = fhepipe.report(rep, events, bad, {"sem"}, "c15")
    kinds = {}
    for e in events:
        k = e["kind"] + (":" + e["op"] if e["kind"] in ("word", "blind") else "")
        kinds[k] = kinds.get(k, 0) + 1
    rep.extra["behaviours"] = kinds
    rep.evaluations += sum(len(e["outs"]) for e in events)
    rep.distinct += len(events)
    rep.rule = ("%d behaviours enumerated by TLC (Gen_Fhe: 10 word operations x boundary dictionary pairs {0, 1, 2^31, 2^32-1, alternating, single bits, shift amounts 31..63, ...}; bit surgery on packed words (sext, zero_byte, splice_u8, splice_u16, get_bit) decided against the bit-level definition; oblivious data movement under an encrypted index (blind selection over sparse maps, blind retrieval forward / reverse, the stateful retriever over add / flush histories, cswap, blind rotation) decided against Select.tla, whose code-shaped algorithms MC_Select checks against the user-level statements for every map / length / selector in scope; partial "
                "preparation over (start, count); chains op -> re-prepare (circuit bootstrapping) -> op; FFT64Ref and FFT64Avx) executed on the library's own key material (N=256, rank 2, "
                "block-binary LWE key); the decrypted words are decided bit for bit by TLC against WordOps.tla (the specification C13 proves the compiled circuits against); distinct = behaviours"
                % len(events))
    rep.sample({k: events[0][k] for k in events[0] if k != "outs"})
    log("[C15] %d behaviours, %d rejected" % (len(events), nb))
    rep.assumptions += ["one parameter set (the crate's public test context); u32 only",
                        "blind selection / retrieval / rotation are judged on the decoded plaintext (coefficient values at the plaintext scale), not limb by limb",
                        "circuit bootstrapping is observed through the prepared word's behaviour (OR with zero), not cell by cell"]
