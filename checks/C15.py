"""C15 — encrypted integers: bootstrap, word operations and bit surgery match u32."""
from vlib import common, fhepipe
from vlib.common import log

LEVEL = "model_checking"


def run(rep, tier):
    wd = common.workdir("C15")
    rows = fhepipe.gen(rep, wd, "c15_" + tier)
    events, bad = fhepipe.run(rep, wd, rows, "c15", shards=8 if tier == "quick" else 14)
    nb = fhepipe.report(rep, events, bad, {"sem"}, "c15")
    kinds = {}
    for e in events:
        k = e["kind"] + (":" + e["op"] if e["kind"] == "word" else "")
        kinds[k] = kinds.get(k, 0) + 1
    rep.extra["behaviours"] = kinds
    rep.evaluations += sum(len(e["outs"]) for e in events)
    rep.distinct += len(events)
    rep.rule = ("%d behaviours enumerated by TLC (Gen_Fhe: 10 word operations x boundary dictionary pairs {0, 1, 2^31, 2^32-1, alternating, single bits, shift amounts 31..63, ...}; bit surgery on packed words (sext, zero_byte, splice_u8, splice_u16, get_bit) decided against the bit-level definition; partial "
                "preparation over (start, count); chains op -> re-prepare (circuit bootstrapping) -> op; FFT64Ref and FFT64Avx) executed on the library's own key material (N=256, rank 2, "
                "block-binary LWE key); the decrypted words are decided bit for bit by TLC against WordOps.tla (the specification C13 proves the compiled circuits against); distinct = behaviours"
                % len(events))
    rep.sample({k: events[0][k] for k in events[0] if k != "outs"})
    log("[C15] %d behaviours, %d rejected" % (len(events), nb))
    rep.assumptions += ["one parameter set (the crate's public test context); u32 only",
                        "bit extraction / splice / sign extension / swap / blind selection and retrieval entry points are not driven yet (only through the word operations and preparation)",
                        "circuit bootstrapping is observed through the prepared word's behaviour (OR with zero), not cell by cell"]
