"""C15 — encrypted integers: bootstrap, word operations and bit surgery match u32."""
from vlib import common, fhepipe
from vlib.common import log

LEVEL = "model_checking"


def run(rep, tier):
    wd = common.workdir("C15")
    # design level: the code-shaped selection / retrieval / retriever algorithms implement the user-level statements of Select.tla
    r = common.tlc("BinFhe/MC_Select", workers=8, wd=wd, timeout=1800)
    common.tlc_must(r, "MC_Select")
    rep.add_tlc(r, "MC_Select")
    if not r.ok:
        rep.violation("spec:MC_Select:" + str(r.invariant), "invariant %s of MC_Select fails in the specification" % r.invariant, {"tlc": r.out[-3000:]})
        return
    # negative control: the same model with the retriever's merge gate reversed must be refuted
    rn = common.tlc("BinFhe/MC_Select", cfg="BinFhe/MC_Select_neg", workers=8, wd=wd, timeout=1800)
    if rn.ok or rn.invariant != "AllOK":
        raise common.ToolError("MC_Select negative control (reversed merge gate) was not refuted:\n" + rn.out[-1500:])
    # circuit bootstrapping cell by cell (Cbt.tla): both modes, every message of the domain, gaps up to the negacyclic limit
    import json, os
    g = common.tlc("BinFhe/Gen_Cbt", cfg="BinFhe/Gen_Cbt_" + tier, workers=2, wd=wd, timeout=900)
    common.tlc_must(g, "Gen_Cbt")
    cdesc = [json.loads(json.loads(x)) for x in g.printed("DESC")]
    if not g.ok or len(cdesc) != g.distinct - 1 or not cdesc:
        raise common.ToolError("Gen_Cbt did not complete:\n" + g.out[-1500:])
    cdesc.sort(key=lambda x: json.dumps(x, sort_keys=True))
    for i, x in enumerate(cdesc):
        x["id"] = i + 1
    rep.add_tlc(g, "gen:cbt")
    common.build_harness()
    dp, ep = os.path.join(wd, "cbt.descs.ndjson"), os.path.join(wd, "cbt.events.ndjson")
    common.write_ndjson(dp, cdesc)
    p = common.harness(["cbt", dp, ep], timeout=7200)
    if p.returncode != 0:
        raise common.ToolError("harness cbt failed rc=%d\n%s" % (p.returncode, p.stdout[-3000:]))
    cev = common.read_ndjson(ep)
    t = common.tlc("BinFhe/CbtTrace", env={"TRACE": ep}, workers=1, wd=wd, timeout=3600)
    common.tlc_must(t, "CbtTrace")
    v = t.printed("VERDICT")
    if not t.ok or not v or t.distinct != len(cev) + 1:
        raise common.ToolError("CbtTrace did not complete:\n" + t.out[-3000:])
    rep.states += t.distinct
    rep.transitions += t.generated
    rep.traces += len(cev)
    seen = set()
    ncb = 0
    for k, kind in json.loads(json.loads(v[0].split(", ", 1)[1])):
        e = cev[k - 1]
        ncb += 1
        full = int(e["mode"] == "exponent" and e["kpt"] + e["gap"] == 8)
        key = "cbt:%s:%s full=%d%s" % (kind, e["mode"], full, (" panic=" + e["panic"][:60]) if e["panic"] else "")
        if key in seen:
            continue
        seen.add(key)
        rep.violation(key, "circuit bootstrapping rejected by CbtTrace: %s data=%s kpt=%s gap=%s ext=%s rows=%s be=%s" % (e["mode"], e["data"], e["kpt"], e["gap"], e["ext"], e["rows"], e["be"]),
                      {"event": e})
    rep.extra["circuit_bootstrapping"] = {"behaviours": len(cev), "rejected": ncb}
    rep.evaluations += len(cev)
    rep.distinct += len(cev)
    rows = fhepipe.gen(rep, wd, "c15_" + tier)
    events, bad = fhepipe.run(rep, wd, rows, "c15", shards=8 if tier == "quick" else 14)
    nb = fhepipe.report(rep, events, bad, {"sem"}, "c15")
    kinds = {}
    for e in events:
        k = e["kind"] + (":" + e["op"] if e["kind"] in ("word", "blind") else "")
        kinds[k] = kinds.get(k, 0) + 1
    rep.extra["behaviours"] = kinds
    rep.evaluations += sum(len(e["outs"]) for e in events)
    rep.distinct += len(events)
    rep.rule = ("%d behaviours enumerated by TLC (Gen_Fhe: 10 word operations x boundary dictionary pairs {0, 1, 2^31, 2^32-1, alternating, single bits, shift amounts 31..63, ...}; bit surgery on packed words (sext, zero_byte, splice_u8, splice_u16, get_bit) decided against the bit-level definition; oblivious data movement under an encrypted index (blind selection over sparse maps, blind retrieval forward / reverse, the stateful retriever over add / flush histories, cswap, blind rotation) decided against Select.tla, whose code-shaped algorithms MC_Select checks against the user-level statements for every map / length / selector in scope; circuit bootstrapping cell by cell (Cbt.tla: every cell of the GGSW against every candidate message of the domain, constant and exponent mode); partial "
                "preparation over (start, count); chains op -> re-prepare (circuit bootstrapping) -> op; FFT64Ref and FFT64Avx) executed on the library's own key material (N=256, rank 2, "
                "block-binary LWE key); the decrypted words are decided bit for bit by TLC against WordOps.tla (the specification C13 proves the compiled circuits against); distinct = behaviours"
                % len(events))
    rep.sample({k: events[0][k] for k in events[0] if k != "outs"})
    log("[C15] %d behaviours, %d rejected" % (len(events), nb))
    rep.assumptions += ["one parameter set (the crate's public test context); u32 only",
                        "blind selection / retrieval / cswap / blind rotation run in a scratch of exactly what their companion size query returns (a shortage would show as a panic here; C12 has no separate corpus for them)",
                        "blind selection / retrieval / rotation are judged on the decoded plaintext (coefficient values at the plaintext scale), not limb by limb",
                        "circuit bootstrapping cell by cell uses the library's noise helper (phase minus the candidate message, largest coefficient) on its own key set (N=256, n_lwe=77, the crate's test parameters); "
                        "shapes with fewer than 16 blind-rotation positions per table entry are not generated (their failure probability is a parameter choice)"]
