"""C08 — normalisation, shifts and integer encoding are exact."""
import os
from vlib import common, halpipe
from vlib.common import log

LEVEL = "model_checking"


def run(rep, tier):
    wd = common.workdir("C08")
    quick = tier == "quick"
    # 1. MC: relational post-condition is satisfiable / non-vacuous (spec alone)
    r = common.tlc("Hal/MC_Norm", cfg="Hal/MC_Norm_quick" if quick else "Hal/MC_Norm_thorough", workers=8, wd=wd, timeout=3000)
    common.tlc_must(r, "MC_Norm")
    rep.add_tlc(r, "MC_Norm")
    if not r.ok:
        rep.violation("spec:MC_Norm:" + str(r.invariant), "spec-level check %s fails" % r.invariant, {"tlc": r.out[-3000:]})
        return
    # 2. REPLAY exhaustive small scope: TLC enumerates descriptors (+digit alphabets), harness expands and runs,
    #    TLC validates each event and the completeness of the enumeration
    cfg = "Hal/Gen_C08_quick" if quick else "Hal/Gen_C08_thorough"
    descs, n = halpipe.gen_descs(rep, wd, "Hal/Gen_C08", cfg, "c08")
    nd = halpipe.subsample(descs, 1200 if quick else 0, common.seed())
    events, bad = halpipe.run_and_validate_sharded(rep, wd, descs, "c08", shards=8 if quick else 12)
    rep.evaluations += len(events) * 8
    ops = events.op_counts()
    rep.distinct += len(events)
    rep.extra["descriptors"] = nd
    rep.extra["descriptors_in_scope"] = n
    rep.extra["ops_covered"] = ops
    rep.extra["exhaustive"] = not quick
    rep.rule = ("descriptors (op, bA, bR, sizes, offset, digit alphabet incl. out-of-range digits) enumerated by TLC (%s; quick tier: seeded subset of %d of %d); "
                "each expanded to every digit tuple alpha^size (8 tuples per call), run on 4 back-ends x 2 garbage pre-fills; TLC validates NormOK/EncOK per coefficient "
                "and that the enumeration is complete; distinct = events with distinct (descriptor, chunk)" % (cfg, nd, n))
    for e in [events[i] for i in range(0, len(events), max(1, len(events) // 4))][:4]:
        rep.sample({k: e[k] for k in ("op", "n", "rs", "p", "chunk", "nchunks")} | {"src": (e["ins"]["a"] or e["ins"]["r"])})
    halpipe.binding_selftest(rep, wd, os.path.join(wd, "c08.s0.events.ndjson"), "c08")
    nb = halpipe.report(rep, events, bad, {"sem", "sem1", "enum"}, "c08")
    log("[C08] %d descriptors -> %d events, %d rejected" % (nd, len(events), nb))
    rep.assumptions += ["TLC/SANY correct", "harness projection = raw limbs", "native-Int scope: b<=4, sizes<=3 (BigZ corpus for wide radices pending)"]
