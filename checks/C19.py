"""C19 — seed-compressed objects expand to exactly what full encryption would produce."""
import json
from vlib import common, randpipe
from vlib.common import log, ToolError

LEVEL = "model_checking"


def run(rep, tier):
    wd = common.workdir("C19")
    rows = randpipe.gen(rep, wd, tier, {"c19", "dep"})
    rows = [x for x in rows if x["kind"] == "c19" or x["layout"].endswith("_c")]
    ep, nev, bad, _ = randpipe.run_group(rep, wd, "c19", rows)
    evs = randpipe.first_events(ep, [k for k, _ in bad])
    for k, kind in bad:
        e = evs[k]
        key = "%s:%s b=%s size=%s rank=%s rin=%s dnum=%s dsize=%s" % (kind, e["layout"], e["b"], e["size"], e["rank"], e.get("rin"), e.get("dnum"), e.get("dsize"))
        small = {x: e[x] for x in e if x not in ("outs", "runs")}
        if "outs" in e:
            small["outs"] = [{"who": o["who"], "panic": o["rec"]["panic"], "ser_same": o["rec"]["ser_same"], "stored": o["rec"]["stored"][:2], "drawn": o["rec"]["drawn"][:2]} for o in e["outs"][:2]]
        rep.violation(key, "compressed object rejected by Rand.tla (%s): %s" % (kind, key), {"event": small})
    n19 = sum(1 for x in rows if x["kind"] == "c19")
    rep.evaluations += nev * 4
    rep.distinct += nev
    rep.extra["c19_experiments"] = n19
    rep.extra["dependency_experiments_on_compressed_layouts"] = len(rows) - n19
    rep.rule = ("%d compressed objects (GLWE, GGLWE with rank_in 1..3, GGSW; ranks, dnum/dsize grid, several mask/error seeds) on 4 back-ends: compressed encryption -> decompression; Rand.tla "
                "requires (a) the stored seeds to be the successive draws of the master stream in the library's cell order (drawn through the public Source API), (b) every decompressed GLWE / "
                "GGLWE cell to be limb-for-limb equal to the PUBLIC standard glwe_encrypt_sk of the cell's plaintext under Source(stored seed) and the shared error stream, (c) serialise -> "
                "deserialise -> decompress to give the same object, (d) one outcome on all back-ends; the compressed KEY wrappers (switching, automorphism, tensor, GGLWE-to-GGSW keys; ranks 1..3) as compressed GGLWEs of known plaintext columns under a known key: stored seeds = draws in cell order (one branch seed per key for GGLWE-to-GGSW), decompressed cells limb-for-limb equal to the plain compressed-GGLWE encryption of those columns (masks only for the automorphism key), and every cell a valid gadget encryption of its column under its key (phases recomputed by TLC); the compressed blind-rotation key (one compressed GGSW of the constant s_lwe[i] per LWE coefficient, branch seed i = i-th draw of the master stream, cell seeds = the branch's draws in GGSW order, cells valid); plus the dependency experiments on the compressed layouts (mask = f(seed) only); distinct = experiments"
                % n19)
    rep.sample({x: rows[0][x] for x in rows[0]})
    log("[C19] %d experiments, %d rejected" % (len(rows), len(bad)))
    rep.assumptions += ["GGSW cells other than the body column cannot be re-created through a public standard encryption: their masks are covered by the dependency experiment; every decompressed GGSW cell is judged on its phase (scalar, or scalar * s_j, at the row's scale, ternary and multi-digit scalars)",
                        "the automorphism key's cells are encrypted under pi_p^-1(s), which the public API cannot build: their bodies are judged on phases, only their masks bit for bit",
                        "GGLWEToGGSWKeyDecompress has no implementation for Module in the crate: the harness decompresses that key GGLWE by GGLWE (decompress_gglwe)",
                        "the compressed blind-rotation key has no decompression routine: its serialisation is cut into compressed GGSWs through the public readers; LWE-related compressed keys have layouts but no encryption routine in the crate and are not covered"]
