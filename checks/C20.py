"""C20 — thread count and scheduling never change results."""
from vlib import common, fhepipe
from vlib.common import log

LEVEL = "model_checking"


def run(rep, tier):
    wd = common.workdir("C20")
    quick = tier == "quick"
    # 1. the partition design: every item exactly once, by its owner, disjoint scratch windows, schedule independence
    r = common.tlc("Par/MC_Partition", cfg="Par/MC_Partition" if quick else "Par/MC_Partition_thorough", workers=8, wd=wd, timeout=3600)
    common.tlc_must(r, "MC_Partition")
    rep.add_tlc(r, "MC_Partition")
    if not r.ok:
        rep.violation("spec:MC_Partition:" + str(r.invariant), "partition design violates %s" % r.invariant, {"tlc": r.out[-3000:]})
        return
    # 2. the real loops: thread counts that do not divide / exceed the number of items, oversubscription, shared module
    rows = fhepipe.gen(rep, wd, "c20_" + tier)
    events, bad = fhepipe.run(rep, wd, rows, "c20", shards=4 if quick else 8)
    nb = fhepipe.report(rep, events, bad, {"threads", "partition", "sem"}, "c20")
    runs = sum(len(e["outs"]) for e in events)
    rep.evaluations += runs
    rep.distinct += len(events)
    rep.extra["runs"] = runs
    rep.rule = ("MC_Partition model-checks the chunking design over all interleavings; then %d behaviours (%d runs) of execute_bdd_circuit_multi_thread (through the word operations) and "
                "fhe_uint_prepare_custom_multi_thread for thread counts {single-threaded entry, 1, 2, 3, 5, 7, 8, 16, 31, 32, 33, 64} and (start, count) partitions: FheTrace requires the result bytes "
                "to equal the single-threaded ones, the H3 log of executed items to be exactly the partition of Partition.tla (every item once, by its owner), the decrypted word to be right, and "
                "8 OS threads sharing one module / prepared key / operands (own scratch each, 3 rounds) to reproduce the sequential bytes; distinct = behaviours" % (len(events), runs))
    rep.sample({k: events[0][k] for k in events[0] if k != "outs"})
    log("[C20] %d behaviours, %d runs, %d rejected" % (len(events), runs, nb))
    rep.assumptions += ["scheduling is perturbed by oversubscription (up to 64 threads on 16 cores) and repetition only; no yield injection hook",
                        "FFT64Ref and FFT64Avx (the back-ends the binary-FHE layer is instantiated for)"]
