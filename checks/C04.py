"""C04 — external products and CMux multiply by the GGSW plaintext within noise."""
from vlib import common, kspipe
from vlib.common import log, ToolError

LEVEL = "model_checking"


def run(rep, tier):
    wd = common.workdir("C04")
    quick = tier == "quick"
    path, n_all, n = kspipe.gen_descs(rep, wd, "Core/Gen_C04", "Core/Gen_C04_quick" if quick else "Core/Gen_C04_thorough", "c04",
                                      per_op=40 if quick else 500, weights={"xp": 6, "xp_assign": 2, "cmux": 3, "cmux_assign": 2, "cmux_assign_neg": 2, "ggsw_xp": 0.5, "ggsw_xp_assign": 0.5})
    events, bad = kspipe.run_and_validate(rep, wd, path, "c04", shards=14, sub="xp")
    nb = kspipe.report(rep, events, bad, {"sem", "key"}, "c04")
    # GGSW from GGLWE (row expansion through the tensor key) and GGLWE (x) GGSW (Ggsw.tla)
    gpath, gn_all, gn = kspipe.gen_descs(rep, wd, "Core/Gen_Ggsw", "Core/Gen_Ggsw_c04_quick" if quick else "Core/Gen_Ggsw_c04_thorough", "c04g", per_op=40 if quick else 600)
    gevents, gbad = kspipe.run_and_validate(rep, wd, gpath, "c04g", shards=12 if quick else 14, sub="ggsw", trace_module="Core/GgswTrace")
    nb += kspipe.report(rep, gevents, gbad, {"sem", "key"}, "c04g")
    bad = bad + [(i + len(events), k) for i, k in gbad]
    events = events + gevents
    n_all += gn_all
    n += gn
    vac = {i for i, k in bad if k == "vacuous"}
    ops = {}
    for i, e in enumerate(events):
        o = ops.setdefault(e["op"], [0, 0])
        o[0] += 1
        o[1] += int(i not in vac)
    rep.extra["ops_covered"] = {k: {"behaviours": v[0], "bound_below_1/16_torus": v[1]} for k, v in sorted(ops.items())}
    for op, v in ops.items():
        if v[1] == 0:
            raise ToolError("C04: every %s behaviour had a meaningless bound -- the corpus does not exercise the property" % op)
    rep.evaluations += len(events) * 8
    rep.distinct += len(events)
    rep.rule = ("%d of the %d behaviours enumerated by TLC from Gen_C04 (per-operation stratified, seeded): GGSW(m2) and GLWE(m1) encrypted by the library, operation on 4 back-ends x 2 fills, N=8; "
                "KsTrace/Xp.tla recomputes from raw limbs and the clear secret (a) every GGSW cell's phase = m2*G_row*(1|s_col) within the configured bound, (b) the EXACT gadget product over all rank+1 "
                "columns from the logged cells (GGSW <= 16 bits), (c) phase(result) = m2 * phase(input) (negacyclic, exact integers) within the worst-case gadget bound; CMux must return the selected branch; "
                "GGSW x GGSW and GGLWE x GGSW are checked cell by cell (rows beyond the input's are zero); GGSW from GGLWE: column 0 copied, every other column = s_j * phase(column 0) within the tensor-key gadget bound, result a valid GGSW; distinct = behaviours" % (n, n_all))
    for e in events[:: max(1, len(events) // 3)][:3]:
        rep.sample({k: e[k] for k in e if k not in ("outs", "key", "tsk", "scr", "a", "b", "sk_in", "sk_out")})
    log("[C04] %d behaviours, %d rejected, %d with vacuous bound" % (len(events), nb, len(vac)))
    rep.assumptions += ["N = 8; radices 3 and 4; precisions <= 24 bits (native-integer phase arithmetic in TLC)",
                        "GGSW row expansion and GGLWE external product: bound level, N = 8 (GGSW key-switch / automorphism are under C03)",
                        "noise is checked against the worst-case bound implied by the configured truncation of the Gaussian"]
