"""C16 — CKKS evaluator tracks values and precision metadata through any program."""
import json
import os
import re
from concurrent.futures import ThreadPoolExecutor
from vlib import common
from vlib.common import log, ToolError

LEVEL = "model_checking"
BE = ["FFT64Ref", "FFT64Avx", "NTT120Ref", "NTT120Avx"]


def run(rep, tier):
    wd = common.workdir("C16")
    quick = tier == "quick"
    nprog = 600 if quick else 6000
    # design level: over every program of a small instruction set the metadata algebra keeps log_delta + log_budget within the
    # stored bits (exhaustive, value model hidden by a VIEW); negative control: an addition keeping the LARGER budget must be refuted
    r0 = common.tlc("Ckks/MC_Ckks", cfg="Ckks/MC_Ckks_quick" if quick else "Ckks/MC_Ckks", workers=8, wd=wd, timeout=3600)
    common.tlc_must(r0, "MC_Ckks")
    rep.add_tlc(r0, "MC_Ckks")
    if not r0.ok:
        rep.violation("spec:MC_Ckks:" + str(r0.invariant), "invariant %s of MC_Ckks fails in the specification" % r0.invariant, {"tlc": r0.out[-3000:]})
        return
    rn = common.tlc("Ckks/MC_Ckks", cfg="Ckks/MC_Ckks_neg", workers=8, wd=wd, timeout=3600)
    if rn.ok or rn.invariant != "FitsInv":
        raise ToolError("MC_Ckks negative control was not refuted:\n" + rn.out[-1500:])
    common.build_harness()
    events, bad = [], []
    ops = {}
    classes = {}

    def family(cfg):
        g = common.tlc("Ckks/Gen_C16", cfg="Ckks/Gen_C16_" + cfg, workers=1, wd=wd, simulate=nprog, depth=60, seed=common.seed(), timeout=3600)
        common.tlc_must(g, "Gen_C16 " + cfg)
        progs = [json.loads(json.loads(x)) for x in g.printed("PROG")]
        if len(progs) < nprog // 2:
            raise ToolError("Gen_C16 %s produced %d programs\n%s" % (cfg, len(progs), g.out[-1500:]))
        for i, p in enumerate(progs):
            p["id"] = i + 1
        pp = os.path.join(wd, "c16.%s.progs.ndjson" % cfg)
        ep = os.path.join(wd, "c16.%s.events.ndjson" % cfg)
        common.write_ndjson(pp, progs)
        p = common.harness(["ckks", pp, ep], timeout=7200)
        if p.returncode != 0:
            raise ToolError("harness ckks failed rc=%d\n%s" % (p.returncode, p.stdout[-3000:]))
        ev = common.read_ndjson(ep)
        t = common.tlc("Ckks/CkksTrace", env={"TRACE": ep}, workers=1, wd=wd, timeout=7200, xmx="4g")
        common.tlc_must(t, "CkksTrace " + cfg)
        v = t.printed("VERDICT")
        if not t.ok or not v or t.distinct != len(ev) + 1:
            raise ToolError("CkksTrace %s did not complete:\n%s" % (cfg, t.out[-3000:]))
        b = json.loads(json.loads(v[0].split(", ", 1)[1]))
        return g, t, ev, b

    with ThreadPoolExecutor(max_workers=2) as ex:
        res = list(ex.map(family, ["fft", "ntt"]))
    for g, t, ev, b in res:
        base = len(events)
        events += ev
        bad += [(k - 1 + base, kind, step) for k, kind, step in b]
        rep.states += g.generated + t.distinct
        rep.transitions += g.generated + t.generated
    rep.traces += len(events)
    seen = set()
    for idx, kind, step in bad:
        e = events[idx]
        s = e["prog"][step - 1] if step else {}
        o = e["outs"][step - 1] if step else {}
        key = "c16:%s:%s be=%s" % (kind, s.get("op"), BE[e["be"]][:5])
        if kind == "panic":
            # classify the cause: an operand stores more limbs than its metadata spans
            b = e["b"]
            regs = {}
            for ss, oo in zip(e["prog"][:step - 1], e["outs"][:step - 1]):
                if oo["cls"] == "ok":
                    regs[ss["d"]] = (oo["ld"], oo["lb"], oo["maxk"])
            srcs = [s["d"]] if s["op"].endswith("_assign") else [s["a"]]
            if s["op"] in ("mul_into", "mul_assign", "mul_add_ct", "mul_sub_ct", "dot_ct", "mul_many"):
                srcs.append(s["b"])
            if s["op"] in ("dot_ct", "mul_many") or (s["op"] in ("dot_ptv", "dot_ptz") and s["bits"] == 2):
                srcs.append(s["c"])
            if s["op"] == "dot_ct":
                srcs.append(s["bits"])
            gap = any(r in regs and -(-(regs[r][0] + regs[r][1]) // b) != regs[r][2] // b for r in srcs)
            key += " gap=%d msg=%s" % (int(gap), re.sub(r"\d+", "#", o.get("status", ""))[:60].replace("\n", " "))
        if key in seen:
            continue
        seen.add(key)
        rep.violation(key, "program rejected by CkksTrace (%s) at step %d: %s" % (kind, step, key),
                      {"kind": kind, "step": step, "program": e["prog"][:step], "observed": e["outs"][:step], "b": e["b"], "be": e["be"], "kmax": e["kmax"]})
    for e in events:
        for s, o in zip(e["prog"], e["outs"]):
            ops[s["op"]] = ops.get(s["op"], 0) + 1
            c = o["status"] if o["cls"] == "err" else o["cls"]
            classes[c] = classes.get(c, 0) + 1
    rep.extra["steps_by_operation"] = ops
    rep.extra["outcome_classes"] = classes
    rep.evaluations += sum(len(e["outs"]) for e in events)
    rep.distinct += len(events)
    rep.rule = ("%d random straight-line programs of 12 steps over 4 registers (TLC simulation of Gen_C16, whose transition function IS Ckks.tla's metadata state machine, so programs walk into "
                "budget exhaustion, missing keys, multiplication underflow, destinations smaller / larger than the natural result, in-place forms, re-allocation, vector and constant plaintext operands of their own precision (add / sub / mul, out of place and in place), the fused dst (+-)= a * (ciphertext | vector | constant) forms as compositions of the plain outcomes, add_many, mul_many, ciphertext dot products, the limb-form (znx) vector and constant operands including a foreign radix and a mis-encoded constant, plaintext-weighted dot products over vectors / constants in both forms, align) on FFT64Ref/Avx (base2k 19) and "
                "NTT120Ref/Avx (base2k 52), N=64; CkksTrace replays every program on the specification and compares per step: outcome class (Ok / the named error / never a panic), the "
                "destination's (log_delta, log_budget, stored bits), log_delta+log_budget <= stored bits on whatever the library reports, and the largest slot error against the same program "
                "on complex numbers (f64) below the specification's worst-case error model (proportional to 2^-log_delta); distinct = programs" % len(events))
    rep.sample({"program": events[0]["prog"][:4], "observed": events[0]["outs"][:4]})
    log("[C16] %d programs, %d steps, %d rejected" % (len(events), rep.evaluations, len(bad)))
    rep.assumptions += ["f64 plaintext element type only (f128 is a dev-dependency of the crate's tests, not available to the harness)",
                        "operations covered: encrypt, add/sub/neg, mul/square, mul/div by powers of two, rescale, rotate/conjugate, compact/reallocate (into and in-place forms), plaintext vector / constant operands (f64 rnx forms with an explicit precision), "
                        "multiply-add / multiply-sub, add_many, mul_many (3 factors) and the ciphertext dot product (2 pairs); ckks_extract_pt_znx only through ckks_decrypt; f128 plaintexts not driven",
                        "values are kept below the headroom by the generator (the API cannot know magnitudes); slot values on the unit circle"]
