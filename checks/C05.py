"""C05 — ciphertext multiplication (tensor, relinearise, plain, constant) scales right."""
from vlib import common, kspipe
from vlib.common import log, ToolError

LEVEL = "model_checking"


def run(rep, tier):
    wd = common.workdir("C05")
    quick = tier == "quick"
    path, n_all, n = kspipe.gen_descs(rep, wd, "Core/Gen_C05", "Core/Gen_C05_quick" if quick else "Core/Gen_C05_thorough", "c05",
                                      per_op=250 if quick else 4000, weights={"relin": 0.4, "mul_plain": 2, "tensor": 1.5})
    events, bad = kspipe.run_and_validate(rep, wd, path, "c05", shards=14, sub="mul", trace_module="Core/MulTrace")
    nb = kspipe.report(rep, events, bad, {"sem"}, "c05")
    vac = {i for i, k in bad if k == "vacuous"}
    ops = {}
    for i, e in enumerate(events):
        ops[e["op"]] = ops.get(e["op"], 0) + 1
    rep.extra["ops_covered"] = ops
    rep.extra["relin_with_vacuous_bound"] = len(vac)
    rep.evaluations += len(events) * 8
    rep.distinct += len(events)
    rep.rule = ("%d of the %d behaviours enumerated by TLC from Gen_C05 (per-operation stratified, seeded), on 4 back-ends x 2 fills, N=8: every column of the result of mul_const / mul_plain / "
                "tensor (+square, +add_assign) is compared by TLC with the EXACT negacyclic product of the signed integers the operand limbs spell (last limb cut to the effective precision), "
                "scaled by 2^(off + KR - KA - KB): exact when the exponent is >= 0, within one unit of the last limb otherwise (two across radices; four for the thrice-rounded off-diagonal tensor "
                "columns); every bit offset 0..KA+KB, unequal effective precisions, results with fewer/more limbs; relinearisation: phase under s of the result vs phase of the tensor under "
                "(s, s x s) within the gadget bound; distinct = behaviours" % (n, n_all))
    for e in events[:: max(1, len(events) // 3)][:3]:
        rep.sample({k: e[k] for k in e if k not in ("outs", "key", "scr", "a", "b", "prev", "sk")})
    log("[C05] %d behaviours, %d rejected" % (len(events), nb))
    rep.assumptions += ["N = 8; radices 3 and 4; KA + KB <= 20 bits (18 for tensor) so that exact products are native TLC integers",
                        "the product identities are key-free (column-wise), so operands are ciphertext-shaped buffers with seeded / extreme digits; relinearisation uses a real secret and tensor key",
                        "mul_const_assign is specified with its documented-in-spec truncation slack (Mul.tla: AssignTruncation)"]
