"""C17 — safe API calls never access memory outside the buffers they were given."""
import json
import os
from vlib import common, halpipe, kspipe
from vlib.common import log, ToolError

LEVEL = "model_checking"


def run(rep, tier):
    wd = common.workdir("C17")
    quick = tier == "quick"
    # 1. the layout invariant is preserved by every history of dimension-changing operations (design level)
    r = common.tlc("Mem/MC_Layout", workers=8, wd=wd, timeout=1800)
    common.tlc_must(r, "MC_Layout")
    rep.add_tlc(r, "MC_Layout")
    if not r.ok:
        rep.violation("spec:MC_Layout:" + str(r.invariant), "layout invariant %s fails in the specification" % r.invariant, {"tlc": r.out[-3000:]})
        return
    # 2. histories on real objects living in guard-page windows: allocate / set_size / deserialise / probe
    nh = 1500 if quick else 20000
    g = common.tlc("Mem/Gen_C17", workers=1, wd=wd, simulate=nh, depth=40, seed=common.seed(), timeout=3600)
    common.tlc_must(g, "Gen_C17")
    if g.invariant:
        rep.violation("spec:Gen_C17:" + str(g.invariant), "a simulated history violates LayoutOK in the specification", {"tlc": g.out[-3000:]})
        return
    hists = [json.loads(json.loads(x)) for x in g.printed("PROG")]
    if len(hists) < nh // 2:
        raise ToolError("Gen_C17 produced %d histories\n%s" % (len(hists), g.out[-1500:]))
    for i, h in enumerate(hists):
        h["id"] = i + 1
    rep.states += g.generated
    rep.transitions += g.generated
    hp = os.path.join(wd, "c17.hists.ndjson")
    common.write_ndjson(hp, hists)
    steps = 0
    for mode in ("1", "2"):
        ep = os.path.join(wd, "c17.hist.m%s.events.ndjson" % mode)
        p = common.harness(["guardrun", "hist", hp, ep], env={"VERIF_GUARD": mode}, timeout=7200)
        if p.returncode != 0:
            raise ToolError("harness hist failed rc=%d\n%s" % (p.returncode, p.stdout[-3000:]))
        ev = common.read_ndjson(ep)
        for s in common.read_ndjson(ep + ".signals.ndjson"):
            rep.violation("hist:signal:%s mode=%s" % (json.dumps(s["desc"]["hist"])[:160], mode), "a history step faulted (signal %s) with guard mode %s" % (s["signal"], mode), {"history": s["desc"], "signal": s["signal"]})
        t = common.tlc("Mem/LayoutTrace", env={"TRACE": ep}, workers=1, wd=wd, timeout=7200, xmx="4g")
        common.tlc_must(t, "LayoutTrace")
        v = t.printed("VERDICT")
        if not t.ok or not v or t.distinct != len(ev) + 1:
            raise ToolError("LayoutTrace did not complete:\n" + t.out[-3000:])
        rep.states += t.distinct
        rep.transitions += t.generated
        for k, kind, step in json.loads(json.loads(v[0].split(", ", 1)[1])):
            e = ev[k - 1]
            s = e["hist"][step - 1] if 0 < step <= len(e["hist"]) else {}
            o = e["outs"][step - 1] if 0 < step <= len(e["outs"]) else {}
            key = "hist:%s:%s%s status=%s" % (kind, s.get("op"), (":" + s["probe"]) if s.get("probe") else "", o.get("status"))
            rep.violation(key, "history rejected by LayoutTrace (%s) at step %d" % (kind, step), {"history": e["hist"][:step], "observed": e["outs"][:step], "be": e["be"], "guard": mode})
        steps += sum(len(e["outs"]) for e in ev)
    rep.traces += 2 * len(hists)
    rep.evaluations += steps
    rep.distinct += len(hists)
    # 2b. the scratch arena as a state machine (Arena.tla): takes of boundary sizes from windows starting at any offset modulo 64,
    #     from remainders and from regions taken earlier; every granted region is written in full inside guard-page windows
    na = 1200 if quick else 12000
    ga = common.tlc("Mem/Gen_Arena", workers=1, wd=wd, simulate=na, depth=10, seed=common.seed(), timeout=3600)
    common.tlc_must(ga, "Gen_Arena")
    if ga.invariant:
        rep.violation("spec:Gen_Arena:" + str(ga.invariant), "a simulated arena history violates ArenaOK in the specification", {"tlc": ga.out[-3000:]})
        return
    ahists = [json.loads(json.loads(x)) for x in ga.printed("PROG")]
    if len(ahists) < na // 2:
        raise ToolError("Gen_Arena produced %d histories\n%s" % (len(ahists), ga.out[-1500:]))
    for i, h in enumerate(ahists):
        h["id"] = i + 1
    rep.states += ga.generated
    rep.transitions += ga.generated
    ap = os.path.join(wd, "c17.arena.ndjson")
    common.write_ndjson(ap, ahists)
    asteps = 0
    for mode in ("1", "2"):
        ep = os.path.join(wd, "c17.arena.m%s.events.ndjson" % mode)
        p = common.harness(["guardrun", "hist", ap, ep], env={"VERIF_GUARD": mode}, timeout=7200)
        if p.returncode != 0:
            raise ToolError("harness hist (arena) failed rc=%d\n%s" % (p.returncode, p.stdout[-3000:]))
        ev = common.read_ndjson(ep)
        for s in common.read_ndjson(ep + ".signals.ndjson"):
            rep.violation("arena:signal mode=%s win=%s boff=%s" % (mode, s["desc"].get("win"), s["desc"].get("boff")), "an arena history faulted (signal %s) with guard mode %s" % (s["signal"], mode), {"history": s["desc"], "signal": s["signal"]})
        t = common.tlc("Mem/ArenaTrace", env={"TRACE": ep}, workers=1, wd=wd, timeout=7200, xmx="4g")
        common.tlc_must(t, "ArenaTrace")
        v = t.printed("VERDICT")
        if not t.ok or not v or t.distinct != len(ev) + 1:
            raise ToolError("ArenaTrace did not complete:\n" + t.out[-3000:])
        rep.states += t.distinct
        rep.transitions += t.generated
        for k, kind, step in json.loads(json.loads(v[0].split(", ", 1)[1])):
            e = ev[k - 1]
            s = e["hist"][step - 1] if 0 < step <= len(e["hist"]) else {}
            o = e["outs"][step - 1] if 0 < step <= len(e["outs"]) else {}
            key = "arena:%s status=%s canary=%s" % (s.get("kind"), o.get("status"), o.get("canary"))
            rep.violation(key, "arena history rejected by ArenaTrace at step %d: take %s bytes (%s) from region %s" % (step, s.get("n"), s.get("kind"), s.get("src")),
                          {"win": e["win"], "boff": e["boff"], "history": e["hist"][:step], "observed": e["outs"][:step], "be": e["be"], "guard": mode})
        asteps += sum(len(e["outs"]) for e in ev)
    rep.traces += 2 * len(ahists)
    rep.evaluations += asteps
    rep.distinct += len(ahists)
    rep.extra["arena_histories"] = {"histories": len(ahists), "steps": asteps}
    # 3. the HAL corpora (every N from 1, odd limb counts, 1..3 columns, exact-size scratch) executed over guard-page windows
    halpipe.GUARD = "1"
    halpipe.SIGNALS.clear()
    nhal = 0
    for name, keep in (("c09", 0), ("c07", 0 if not quick else 1500), ("c08", 300 if quick else 4000)) + (() if quick else (("wide", 0),)):
        mod, qcfg, tcfg, qsub, shards = halpipe.CORPORA[name]
        descs, n = halpipe.gen_descs(rep, wd, mod, qcfg if quick else tcfg, name)
        rows = common.read_ndjson(descs)
        for i, row in enumerate(rows):
            row.setdefault("id", i + 1)
            row["scr"] = "exact"
        common.write_ndjson(descs, rows)
        nd = halpipe.subsample(descs, keep, common.seed())
        events, bad = halpipe.run_and_validate_sharded(rep, wd, descs, name + ".g", shards=10)
        nhal += len(events)
        nb = halpipe.report(rep, events, bad, {"fill", "scrmem"}, name)      # an under-declared scratch panics (C12): not a memory access
        rep.extra.setdefault("corpora", []).append({"corpus": name + " (guard pages)", "descriptors": nd, "events": len(events)})
        log("[C17] corpus %s under guard pages: %d events, %d rejected (frame / scratch), %d faults so far" % (name, len(events), nb, len(halpipe.SIGNALS)))
    halpipe.GUARD = None
    for s in halpipe.SIGNALS:
        d = s["desc"]
        rep.violation("hal:signal:%s n=%s" % (d.get("op"), d.get("n")), "HAL call faulted (signal %s) over guard-page windows: %s" % (s["signal"], json.dumps(d)[:300]), {"descriptor": d, "signal": s["signal"]})
    # 4. scheme level: scratch windows of exactly the declared size ending at a guard page
    sig = []
    ncore = 0
    for name, mod, sub, per in (("c03", "Core/Gen_C03", "ks", 10 if quick else 120), ("c04", "Core/Gen_C04", "xp", 10 if quick else 120)):
        path, n_all, n = kspipe.gen_descs(rep, wd, mod, mod + ("_quick" if quick else "_thorough"), name + "g", per_op=per, exact=True, weights={"keyswitch": 6, "xp": 5},
                                          keep=lambda x: x["op"] != "pack" or (x["bin"] == x["bout"] and x["sin"] == x["sout"]))
        events, bad = kspipe.run_and_validate(rep, wd, path, name + "g", shards=12, sub=sub, guard="1", signals=sig)
        ncore += len(events)
        kspipe.report(rep, events, bad, {"fill", "scrmem"}, name + "g")
    for s in sig:
        d = s["desc"]
        rep.violation("core:signal:%s" % d.get("op"), "scheme-level call faulted (signal %s): %s" % (s["signal"], json.dumps(d)[:300]), {"descriptor": d, "signal": s["signal"]})
    rep.evaluations += (nhal + ncore) * 8
    rep.rule = ("MC_Layout: every history of alloc / set_size / read_from / reuse keeps LayoutOK and every nameable element inside the buffer (exhaustive, small domain). %d random histories "
                "(TLC simulation of Layout.tla, depth 10) on real VecZnx views whose storage ends at (mode 1) or starts after (mode 2) an inaccessible page, 4 back-ends: LayoutTrace compares "
                "outcome class and dimensions per step, LayoutOK on the reported dimensions, canaries, and a fault is a violation. %d scratch-arena histories (TLC simulation of Arena.tla: windows starting at any offset modulo 64, takes of boundary sizes -- including element counts whose byte size wraps -- from the window, remainders and earlier regions) on the real Scratch: ArenaTrace compares refused / granted, the granted region and the remainder per step. The HAL corpora of C09/C07/C08/wide (N from 1, odd sizes, "
                "1..3 columns, exact-size scratch) and the key-switching / external-product corpora (exact-size scratch) re-run with every harness-provided operand, result and scratch window "
                "ending at an inaccessible page (%d + %d events): any out-of-bounds read or write faults the child process, which is bisected to the descriptor; distinct = histories" % (len(hists), len(ahists), nhal, ncore))
    rep.sample(hists[0])
    rep.assumptions += ["a window ends at the guard page only when its length is a multiple of 64 (alignment); otherwise up to 63 canary bytes lie in between: reads into them are not seen, writes are",
                        "buffers the library allocates itself (owned Vec<u8>, DeviceBuf) are not guard-page backed; misaligned and dangling accesses are not observed by this technique; no sanitizer is used",
                        "VecZnx histories only (MatZnx / VecZnxDft / core wrappers share the same accessor scheme but are not driven)"]
