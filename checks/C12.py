"""C12 — declared scratch size always suffices and scratch contents never matter."""
import json
import os
from vlib import common, halpipe, kspipe
from vlib.common import log, ToolError

LEVEL = "model_checking"


def run(rep, tier):
    wd = common.workdir("C12")
    quick = tier == "quick"
    # 1. arena discipline on the specification
    r = common.tlc("Mem/MC_Scratch", workers=8, wd=wd, timeout=1800)
    common.tlc_must(r, "MC_Scratch")
    rep.add_tlc(r, "MC_Scratch")
    if not r.ok:
        rep.violation("spec:MC_Scratch:" + str(r.invariant), "arena invariant %s fails in the specification" % r.invariant, {"tlc": r.out[-3000:]})
        return
    # design-level lemma: adding raw byte counts does NOT bound the arena need when sizes are not multiples of 64;
    # TLC is expected to refute it (this is evidence for the under-estimate class, not a violation by itself)
    r2 = common.tlc("Mem/MC_Scratch", cfg="Mem/MC_Scratch_raw", workers=4, wd=wd, timeout=600)
    common.tlc_must(r2, "MC_Scratch_raw")
    rep.add_tlc(r2, "MC_Scratch_raw")
    rep.extra["raw_sum_lemma_refuted_by_tlc"] = (r2.invariant == "RawSumSuffices")
    # 2. every scratch-taking HAL call inside a window of exactly the declared size (hook H4 logs the takes)
    total = 0
    for name, keep in (("c09", 0), ("c07", 0), ("c08", 400 if quick else 3000)):
        mod, qcfg, tcfg, qsub, shards = halpipe.CORPORA[name]
        descs, n = halpipe.gen_descs(rep, wd, mod, qcfg if quick else tcfg, name)
        rows = common.read_ndjson(descs)
        for i, row in enumerate(rows):
            row.setdefault("id", i + 1)
            row["scr"] = "exact"
        common.write_ndjson(descs, rows)
        nd = halpipe.subsample(descs, keep, common.seed())
        events, bad = halpipe.run_and_validate_sharded(rep, wd, descs, name, shards=8)
        with_scr, calls, first = 0, 0, None
        for e in events:   # streamed from disk
            cs = sum(len(r_["calls"]) for r_ in e["scr"])
            calls += cs
            if any(c["decl"] > 0 or c["takes"] for r_ in e["scr"] for c in r_["calls"]):
                with_scr += 1
                if first is None:
                    first = {"op": e["op"], "n": e["n"], "rs": e["rs"], "calls": e["scr"][0]["calls"]}
        total += calls
        rep.evaluations += calls
        rep.distinct += with_scr
        rep.extra.setdefault("corpora", []).append({"corpus": name, "descriptors": nd, "events": len(events), "events_taking_scratch": with_scr, "scratch_calls": calls})
        nb = halpipe.report(rep, events, bad, {"scr", "fill"}, name)
        log("[C12] corpus %s: %d events (%d take scratch, %d library calls in exact-size windows), %d rejected" % (name, len(events), with_scr, calls, nb))
        if first:
            rep.sample(first)
    # 2b. scheme level: key generation, key preparation and every operation of the key-switching / external-product
    #     families in exact-size windows (TLC-enumerated gadget shapes incl. cross-radix ones)
    for name, mod, sub, per in (("c03", "Core/Gen_C03", "ks", 12 if quick else 150), ("c04", "Core/Gen_C04", "xp", 12 if quick else 150),
                                ("c05", "Core/Gen_C05", "mul", 60 if quick else 1500)):
        path, n_all, n = kspipe.gen_descs(rep, wd, mod, mod + ("_quick" if quick else "_thorough"), name + "x", per_op=per, exact=True, weights={"keyswitch": 8, "xp": 6, "glwe_from_lwe": 6},
                                          # glwe_pack_tmp_bytes only sees the result's layout: inputs laid out like the result
                                          keep=lambda x: x["op"] != "pack" or (x["bin"] == x["bout"] and x["sin"] == x["sout"]))
        events, bad = kspipe.run_and_validate(rep, wd, path, name + "x", shards=12, sub=sub, **({"trace_module": "Core/MulTrace"} if sub == "mul" else {}))
        calls = sum(len(r_["calls"]) for e in events for r_ in e["scr"])
        total += calls
        rep.evaluations += calls
        rep.distinct += len(events)
        # a panic that only an exact-size window provokes is a scratch failure as well
        bad += [(i, "scr") for i, e in enumerate(events) if any(o["panic"] for o in e["outs"]) and (i, "scr") not in bad]
        nb = kspipe.report(rep, events, bad, {"scr", "fill"}, name + "x")
        rep.extra.setdefault("corpora", []).append({"corpus": name + " (exact scratch)", "descriptors": n, "events": len(events), "scratch_calls": calls})
        log("[C12] corpus %s exact: %d behaviours (%d library calls in exact-size windows), %d rejected" % (name, len(events), calls, nb))
    # 2c. matrix-level operations (GGSW key-switch / automorphism / from GGLWE, GGLWE external product, automorphism of
    #     automorphism keys, GGSW rotation) and their key generation / preparation in exact-size windows
    for name, cfg, per in (("c03g", "Core/Gen_Ggsw_c03", 8 if quick else 100), ("c04g", "Core/Gen_Ggsw_c04", 10 if quick else 120)):
        path, n_all, n = kspipe.gen_descs(rep, wd, "Core/Gen_Ggsw", cfg + ("_quick" if quick else "_thorough"), name + "x", per_op=per, exact=True)
        events, bad = kspipe.run_and_validate(rep, wd, path, name + "x", shards=12, sub="ggsw", trace_module="Core/GgswTrace")
        calls = sum(len(r_["calls"]) for e in events for r_ in e["scr"])
        total += calls
        rep.evaluations += calls
        rep.distinct += len(events)
        bad += [(i, "scr") for i, e in enumerate(events) if any(o["panic"] for o in e["outs"]) and (i, "scr") not in bad]
        nb = kspipe.report(rep, events, bad, {"scr", "fill"}, name + "x")
        rep.extra.setdefault("corpora", []).append({"corpus": name + " (exact scratch)", "descriptors": n, "events": len(events), "scratch_calls": calls})
        log("[C12] corpus %s exact: %d behaviours (%d library calls in exact-size windows), %d rejected" % (name, len(events), calls, nb))
    # 2d. poulpy-ckks: straight-line programs of the evaluator (Gen_C16, the C16 generator: every operation family, destinations
    #     smaller / larger than the natural result, in-place forms, plaintext operands in both forms, fused and composite
    #     operations) with EVERY step in a window of exactly the bytes its companion query returns, on two scratch fills
    def scrpairs(label, ep, n_expected):
        t = common.tlc("Mem/ScrPairTrace", env={"TRACE": ep}, workers=1, wd=wd, timeout=3600, xmx="4g")
        common.tlc_must(t, "ScrPairTrace " + label)
        v = t.printed("VERDICT")
        if not t.ok or not v or t.distinct != n_expected + 1:
            raise ToolError("ScrPairTrace %s did not complete:\n%s" % (label, t.out[-3000:]))
        rep.add_tlc(t, "trace:" + label)
        parts = v[0].split(", ")
        return json.loads(json.loads(v[0].split(", ", 1)[1].rsplit(", ", 1)[0])), int(parts[-1].rstrip(">").strip())
    nprog = 60 if quick else 600
    cev_all = []
    for cfg in ("fft", "ntt"):
        g = common.tlc("Ckks/Gen_C16", cfg="Ckks/Gen_C16_" + cfg, workers=1, wd=wd, simulate=nprog, depth=60, seed=common.seed(), timeout=3600)
        common.tlc_must(g, "Gen_C16 " + cfg)
        progs = [json.loads(json.loads(x)) for x in g.printed("PROG")]
        if len(progs) < nprog // 2:
            raise ToolError("Gen_C16 %s produced %d programs\n%s" % (cfg, len(progs), g.out[-1500:]))
        for i, pr in enumerate(progs):
            pr["id"] = i + 1
            pr["scr"] = "exact"
        pp, ep = os.path.join(wd, "ckks.%s.progs.ndjson" % cfg), os.path.join(wd, "ckks.%s.events.ndjson" % cfg)
        common.write_ndjson(pp, progs)
        hp = common.harness(["ckks", pp, ep], timeout=7200)
        if hp.returncode != 0:
            raise ToolError("harness ckks (exact scratch) failed rc=%d\n%s" % (hp.returncode, hp.stdout[-3000:]))
        ev = common.read_ndjson(ep)
        cbad, ntakes = scrpairs("ckks-" + cfg, ep, len(ev))
        ncalls = sum(len(r_["calls"]) for e in ev for r_ in e["scr"])
        total += ncalls
        rep.evaluations += ncalls
        rep.distinct += len(ev)
        rep.traces += len(ev)
        seen_c = set()
        for k, kind in cbad:
            e = ev[k - 1]
            # name the first offending step
            step, why = None, ""
            for si in range(len(e["scr"][0]["calls"])):
                cs = [r_["calls"][si] for r_ in e["scr"] if si < len(r_["calls"])]
                if kind == "fill":
                    ds = [r_["digests"][si] for r_ in e["scr"] if si < len(r_["digests"])]
                    if len(set(json.dumps(x if x[0] == "ok" else [x[0], ""]) for x in ds)) > 1:
                        step = si
                        break
                elif kind == "max":
                    if any(c.get("all", -1) >= 0 and c["decl"] > c["all"] for c in cs):
                        step = si
                        break
                elif any((not c["canary"]) or "Attempted to take" in c["panic"] or "scratch" in c["panic"].lower() for c in cs):
                    step = si
                    break
            op = e["prog"][step]["op"] if step is not None else "?"
            key = "ckks:%s:%s fam=%s" % (kind, op, "fft64" if e["be"] < 2 else "ntt120")
            if key in seen_c:
                continue
            seen_c.add(key)
            rep.violation(key, "CKKS step %s in a window of exactly its declared scratch rejected by ScrPairTrace (%s)" % (op, kind),
                          {"program": e["prog"][:(step or 0) + 1], "b": e["b"], "be": e["be"], "kmax": e["kmax"], "calls": [r_["calls"][step] for r_ in e["scr"]] if step is not None else []})
        rep.extra.setdefault("corpora", []).append({"corpus": "ckks programs %s (exact scratch)" % cfg, "programs": len(ev), "scratch_calls": ncalls, "programs_taking_scratch": ntakes})
        log("[C12] ckks %s: %d programs, %d steps in exact-size windows on 2 fills, %d rejected" % (cfg, len(ev), ncalls, len(cbad)))
        cev_all += ev
    # 2e. poulpy-bin-fhe: key generation, key preparation, blind rotation and circuit bootstrapping (Gen_BinScr: back-ends, ranks,
    #     extension factors, block sizes, optional GLWE switch of the BDD key, layout variants) in exact-size windows, two fills
    gb = common.tlc("Mem/Gen_BinScr", cfg="Mem/Gen_BinScr_quick" if quick else "Mem/Gen_BinScr_thorough", workers=2, wd=wd, timeout=900)
    common.tlc_must(gb, "Gen_BinScr")
    bdesc = [json.loads(json.loads(x)) for x in gb.printed("DESC")]
    if not gb.ok or len(bdesc) != gb.distinct - 1 or not bdesc:
        raise ToolError("Gen_BinScr did not complete:\n" + gb.out[-1500:])
    rep.add_tlc(gb, "gen:binscr")
    bdesc.sort(key=lambda x: json.dumps(x, sort_keys=True))
    for i, x in enumerate(bdesc):
        x["id"] = i + 1
    bdp, bep = os.path.join(wd, "binscr.descs.ndjson"), os.path.join(wd, "binscr.events.ndjson")
    common.write_ndjson(bdp, bdesc)
    hp = common.harness(["binscr", bdp, bep], timeout=3600)
    if hp.returncode != 0:
        raise ToolError("harness binscr failed rc=%d\n%s" % (hp.returncode, hp.stdout[-3000:]))
    bev = common.read_ndjson(bep)
    bbad, bt = scrpairs("binscr", bep, len(bev))
    ncalls = sum(len(r_["calls"]) for e in bev for r_ in e["scr"])
    total += ncalls
    rep.evaluations += ncalls
    rep.distinct += len(bev)
    rep.traces += len(bev)
    # a panic in an exact-size window that is not a refused take (e.g. an internal `scratch.available() >= ..` assertion) is a scratch failure as well
    bset = {(k, kind) for k, kind in bbad}
    for k, e in enumerate(bev):
        if any(r_["digests"][0][0] != "ok" for r_ in e["scr"]) and (k + 1, "scr") not in bset:
            bbad.append([k + 1, "scr"])
    seen_b = set()
    for k, kind in bbad:
        e = bev[k - 1]
        key = "binscr:%s:%s" % (kind, e["op"])
        if key in seen_b:
            continue
        seen_b.add(key)
        st = e["scr"][0]["digests"][0][0]
        rep.violation(key, "bin-fhe operation %s in a window of exactly its declared scratch rejected (%s): %s" % (e["op"], kind, st[:120]),
                      {"descriptor": {x: e[x] for x in e if x != "scr"}, "calls": [r_["calls"] for r_ in e["scr"]], "outcome": [r_["digests"] for r_ in e["scr"]]})
    byop = {}
    for e in bev:
        byop[e["op"]] = byop.get(e["op"], 0) + 1
    rep.extra.setdefault("corpora", []).append({"corpus": "bin-fhe (exact scratch)", "behaviours": len(bev), "by_operation": byop, "scratch_calls": ncalls, "behaviours_taking_scratch": bt})
    log("[C12] bin-fhe: %d behaviours in exact-size windows on 2 fills, %d rejected" % (len(bev), len(bbad)))
    # 3. monotonicity of the shape-parameterised size queries
    tb = os.path.join(wd, "tmpbytes.ndjson")
    rowsall = []
    for n in (8, 64):
        p = common.harness(["tmpbytes", n, tb + ".%d" % n])
        if p.returncode != 0:
            raise ToolError("harness tmpbytes failed\n" + p.stdout[-2000:])
        rowsall += common.read_ndjson(tb + ".%d" % n)
    common.write_ndjson(tb, rowsall)
    r3 = common.tlc("Mem/TmpBytesTrace", env={"TRACE": tb}, workers=1, wd=wd, timeout=900)
    common.tlc_must(r3, "TmpBytesTrace")
    v = r3.printed("VERDICT")
    if not v or r3.distinct != len(rowsall) + 1:
        raise ToolError("TmpBytesTrace did not consume the table:\n" + r3.out[-2000:])
    rep.add_tlc(r3, "TmpBytesTrace")
    rep.traces += len(rowsall)
    badrows = json.loads(json.loads(v[0].split(", ", 1)[1]))
    for b in badrows:
        row = rowsall[b - 1]
        rep.violation("mono:%s %s n=%d args=%s" % (row["op"], row["be"], row["n"], row["args"]), "size query not monotone: %s" % json.dumps(row), {"row": row})
    rep.rule = ("every scratch-taking HAL call of the c09/c07/c08 corpora run in a canary-guarded window of exactly the number of bytes its companion query returns, on 4 back-ends x 2 "
                "scratch fills; hook H4 logs every take and Scratch.tla replays the log (arena discipline, no failed take, high-water <= declared); results must not depend on the "
                "scratch fill; size queries checked monotone over a grid; distinct = events that take scratch")
    rep.assumptions += ["HAL layer plus the core key-switching / automorphism / trace / packing / LWE conversion / external product / CMux pairs (with their key generation and preparation calls); the CKKS evaluator's (operation, size query) pairs through whole programs; bin-fhe: key generation / preparation, blind rotation, circuit bootstrapping (small shapes, N = 16) besides the word operations, preparation and retrieval of C15 / C20",
                        "window base is 64-byte aligned as ScratchOwned::alloc guarantees"]
