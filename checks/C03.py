"""C03 — key-switching family preserves the plaintext within the predicted noise."""
from vlib import common, kspipe
from vlib.common import log, ToolError

LEVEL = "model_checking"


def run(rep, tier):
    wd = common.workdir("C03")
    quick = tier == "quick"
    # design level: the streaming packer's carry chain (pack_core / combine) implements the bit-reversed packing statement
    # for every presence pattern and log_batch, two rounds on one packer; negative control: without the bit reversal it must fail
    r = common.tlc("Core/MC_Packer", workers=6, wd=wd, timeout=1800)
    common.tlc_must(r, "MC_Packer")
    rep.add_tlc(r, "MC_Packer")
    if not r.ok:
        rep.violation("spec:MC_Packer:" + str(r.invariant), "invariant %s of MC_Packer fails in the specification" % r.invariant, {"tlc": r.out[-3000:]})
        return
    rn = common.tlc("Core/MC_Packer", cfg="Core/MC_Packer_neg", workers=6, wd=wd, timeout=1800)
    if rn.ok or rn.invariant != "AllOK":
        raise ToolError("MC_Packer negative control (no bit reversal) was not refuted:\n" + rn.out[-1500:])
    path, n_all, n = kspipe.gen_descs(rep, wd, "Core/Gen_C03", "Core/Gen_C03_quick" if quick else "Core/Gen_C03_thorough", "c03", per_op=40 if quick else 600)
    events, bad = kspipe.run_and_validate(rep, wd, path, "c03", shards=12 if quick else 14)
    nb = kspipe.report(rep, events, bad, {"sem", "key"}, "c03")
    # matrix-level members of the family (Ggsw.tla): GGSW key-switch / automorphism (column 0 + row expansion through the
    # tensor key), automorphism of automorphism keys, GGSW rotation
    gpath, gn_all, gn = kspipe.gen_descs(rep, wd, "Core/Gen_Ggsw", "Core/Gen_Ggsw_c03_quick" if quick else "Core/Gen_Ggsw_c03_thorough", "c03g", per_op=24 if quick else 400)
    gevents, gbad = kspipe.run_and_validate(rep, wd, gpath, "c03g", shards=12 if quick else 14, sub="ggsw", trace_module="Core/GgswTrace")
    nb += kspipe.report(rep, gevents, gbad, {"sem", "key"}, "c03g")
    bad = bad + [(i + len(events), k) for i, k in gbad]
    events = events + gevents
    n_all += gn_all
    n += gn
    vac = {i for i, k in bad if k == "vacuous"}
    ops = {}
    for i, e in enumerate(events):
        o = ops.setdefault(e["op"], [0, 0])
        o[0] += 1
        o[1] += int(i not in vac)
    rep.extra["ops_covered"] = {k: {"behaviours": v[0], "bound_below_1/16_torus": v[1]} for k, v in sorted(ops.items())}
    for op, v in ops.items():
        if v[1] == 0 and op != "sample_extract":
            raise ToolError("C03: every %s behaviour had a meaningless bound -- the corpus does not exercise the property" % op)
    rep.evaluations += len(events) * 8
    rep.distinct += len(events)
    rep.rule = ("%d of the %d behaviours enumerated by TLC from Gen_C03 (per-operation stratified, seeded): keygen -> encrypt -> operation on 4 back-ends x 2 fills, N=8; "
                "KsTrace recomputes from raw limbs and the clear secrets (a) the key rows' phases (KeyOK), (b) for the plain key-switch the EXACT gadget product from the logged key rows "
                "(key precision <= 16 bits), (c) for every operation the decryption phase of the result against Image_op(phase of the inputs) within the worst-case gadget bound "
                "(KsFamily.tla); GGSW key-switch / automorphism: column 0 of every row by the GLWE relation, every other column against s_j * phase(column 0) (row expansion through the tensor key, Ggsw.tla), and the result as a valid GGSW of the (mapped) plaintext; automorphism of automorphism keys: a valid key for the product of the Galois elements; GGSW rotation limb-exact; the streaming packer over add / flush histories (two rounds, presence patterns, every log_batch) against the bit-reversed packing statement that MC_Packer checks the carry chain against; behaviours whose bound exceeds 1/16 of the torus are counted separately; distinct = behaviours" % (n, n_all))
    for e in events[:: max(1, len(events) // 3)][:3]:
        rep.sample({k: e[k] for k in e if k not in ("outs", "key", "tsk", "scr", "a", "sk_in", "sk_out")})
    log("[C03] %d behaviours, %d rejected, %d with vacuous bound" % (len(events), nb, len(vac)))
    rep.assumptions += ["N = 8; radices 3 and 4; precisions <= 24 bits (native-integer phase arithmetic in TLC)",
                        "GGSW key-switch / automorphism and automorphism-key automorphism: bound level (and the exact row-expansion identity for keys <= 16 bits); N = 8",
                        "noise is checked against the worst-case bound implied by the configured truncation of the Gaussian, not against a variance estimate"]
