"""C13 — compiled BDD circuits compute their 32-bit word functions for all inputs."""
import json
import os
import random
import re
import shutil
import sys
from concurrent.futures import ThreadPoolExecutor

from vlib import common
from vlib.common import log, ToolError

LEVEL = "proof"
OPS = ["add", "sub", "sll", "srl", "sra", "slt", "sltu", "and", "or", "xor", "identity"]
DICT = [0, 1, 2, 3, 5, 31, 32, 33, 63, 0x7FFFFFFF, 0x80000000, 0xFFFFFFFF, 0xAAAAAAAA, 0x55555555, 0x0000FFFF, 0xFFFF0000,
        0x80000001, 0xFFFFFFFE, 0x00010000, 0x0000FFFE] + [1 << k for k in (4, 8, 15, 16, 24, 30)]


def eval_table(row, a, b):
    """plain evaluation of a table row (used only to confirm a counter-example before reporting it)"""
    w, nodes = row["w"], row["nodes"]
    if w == 0:
        return 0
    x = [(a >> i) & 1 for i in range(32)] + [(b >> i) & 1 for i in range(32)]
    prev = [0] * w
    if w > 1:
        prev[1] = 1
    for l in range(len(nodes) // w):
        nxt = [None] * w
        for j in range(w):
            k, bi, h, lo = nodes[l * w + j]
            if k == 0:
                nxt[j] = prev[h] if x[bi] else prev[lo]
            elif k == 1:
                nxt[j] = prev[j]
        prev = nxt
    return prev[0]


def apalache(wd, tables, op, bit):
    sys.path.insert(0, os.path.join(common.VERIF, "tools"))
    import gen_bdd_tla
    name = "B_%s_%d" % (op, bit)
    d = os.path.join(wd, "apa", name)
    os.makedirs(d, exist_ok=True)
    row = [r for r in tables if r["op"] == op and r["bit"] == bit][0]
    txt, nconj = gen_bdd_tla.gen(row, name)
    with open(os.path.join(d, name + ".tla"), "w") as f:
        f.write(txt)
    p = common.sh(["apalache-mc", "check", "--length=0", "--inv=Inv", "--out-dir=" + os.path.join(d, "out"), name + ".tla"],
                  cwd=d, env={"JVM_ARGS": "-Xss1g -Xmx4g"}, timeout=1500)
    out = p.stdout
    if "The outcome is: NoError" in out:
        shutil.rmtree(d, ignore_errors=True)
        return ("proved", op, bit, nconj, None)
    if "The outcome is: Error" in out:
        cex = None
        for root, _, files in os.walk(os.path.join(d, "out")):
            if "violation.itf.json" in files:
                itf = json.load(open(os.path.join(root, "violation.itf.json")))
                st = itf["states"][0]
                xm = st["x"]["#map"]
                bits = {int(k if not isinstance(k, dict) else k.get("#bigint", 0)): v for k, v in xm}
                a = sum((1 << i) for i in range(32) if bits.get(i))
                b = sum((1 << i) for i in range(32) if bits.get(32 + i))
                cex = (a, b)
                break
        return ("refuted", op, bit, nconj, cex)
    return ("toolerror", op, bit, nconj, out[-1500:])


def run(rep, tier):
    wd = common.workdir("C13")
    quick = tier == "quick"
    rnd = random.Random(common.seed())
    tables_p = os.path.join(wd, "tables.ndjson")
    p = common.harness(["bdd-tables", tables_p])
    if p.returncode != 0:
        raise ToolError("bdd-tables failed\n" + p.stdout[-2000:])
    tables = common.read_ndjson(tables_p)
    # dictionary x dictionary (+ shift amounts 0..63 as b) + seeded random pairs
    pairs = [(a, b) for a in DICT for b in DICT] + [(a, s) for a in (0x80000001, 0x7FFFFFFF, 0xDEADBEEF, 1) for s in range(64)]
    pairs += [(rnd.getrandbits(32), rnd.getrandbits(32)) for _ in range(200 if quick else 2000)]
    if quick:
        pairs = rnd.sample(pairs, 250)
    pairs_p = os.path.join(wd, "pairs.ndjson")
    common.write_ndjson(pairs_p, [{"a": a, "b": b} for a, b in pairs])
    words_p = os.path.join(wd, "words.ndjson")
    p = common.harness(["bdd-words", pairs_p, words_p])
    if p.returncode != 0:
        raise ToolError("bdd-words failed\n" + p.stdout[-2000:])
    # 1. TLC: structure of all bit circuits, function on the dictionary, WordOps.tla vs plain Rust
    r = common.tlc("BinFhe/MC_Bdd", env={"TABLES": tables_p, "WORDS": words_p}, workers=8, wd=wd, timeout=3000)
    common.tlc_must(r, "MC_Bdd")
    rep.add_tlc(r, "MC_Bdd")
    nwords = len(pairs) * len(OPS)
    if r.invariant:
        st = re.findall(r"/\\ i = (\d+)", r.out)
        ph = re.findall(r'/\\ phase = "(\w+)"', r.out)
        i = int(st[-1]) if st else 0
        phase = ph[-1] if ph else "?"
        if phase == "structure":
            row = tables[i - 1]
            rep.violation("bdd:%s:%s bit=%d" % (r.invariant, row["op"], row["bit"]), "bit circuit %s[%d] violates %s" % (row["op"], row["bit"], r.invariant),
                          {"invariant": r.invariant, "op": row["op"], "bit": row["bit"], "w": row["w"], "nodes": row["nodes"]})
        else:
            wrow = common.read_ndjson(words_p)[i - 1]
            a = wrow["a"][0] + (wrow["a"][1] << 16)
            b = wrow["b"][0] + (wrow["b"][1] << 16)
            rep.violation("bdd:%s:%s" % (r.invariant, wrow["op"]), "%s fails for op %s a=%#x b=%#x" % (r.invariant, wrow["op"], a, b),
                          {"invariant": r.invariant, "op": wrow["op"], "a": a, "b": b, "rust": wrow["r"]})
        return
    if not r.ok or r.distinct != len(tables) + nwords:
        raise ToolError("MC_Bdd did not complete (%d states for %d tables + %d word rows)\n%s" % (r.distinct, len(tables), nwords, r.out[-2000:]))
    # binding self-test: a swapped hi/lo in one table node, and a wrong Rust result, must both be refuted
    mt = json.loads(json.dumps(tables))
    cand = [(ti, k) for ti, t in enumerate(mt) if t["op"] == "add" and t["bit"] == 7 for k, n in enumerate(t["nodes"]) if n[0] == 0 and n[2] != n[3]]
    ti, k = cand[len(cand) // 2]
    mt[ti]["nodes"][k][2], mt[ti]["nodes"][k][3] = mt[ti]["nodes"][k][3], mt[ti]["nodes"][k][2]
    mt_p = os.path.join(wd, "tables_mut.ndjson")
    common.write_ndjson(mt_p, mt)
    r2 = common.tlc("BinFhe/MC_Bdd", env={"TABLES": mt_p, "WORDS": words_p}, workers=8, wd=wd, timeout=3000)
    if r2.invariant != "FunctionOK":
        raise ToolError("binding self-test FAILED: mutated table not refuted by TLC (%s)" % r2.invariant)
    rep.extra["binding_selftest"] = {"mutated_table_refuted": True}
    # 2. Apalache: all 2^64 inputs, one obligation per (op, output bit)
    obligations = [(t["op"], t["bit"]) for t in tables]
    # regression cache: hashes of (op, bit, table row, generator source) whose obligation was discharged by a thorough run
    # and committed in spec/BinFhe/proved.json. quick = every row whose hash is NOT in the cache (i.e. any changed table)
    # + a seeded sample of 8; thorough = all of them, cache ignored.
    import hashlib
    gen_src = open(os.path.join(common.VERIF, "tools", "gen_bdd_tla.py")).read()
    def hrow(t):
        return hashlib.sha256((json.dumps([t["op"], t["bit"], t["w"], t["nodes"]]) + gen_src).encode()).hexdigest()[:24]
    cache_p = os.path.join(common.SPEC, "BinFhe", "proved.json")
    cache = set(json.load(open(cache_p))) if os.path.exists(cache_p) else set()
    hashes = {(t["op"], t["bit"]): hrow(t) for t in tables}
    changed = [ob for ob in obligations if hashes[ob] not in cache]
    if quick:
        todo = changed[:48] + [ob for ob in rnd.sample(obligations, 8) if ob not in changed[:48]]
        if len(changed) > 48:
            log("[C13] %d table rows are not in the proved cache; proving the first 48 in the quick tier" % len(changed))
    else:
        todo = obligations
    rep.extra["rows_matching_proved_cache"] = len(obligations) - len(changed)
    results = []
    with ThreadPoolExecutor(max_workers=8) as ex:
        for res in ex.map(lambda ob: apalache(wd, tables, ob[0], ob[1]), todo):
            results.append(res)
    proved = [r_ for r_ in results if r_[0] == "proved"]
    for kind, op, bit, nconj, info in results:
        if kind == "toolerror":
            raise ToolError("apalache failed on %s[%d]:\n%s" % (op, bit, info))
        if kind == "refuted":
            a, b = info if info else (0, 0)
            row = [t for t in tables if t["op"] == op and t["bit"] == bit][0]
            have = eval_table(row, a, b)
            log("[C13] apalache counter-example %s[%d]: a=%#x b=%#x table=%s" % (op, bit, a, b, have))
            rep.violation("bdd:apalache:%s bit=%d" % (op, bit), "circuit %s[%d] differs from the word operation at a=%#x b=%#x (table evaluates to %s)" % (op, bit, a, b, have),
                          {"op": op, "bit": bit, "a": a, "b": b, "table_value": have})
    rep.extra.update({
        "obligations": len(todo), "discharged": len(proved),
        "checker_cmd": "apalache-mc check --length=0 --inv=Inv B_<op>_<bit>.tla (generated by tools/gen_bdd_tla.py from the H1 tables); tlc MC_Bdd.tla",
        "trusted_base": ["Apalache 0.58 + z3", "TLC", "table extractor (hook H1)", "tools/gen_bdd_tla.py (node/aux-signal encoding)", "WordOps.tla recurrences, bound to plain Rust on %d (a,b) pairs" % len(pairs)],
        "total_obligations_in_tables": len(obligations),
        "tlc_dictionary_pairs": len(pairs),
    })
    if not quick and os.environ.get("VERIF_UPDATE_PROVED") == "1" and len(proved) == len(obligations):
        json.dump(sorted(hashes[(op, bit)] for _, op, bit, _, _ in proved), open(cache_p, "w"))
        log("[C13] proved cache updated: %d hashes" % len(proved))
    rep.evaluations += nwords + len(todo)
    rep.distinct += len(todo) + len(tables)
    rep.rule = ("structure: all %d bit circuits (TLC, Bdd!WellFormed); function: TLC on %d (a,b) pairs x 11 ops, Apalache symbolic over all 2^64 inputs on %d of %d (op,bit) obligations "
                "(quick: seeded subset; thorough: all); distinct = obligations + bit circuits" % (len(tables), len(pairs), len(todo), len(obligations)))
    rep.sample({"obligation": "%s[%d]" % todo[0], "result": results[0][0], "conjuncts": results[0][3]})
    rep.sample({"tlc_pair": {"a": pairs[0][0], "b": pairs[0][1]}})
    rep.assumptions += ["the evaluator's homomorphic Cmux is C04/C15's business; C13 is about the tables under the level-by-level selection semantics of Bdd.tla"]
    log("[C13] %d bit circuits structurally well formed; %d/%d Apalache obligations proved" % (len(tables), len(proved), len(todo)))
