"""C14 — blind rotation evaluates the lookup table at the encrypted index."""
import json
import os
import random
from concurrent.futures import ThreadPoolExecutor
from vlib import common
from vlib.common import log, ToolError

LEVEL = "model_checking"
BE = ["FFT64Ref", "FFT64Avx", "NTT120Ref", "NTT120Avx"]


def run(rep, tier):
    wd = common.workdir("C14")
    quick = tier == "quick"
    r = common.tlc("BinFhe/Gen_Lut", cfg="BinFhe/Gen_Lut_" + tier, workers=2, wd=wd, timeout=900)
    common.tlc_must(r, "Gen_Lut")
    if not r.ok:
        raise ToolError("Gen_Lut did not complete:\n" + r.out[-2000:])
    rep.add_tlc(r, "gen:lut")
    rows = [json.loads(json.loads(x)) for x in r.printed("DESC")]
    if len(rows) != r.distinct - 1:
        raise ToolError("Gen_Lut: %d descriptors for %d states" % (len(rows), r.distinct))
    rows.sort(key=lambda x: json.dumps(x, sort_keys=True))
    n_all = len(rows)
    rnd = random.Random(common.seed())
    luts = [x for x in rows if x["kind"] == "lut"]
    brs = [x for x in rows if x["kind"] == "br"]
    keep_l, keep_b = (len(luts), 4000) if quick else (len(luts), 30000)
    if len(luts) > keep_l:
        luts = rnd.sample(luts, keep_l)
    if len(brs) > keep_b:
        brs = rnd.sample(brs, keep_b)
    rows = luts + brs
    for i, x in enumerate(rows):
        x["id"] = i + 1
    common.build_harness()
    shards = 12
    per = (len(rows) + shards - 1) // shards

    def one(s):
        part = rows[s * per:(s + 1) * per]
        if not part:
            return [], [], None
        dp = os.path.join(wd, "c14.s%d.descs.ndjson" % s)
        ep = os.path.join(wd, "c14.s%d.events.ndjson" % s)
        common.write_ndjson(dp, part)
        p = common.harness(["lut", dp, ep], timeout=7200)
        if p.returncode != 0:
            raise ToolError("harness lut failed rc=%d\n%s" % (p.returncode, p.stdout[-3000:]))
        ev = common.read_ndjson(ep)
        t = common.tlc("BinFhe/LutTrace", env={"TRACE": ep}, workers=1, wd=wd, timeout=7200, xmx="4g")
        common.tlc_must(t, "LutTrace")
        v = t.printed("VERDICT")
        if not t.ok or not v or t.distinct != len(ev) + 1:
            raise ToolError("LutTrace did not complete:\n" + t.out[-3000:])
        bad = [(k - 1, kind) for k, kind in json.loads(json.loads(v[0].split(", ", 1)[1]))]
        return ev, bad, t

    events, bad = [], []
    with ThreadPoolExecutor(max_workers=shards) as ex:
        for ev, b, t in ex.map(one, range(shards)):
            base = len(events)
            events += ev
            bad += [(i + base, kind) for i, kind in b]
            if t:
                rep.states += t.distinct
                rep.transitions += t.generated
    rep.traces += len(rows)
    seen = set()
    for idx, kind in bad:
        e = events[idx]
        if e["kind"] == "lut":
            key = "c14:%s:lut n=%s ext=%s b=%s size=%s kmsg=%s len=%s" % (kind, e["n"], e["ext"], e["b"], e["size"], e["kmsg"], len(e["f"]))
        else:
            key = "c14:%s:br be=%s ext=%s rank=%s nlwe=%s block=%s blwe=%s p=%s dir=%s" % (kind, BE[e["be"]], e["ext"], e["rank"], e["nlwe"], e["block"], e["blwe"], e["p"], e["dir"])
        if key in seen:
            continue
        seen.add(key)
        small = {k: e[k] for k in e if k != "outs"}
        small["outs"] = [{"who": o["who"], "panic": o["rec"]["panic"], "dec0": o["rec"].get("dec0")} for o in e["outs"]]
        rep.violation(key, "behaviour rejected by LutTrace (%s): %s" % (kind, key), {"event": small})
    nl = sum(1 for e in events if e["kind"] == "lut")
    rots = sum(len(e["rots"]) for e in events if e["kind"] == "lut")
    nb = len(events) - nl
    strict = sum(1 for e in events if e["kind"] == "br" and e["strict"])
    rep.evaluations += rots * 4 + nb
    rep.distinct += len(events)
    rep.extra["tables"] = nl
    rep.extra["clear_rotations_per_backend"] = rots
    rep.extra["blind_rotations"] = nb
    rep.extra["blind_rotations_with_entry_check"] = strict
    rep.rule = ("%d of %d behaviours enumerated by TLC (Gen_Lut). Clear path: %d tables (every length 2^l <= N*ext, ext 1..4(8), limb layouts) set by the library and rotated by EVERY index of "
                "[0, 2N*ext) (as k and as k - 2N*ext) on 4 back-ends (%d rotations per back-end); raw limbs (hook H2) compared by TLC with Lut.tla: replicated entries on the top kmsg bits, "
                "half-step drift, interleaved storage, negacyclic rotation in the extended ring. Blind path: %d blind rotations (N=64, messages over all of Z_(2^(p+1)) incl. the wrapping half, "
                "p=1..4(5), ext 1,2,4, standard / block binary keys, LWE radix 6 and 12, both directions, ranks 1-2, 4 back-ends): TLC derives the switched index window from the raw LWE limbs "
                "and the clear LWE secret and requires the first limb of the decrypted result to be exactly the table rotated by an index in that window; for %d of them (half a step exceeds "
                "the switching error) the constant coefficient must be the selected entry with the negacyclic sign; distinct = behaviours" % (len(events), n_all, nl, rots, nb, strict))
    rep.sample({k: events[0][k] for k in events[0] if k not in ("outs", "rots")})
    log("[C14] %d tables (%d rotations x 4 back-ends), %d blind rotations, %d rejected" % (nl, rots, nb, len(bad)))
    rep.assumptions += ["blind results are decrypted with the library's glwe_decrypt (validated by C01); the expected rotation index is derived by TLC, not taken from the crate's mod_switch_2n",
                        "N=64 for the blind path, N<=8(16) for the clear path; the noise-free first limb is compared exactly, lower limbs are not"]
