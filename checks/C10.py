"""C10 — all back-ends give bit-identical results for identical inputs and seeds."""
from vlib import common, halpipe
from vlib.common import log

LEVEL = "model_checking"


def run(rep, tier):
    wd = common.workdir("C10")
    tot = 0
    for name in ("c09", "c08", "c07", "mag", "wide"):
        events, bad = halpipe.run_corpus(rep, wd, name, tier)
        nb = halpipe.report(rep, events, bad, {"be"}, name)
        tot += len(events)
        log("[C10] corpus %s: %d events, %d with back-end disagreement" % (name, len(events), nb))
        for e in [events[0]]:
            rep.sample({k: e[k] for k in ("op", "n", "rs", "p", "shape")})
    rep.rule = ("every HAL corpus (ring ops N=1..8/32, exhaustive-digit normalisation/shifts/encoding, DFT-domain shapes, magnitude classes up to N=1024/65536) executed on "
                "FFT64Ref, FFT64Avx, NTT120Ref, NTT120Avx from identical inputs; HalTrace.BeOK requires one outcome per pre-fill across back-ends; distinct = events")
    rep.assumptions += ["AVX2+FMA available on the host running the check", "FFT64 vs NTT120 compared only inside InDomain (Gen_Mag.DomainBits)"]
