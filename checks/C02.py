"""C02 — noise-free ciphertext operations commute exactly with decryption."""
import json
import os
from vlib import common, corepipe
from vlib.common import log, ToolError

LEVEL = "model_checking"


def run(rep, tier):
    wd = common.workdir("C02")
    quick = tier == "quick"
    # 1. spec-level: linearity of the phase for every secret (needs no key)
    r = common.tlc("Core/MC_C02", cfg="Core/MC_C02_quick" if quick else "Core/MC_C02", workers=8, wd=wd, timeout=3600)
    common.tlc_must(r, "MC_C02")
    rep.add_tlc(r, "MC_C02")
    if not r.ok:
        rep.violation("spec:MC_C02:" + str(r.invariant), "spec-level lemma %s fails" % r.invariant, {"tlc": r.out[-3000:]})
        return
    # 2. random straight-line programs (TLC simulation of Gen_C02) on the real library
    nprog = 250 if quick else 4000
    g = common.tlc("Core/Gen_C02", workers=1, wd=wd, simulate=nprog, depth=60, seed=common.seed(), timeout=1800)
    common.tlc_must(g, "Gen_C02")
    progs = [json.loads(json.loads(x)) for x in g.printed("PROG")]
    if len(progs) < nprog // 2:
        raise ToolError("Gen_C02 produced %d programs\n%s" % (len(progs), g.out[-1500:]))
    rep.states += g.generated
    rep.transitions += g.generated
    rep.extra.setdefault("tlc_runs", []).append({"run": "gen:c02 (simulation)", "states_generated": g.generated, "programs": len(progs)})
    for i, p in enumerate(progs):
        p["id"] = i + 1
    pp = os.path.join(wd, "c02.progs.ndjson")
    common.write_ndjson(pp, progs)
    events, bad = corepipe.run_and_validate(rep, wd, pp, "c02", shards=10 if quick else 14)
    nb = corepipe.report(rep, events, bad, {"sem"}, "c02")
    steps = [e for e in events if e["ev"] == "step"]
    ops = {}
    for e in steps:
        ops[e["op"]] = ops.get(e["op"], 0) + 1
    rep.extra["ops_covered"] = ops
    rep.evaluations += len(steps) * 8
    rep.distinct += len(progs)
    rep.rule = ("%d random straight-line programs of depth 12 over 4 registers (TLC simulation of Gen_C02 with the API's assertions as enabling conditions, two-phase choice so every "
                "operation family is equally likely), N=8, radices 3 and 5, executed on 4 back-ends x 2 fills; after every step TLC recomputes the phase of the written register from its raw "
                "limbs and the clear secret: linear operations must be EXACT on the operands cut to the result's limb count, shifts / re-normalisation column-wise within one unit of the last limb; "
                "distinct = programs" % len(progs))
    for e in steps[:: max(1, len(steps) // 3)][:3]:
        rep.sample({k: e[k] for k in ("op", "r", "a", "b", "k", "sz", "pb", "step")})
    log("[C02] %d programs, %d steps, %d rejected (sem)" % (len(progs), len(steps), nb))
    rep.assumptions += ["rank 1 programs (rank-0 plaintext operands, GGSW rotate pending)", "the 'one unit per truncated operand' clause is checked in its exact form (operands cut to the result's limbs) for linear "
                        "operations and column-wise for the rounding ones: a key-free operation cannot bound the phase error of a rounding step better than (1+|s|_1) units (DESIGN.md)"]
