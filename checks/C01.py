"""C01 — encrypt-then-decrypt returns the message up to the configured bounded error."""
from vlib import common, corepipe, kspipe
from vlib.common import log

LEVEL = "model_checking"


def run(rep, tier):
    wd = common.workdir("C01")
    quick = tier == "quick"
    # quick: the small grid enumerated by TLC, seeded subset; thorough: the small grid in full plus behaviours drawn by
    # TLC's simulator from the full grid (millions of points: Gen_C01S)
    progs, n, kept = corepipe.gen_programs(rep, wd, "Core/Gen_C01", "Core/Gen_C01_quick", "c01", keep=1500 if quick else 0, always=lambda p: p["n"] >= 64)
    if not quick:
        import json
        nsim = 40000
        g = common.tlc("Core/Gen_C01S", cfg="Core/Gen_C01S", workers=1, wd=wd, simulate=nsim, depth=8, seed=common.seed(), timeout=3600)
        common.tlc_must(g, "Gen_C01S")
        seen, rows = set(), common.read_ndjson(progs)
        for x in g.printed("PROG"):
            if x not in seen:
                seen.add(x)
                rows.append(json.loads(json.loads(x)))
        if len(seen) < nsim // 4:
            raise common.ToolError("Gen_C01S produced %d programs\n%s" % (len(seen), g.out[-1500:]))
        for i, row in enumerate(rows):
            row["id"] = i + 1
        common.write_ndjson(progs, rows)
        rep.add_tlc(g, "gen:c01s")
        rep.extra["programs_sampled_from_full_grid"] = len(seen)
        kept = len(rows)
        n += len(seen)
    events, bad = corepipe.run_and_validate(rep, wd, progs, "c01", shards=8 if quick else 12)
    nb = corepipe.report(rep, events, bad, {"sem"}, "c01")
    steps = [e for e in events if e["ev"] == "step"]
    # LWE ciphertexts: encrypt ; decrypt behaviours validated by KsFamily.LweEncDecOK (phase recomputed by TLC)
    lpath, ln_all, ln = kspipe.gen_descs(rep, wd, "Core/Gen_C01L", "Core/Gen_C01L_quick" if quick else "Core/Gen_C01L_thorough", "c01l", per_op=1200 if quick else 0)
    levents, lbad = kspipe.run_and_validate(rep, wd, lpath, "c01l", shards=8)
    nbl = kspipe.report(rep, levents, lbad, {"sem"}, "c01l")
    rep.evaluations += len(levents) * 8
    rep.distinct += len(levents)
    rep.extra["lwe_behaviours"] = {"in_scope": ln_all, "run": len(levents), "rejected": nbl}
    rep.evaluations += len(steps) * 8
    rep.distinct += kept
    ops = {}
    for e in steps:
        ops[e["op"]] = ops.get(e["op"], 0) + 1
    rep.extra["ops_covered"] = ops
    rep.extra["programs_in_scope"] = n
    rep.extra["programs_run"] = kept
    rep.rule = ("programs enc;dec;dec over the grid (N, radix, k not a multiple of the radix, plaintext precision </=/> ciphertext, plaintext radix, rank, secret distribution, message class, "
                "noise parameters, sk/zero/pk/compressed paths) enumerated by TLC (%d in scope, %d run: seeded subset), each on 4 back-ends x 2 fills; TLC recomputes the phase from the raw limbs "
                "and the clear secret (schoolbook negacyclic products) and checks |phase - message| <= bound (x (1+N+|s|_1) for pk) and the decryption within one unit of the plaintext's last limb; distinct = programs" % (n, kept))
    for e in steps[:: max(1, len(steps) // 3)][:3]:
        rep.sample({k: e[k] for k in ("op", "sz", "koff", "rk", "pb", "ps", "pc")} | {"pt": e["outs"][0]["pt"]})
    log("[C01] %d programs, %d steps, %d rejected (sem)" % (kept, len(steps), nb))
    rep.assumptions += ["secret read through hook H5; phases computed by TLC", "N=8 (16 thorough), radices 2..6: realistic sizes are covered by C10's cross-back-end agreement only",
                        "LWE: N_lwe in {1,5,16} (thorough up to 33), radices 3/5 (2..6); the plaintext decrypted into uses the same or another radix of the set"]
