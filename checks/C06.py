"""C06 — fresh ciphertexts carry the configured randomness: full noise, uniform mask."""
import json
from concurrent.futures import ThreadPoolExecutor
from vlib import common, randpipe
from vlib.common import log, ToolError

LEVEL = "model_checking"


def run(rep, tier):
    wd = common.workdir("C06")
    rows = randpipe.gen(rep, wd, tier, {"dep", "stat"})
    deps = [x for x in rows if x["kind"] == "dep"]
    stats = [x for x in rows if x["kind"] == "stat"]
    # 1. dependency structure: every layout under controlled changes of (plaintext, secret, mask seed, error seed), 4 back-ends
    ep, nev, bad, _ = randpipe.run_group(rep, wd, "dep", deps)
    evs = randpipe.first_events(ep, [k for k, _ in bad])
    for k, kind in bad:
        if kind == "dep":
            e = evs[k]
            key = "dep:%s b=%s size=%s rank=%s" % (e["layout"], e["b"], e["size"], e["rank"])
            rep.violation(key, "dependency structure of %s violated (mask must depend on the mask seed only; body on plaintext, secret, mask seed and error seed; deterministic)" % e["layout"],
                          {"event": e})
    rep.evaluations += nev * 24
    rep.distinct += nev
    # 2. statistics: >= 2^14 error coefficients per layout, computed by TLC from raw limbs and the clear secret
    def one(d):
        label = "stat_%s%s_b%d_r%d_be%d" % (d["layout"], ("_" + d["part"] + str(d["variant"])) if "part" in d else "", d["b"], d["rank"], d.get("be", 9))
        return d, randpipe.run_group(rep, wd, label, [d])
    with ThreadPoolExecutor(max_workers=10) as ex:
        res = list(ex.map(one, stats))
    table = []
    for d, (ep, nev, bad, sums) in res:
        table.append({"layout": d["layout"] + ((":" + d["part"] + "/v" + str(d["variant"])) if "part" in d else ""), "backend": d.get("be"), "b": d["b"], "rank": d["rank"], "objects": nev, "error_coefficients": sums["n"], "sum": sums["s1"], "sum_sq": sums["s2"],
                      "max_abs": sums["mx"], "mask_digits": sums["nm"], "variance_x1000": (sums["s2"] * 1000) // max(1, sums["n"])})
        rep.evaluations += sums["n"]
        rep.distinct += nev
        if sums["n"] < 16384 and not bad:        # (a panic of the code under test is reported below, not a tool error)
            raise ToolError("C06: only %d error coefficients for %s" % (sums["n"], d["layout"]))
        for k, kind in bad:
            key = "stat:%s:%s%s b=%s rank=%s be=%s" % (kind, d["layout"], (":" + d["part"]) if "part" in d else "", d["b"], d["rank"], d.get("be"))
            rep.violation(key, "statistic '%s' of fresh %s encryptions outside its acceptance band: %s" % (kind, d["layout"], json.dumps(table[-1])), {"descriptor": d, "sums": sums})
    rep.extra["statistics"] = table
    rep.extra["dependency_experiments"] = len(deps)
    rep.rule = ("%d dependency experiments (layouts glwe, glwe compressed, lwe, switching / automorphism / tensor / GGLWE-to-GGSW keys, ggsw, ggsw / gglwe compressed, the circuit-bootstrapping key bundle; 6 runs x 4 back-ends each: base, other plaintext, "
                "other secret, other mask seed, other error seed, base again) decided by Rand.tla DepOK on digests of the mask part and the body part; %d statistical experiments of >= 2^14 error "
                "coefficients each (the same layouts, public-key encryption, and the blind-rotation / automorphism / tensor-switching sub-keys of a circuit-bootstrapping key bundle generated with three different precisions): TLC computes every error = phase - expected plaintext from raw limbs and the clear secret and accumulates count / sum / sum of squares / max and the histogram of "
                "all mask digits; acceptance bands (8 standard deviations of the estimator, false alarm < 2^-40) are evaluated by TLC in integer arithmetic; distinct = experiments"
                % (len(deps), len(stats)))
    rep.sample(table[0] if table else {})
    log("[C06] %d dependency experiments, %d statistical experiments" % (len(deps), len(stats)))
    rep.assumptions += ["sigma = 3.2, bound = 6 sigma, noise on the last limb (k a multiple of the radix) for the statistics; other positions through C01's bound",
                        "blind-rotation and circuit-bootstrapping keys: statistics of the three sub-keys of the bundle routine (read back through the public serialisation) and one dependency experiment over all their cells (the LWE secret plays the plaintext); BDD keys not covered (a circuit-bootstrapping key plus switching keys, whose intermediate secret is drawn from the ERROR stream)",
                        "N = 8 (many objects) rather than few large objects; seeds derived deterministically from the experiment index"]
