"""C18 — serialisation round-trips, and rejects damaged input without corruption."""
import json
import os
import random
from vlib import common
from vlib.common import log, ToolError

LEVEL = "model_checking"


def validate(rep, wd, ev_path, label):
    r = common.tlc("Serial/WireTrace", env={"TRACE": ev_path}, workers=1, wd=wd, timeout=1800, xmx="4g")
    common.tlc_must(r, "WireTrace " + label)
    v = r.printed("VERDICT")
    events = common.read_ndjson(ev_path)
    if not r.ok or not v or r.distinct != len(events) + 1:
        raise ToolError("WireTrace did not consume %s:\n%s" % (label, r.out[-2500:]))
    rep.add_tlc(r, "trace:" + label)
    return events, json.loads(json.loads(v[0].split(", ", 1)[1]))


def run(rep, tier):
    wd = common.workdir("C18")
    quick = tier == "quick"
    # 1. the contract is satisfiable (reference reader) and not vacuous (wrapping reader refuted)
    r = common.tlc("Serial/MC_Wire", cfg="Serial/MC_Wire_quick" if quick else "Serial/MC_Wire", workers=8, wd=wd, timeout=3000)
    common.tlc_must(r, "MC_Wire")
    rep.add_tlc(r, "MC_Wire")
    if not r.ok:
        rep.violation("spec:MC_Wire", "reference reader violates the contract in the specification", {"tlc": r.out[-3000:]})
        return
    r2 = common.tlc("Serial/MC_Wire", cfg="Serial/MC_Wire_wrapping", workers=4, wd=wd, timeout=900)
    common.tlc_must(r2, "MC_Wire_wrapping")
    rep.add_tlc(r2, "MC_Wire_wrapping")
    if r2.invariant != "Contract":
        raise ToolError("vacuity check failed: the wrapping reader was not refuted\n" + r2.out[-1500:])
    rep.extra["wrapping_reader_refuted_by_tlc"] = True
    # 2. TLC enumerates streams (grammar-derived field offsets x dictionary x truncation x receivers); real read_from; TLC validates
    descs = os.path.join(wd, "wire.descs.ndjson")
    g = common.tlc("Serial/Gen_Wire", cfg="Serial/Gen_Wire_quick" if quick else "Serial/Gen_Wire_thorough", env={"OUT": descs}, workers=4, wd=wd, timeout=1800)
    common.tlc_must(g, "Gen_Wire")
    if not g.ok:
        raise ToolError("Gen_Wire failed\n" + g.out[-2000:])
    rep.add_tlc(g, "gen:wire")
    n = int(g.printed("GENERATED")[0])
    evp = os.path.join(wd, "wire.events.ndjson")
    p = common.harness(["wire", descs, evp], env={"VERIF_SEED": common.seed()}, timeout=3000)
    if p.returncode != 0:
        raise ToolError("harness wire failed\n" + p.stdout[-2000:])
    events, bad = validate(rep, wd, evp, "wire")
    if len(events) != n:
        raise ToolError("wire: %d events for %d descriptors" % (len(events), n))
    rep.traces += n
    rep.evaluations += n
    rep.distinct += n
    ds = common.read_ndjson(descs)
    seen = set()
    for b in bad:
        e, d = events[b - 1], ds[b - 1]
        muts = ",".join("%d%s" % (m["off"], m["kind"][0]) for m in d["muts"])
        key = "wire:%s outcome=%s %s%s msg=%s" % (e["type"], e["outcome"], "cut " if e["cut"] >= 0 else "", ("mut@" + muts) if muts else "", (e["msg"] or e["post_msg"])[:40])
        if key in seen:
            continue
        seen.add(key)
        rep.violation(key, "read_from violates the Wire.tla contract: " + key, {"descriptor": d, "event": e, "seed": common.seed()})
    by = {}
    for e in events:
        by.setdefault(e["type"], {}).setdefault(e["outcome"], 0)
        by[e["type"]][e["outcome"]] += 1
    rep.extra["types"] = by
    rep.extra["exhaustive"] = not quick
    # 3. binding self-test: corrupt recorded fields, TLC must reject exactly those
    rnd = random.Random(common.seed())
    oks = [e for e in events if e["outcome"] == "ok" and not e["mutated"]][:50]
    errs = [e for e in events if e["outcome"] == "err"][:50]
    st = []
    if oks and errs:
        a = json.loads(json.dumps(rnd.choice(oks))); a["outcome"] = "err"                      # a valid stream reported as rejected
        voks = [e for e in oks if e["type"] == "VecZnx"] or oks
        b = json.loads(json.dumps(rnd.choice(voks))); b["post"][0] = (b["post"][0] + 1) % 256        # receiver reports another n
        c = json.loads(json.dumps(rnd.choice(errs))); c["post"] = [(x + 1) % 256 for x in c["post"]]  # metadata changed on failure
        d = json.loads(json.dumps(rnd.choice(errs))); d["outcome"] = "panic"
        st = [rnd.choice(oks), a, b, c, d]
        stp = os.path.join(wd, "wire.selftest.ndjson")
        common.write_ndjson(stp, st)
        _, sbad = validate(rep, wd, stp, "selftest")
        if sbad != [2, 3, 4, 5]:
            raise ToolError("binding self-test FAILED: corrupted events 2..5, rejected %s" % sbad)
        rep.extra["binding_selftest"] = {"corrupted": 4, "rejected": 4}
    for e in events[:: max(1, len(events) // 3)][:3]:
        rep.sample({k: e[k] for k in ("type", "outcome", "slen", "flen", "cut", "mutated", "cap", "msg")} | {"hdr": e["hdr"][:48]})
    rep.rule = ("for each of the 11 wire types of Wire.tla: every truncation point (quick: every byte of the first 64 then stride 16), every header field x boundary dictionary "
                "(0,1,2^31,2^61,2^64-1,v+-1, +2^61,+2^32 overflow) and the overflowing pairs, receivers equal/larger(different wrapper metadata)/smaller; bytes fed to the real read_from "
                "in a child process (aborts are outcomes); TLC re-parses stream and receiver headers and decides ReadOK; distinct = descriptors")
    rep.assumptions += ["grammar of 11 types (hal: VecZnx ScalarZnx MatZnx; core: LWE GLWE GGLWE GGSW and their compressed forms); nested key types and bin-fhe keys pending",
                        "receiver metadata observed through its own write_to header; buffer capacity taken from the allocation formula"]
    log("[C18] %d streams, %d rejected; outcomes by type: %s" % (n, len(bad), json.dumps(by)))
