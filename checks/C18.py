"""C18 — serialisation round-trips, and rejects damaged input without corruption."""
import json
import os
import random
from vlib import common
from vlib.common import log, ToolError

LEVEL = "model_checking"


def validate(rep, wd, ev_path, label):
    r = common.tlc("Serial/WireTrace", env={"TRACE": ev_path}, workers=1, wd=wd, timeout=1800, xmx="4g")
    common.tlc_must(r, "WireTrace " + label)
    v = r.printed("VERDICT")
    events = common.read_ndjson(ev_path)
    if not r.ok or not v or r.distinct != len(events) + 1:
        raise ToolError("WireTrace did not consume %s:\n%s" % (label, r.out[-2500:]))
    rep.add_tlc(r, "trace:" + label)
    return events, json.loads(json.loads(v[0].split(", ", 1)[1]))


def run(rep, tier):
    wd = common.workdir("C18")
    quick = tier == "quick"
    # 1. the contract is satisfiable (reference reader) and not vacuous (wrapping reader refuted)
    r = common.tlc("Serial/MC_Wire", cfg="Serial/MC_Wire_quick" if quick else "Serial/MC_Wire", workers=8, wd=wd, timeout=3000)
    common.tlc_must(r, "MC_Wire")
    rep.add_tlc(r, "MC_Wire")
    if not r.ok:
        rep.violation("spec:MC_Wire", "reference reader violates the contract in the specification", {"tlc": r.out[-3000:]})
        return
    r2 = common.tlc("Serial/MC_Wire", cfg="Serial/MC_Wire_wrapping", workers=4, wd=wd, timeout=900)
    common.tlc_must(r2, "MC_Wire_wrapping")
    rep.add_tlc(r2, "MC_Wire_wrapping")
    if r2.invariant != "Contract":
        raise ToolError("vacuity check failed: the wrapping reader was not refuted\n" + r2.out[-1500:])
    rep.extra["wrapping_reader_refuted_by_tlc"] = True
    # 2. TLC enumerates streams (grammar-derived field offsets x dictionary x truncation x receivers); real read_from; TLC validates
    descs = os.path.join(wd, "wire.descs.ndjson")
    g = common.tlc("Serial/Gen_Wire", cfg="Serial/Gen_Wire_quick" if quick else "Serial/Gen_Wire_thorough", env={"OUT": descs}, workers=4, wd=wd, timeout=1800)
    common.tlc_must(g, "Gen_Wire")
    if not g.ok:
        raise ToolError("Gen_Wire failed\n" + g.out[-2000:])
    rep.add_tlc(g, "gen:wire")
    n = int(g.printed("GENERATED")[0])
    evp = os.path.join(wd, "wire.events.ndjson")
    p = common.harness(["wire", descs, evp], env={"VERIF_SEED": common.seed()}, timeout=3000)
    if p.returncode != 0:
        raise ToolError("harness wire failed\n" + p.stdout[-2000:])
    events, bad = validate(rep, wd, evp, "wire")
    if len(events) != n:
        raise ToolError("wire: %d events for %d descriptors" % (len(events), n))
    rep.traces += n
    rep.evaluations += n
    rep.distinct += n
    ds = common.read_ndjson(descs)
    seen = set()
    for b in bad:
        e, d = events[b - 1], ds[b - 1]
        muts = ",".join("%d%s" % (m["off"], m["kind"][0]) for m in d["muts"])
        key = "wire:%s outcome=%s %s%s msg=%s" % (e["type"], e["outcome"], "cut " if e["cut"] >= 0 else "", ("mut@" + muts) if muts else "", (e["msg"] or e["post_msg"])[:40])
        if key in seen:
            continue
        seen.add(key)
        rep.violation(key, "read_from violates the Wire.tla contract: " + key, {"descriptor": d, "event": e, "seed": common.seed()})
    by = {}
    for e in events:
        by.setdefault(e["type"], {}).setdefault(e["outcome"], 0)
        by[e["type"]][e["outcome"]] += 1
    rep.extra["types"] = by
    rep.extra["exhaustive"] = not quick
    # 3. binding self-test: corrupt recorded fields, TLC must reject exactly those
    rnd = random.Random(common.seed())
    oks = [e for e in events if e["outcome"] == "ok" and not e["mutated"]][:50]
    errs = [e for e in events if e["outcome"] == "err"][:50]
    st = []
    if oks and errs:
        a = json.loads(json.dumps(rnd.choice(oks))); a["outcome"] = "err"                      # a valid stream reported as rejected
        voks = [e for e in oks if e["type"] == "VecZnx"] or oks
        b = json.loads(json.dumps(rnd.choice(voks))); b["post"][0] = (b["post"][0] + 1) % 256        # receiver reports another n
        c = json.loads(json.dumps(rnd.choice(errs))); c["post"] = [(x + 1) % 256 for x in c["post"]]  # metadata changed on failure
        d = json.loads(json.dumps(rnd.choice(errs))); d["outcome"] = "panic"
        st = [rnd.choice(oks), a, b, c, d]
        stp = os.path.join(wd, "wire.selftest.ndjson")
        common.write_ndjson(stp, st)
        _, sbad = validate(rep, wd, stp, "selftest")
        if sbad != [2, 3, 4, 5]:
            raise ToolError("binding self-test FAILED: corrupted events 2..5, rejected %s" % sbad)
        rep.extra["binding_selftest"] = {"corrupted": 4, "rejected": 4}
    # 4. wrapper and composite keys (19 further serialisable types, incl. the bin-fhe key bundles): grammar-free consequences
    #    of the contract (Wire.CompOK); the harness sweeps EVERY truncation point and the header dictionary per case
    from concurrent.futures import ThreadPoolExecutor
    gc = common.tlc("Serial/Gen_Comp", cfg="Serial/Gen_Comp_quick" if quick else "Serial/Gen_Comp_thorough", workers=2, wd=wd, timeout=900)
    common.tlc_must(gc, "Gen_Comp")
    cdesc = [json.loads(json.loads(x)) for x in gc.printed("DESC")]
    if not gc.ok or len(cdesc) != gc.distinct - 1 or not cdesc:
        raise ToolError("Gen_Comp did not complete:\n" + gc.out[-1500:])
    rep.add_tlc(gc, "gen:comp")
    cdesc.sort(key=lambda x: json.dumps(x, sort_keys=True))
    for i, x in enumerate(cdesc):
        x["id"] = i + 1
    nsh = 12
    def shard(k):
        dp, ep = os.path.join(wd, "comp.%d.descs.ndjson" % k), os.path.join(wd, "comp.%d.events.ndjson" % k)
        common.write_ndjson(dp, cdesc[k::nsh])
        pp = common.harness(["wire", dp, ep], env={"VERIF_SEED": common.seed()}, timeout=7200)
        if pp.returncode != 0:
            raise ToolError("harness wire (composite) failed\n" + pp.stdout[-2000:])
        return common.read_ndjson(ep)
    with ThreadPoolExecutor(max_workers=nsh) as ex:
        parts = list(ex.map(shard, range(nsh)))
    cev = [e for part in parts for e in part]
    if len(cev) != len(cdesc):
        raise ToolError("composite wire: %d events for %d descriptors" % (len(cev), len(cdesc)))
    cep = os.path.join(wd, "comp.events.ndjson")
    common.write_ndjson(cep, cev)
    cev, cbad = validate(rep, wd, cep, "comp")
    rep.traces += len(cev)
    rep.distinct += len(cev)
    rep.evaluations += sum(1 + e["cuts"]["total"] + e["muts"]["total"] for e in cev)
    for b in cbad:
        e = cev[b - 1]
        why = "clean=%s roundtrip=%s cuts=%d/%d muts=%d+%d/%d" % (e["clean"]["outcome"], e["clean"]["roundtrip"], e["cuts"]["err"], e["cuts"]["total"], e["muts"]["ok"], e["muts"]["err"], e["muts"]["total"])
        key = "comp:%s rel=%s %s" % (e["type"], e["rel"], "clean" if (e["clean"]["outcome"] not in ("ok", "err") or not e["clean"]["post_ok"] or (e["clean"]["outcome"] == "ok" and not e["clean"]["roundtrip"]) or (e["rel"] == "same" and e["clean"]["outcome"] != "ok")) else ("cut" if e["cuts"]["err"] != e["cuts"]["total"] else "mut"))
        if key in seen:
            continue
        seen.add(key)
        rep.violation(key, "serialisation of %s violates Wire.CompOK: %s" % (e["type"], why), {"event": e, "seed": common.seed()})
    cby = {}
    for e in cev:
        cby.setdefault(e["type"], {"cases": 0, "truncations": 0, "mutations": 0})
        cby[e["type"]]["cases"] += 1
        cby[e["type"]]["truncations"] += e["cuts"]["total"]
        cby[e["type"]]["mutations"] += e["muts"]["total"]
    rep.extra["composite_types"] = cby
    # binding self-test for the composite predicate: a longer re-serialisation / an accepted truncation must be rejected
    okc = [e for k, e in enumerate(cev) if e["clean"]["outcome"] == "ok" and (k + 1) not in set(cbad)]
    if okc:
        a = json.loads(json.dumps(okc[0])); a["clean"]["roundtrip"] = False
        b2 = json.loads(json.dumps(okc[-1])); b2["cuts"]["err"] -= 1
        stp = os.path.join(wd, "comp.selftest.ndjson")
        common.write_ndjson(stp, [okc[0], a, b2])
        _, sbad = validate(rep, wd, stp, "comp-selftest")
        if sbad != [2, 3]:
            raise ToolError("composite binding self-test FAILED: corrupted events 2..3, rejected %s" % sbad)
    log("[C18] %d composite cases (%d truncations, %d header mutations), %d rejected" % (len(cev), sum(v["truncations"] for v in cby.values()), sum(v["mutations"] for v in cby.values()), len(cbad)))
    for e in events[:: max(1, len(events) // 3)][:3]:
        rep.sample({k: e[k] for k in ("type", "outcome", "slen", "flen", "cut", "mutated", "cap", "msg")} | {"hdr": e["hdr"][:48]})
    rep.rule = ("for each of the 11 wire types of Wire.tla: every truncation point (quick: every byte of the first 64 then stride 16), every header field x boundary dictionary "
                "(0,1,2^31,2^61,2^64-1,v+-1, +2^61,+2^32 overflow) and the overflowing pairs, receivers equal/larger(different wrapper metadata)/smaller; bytes fed to the real read_from "
                "in a child process (aborts are outcomes); TLC re-parses stream and receiver headers and decides ReadOK; for the 19 wrapper / composite types (switching, automorphism, tensor, "
                "GGLWE-to-GGSW and LWE-related keys, their compressed forms, public key, blind-rotation keys, circuit-bootstrapping and BDD key bundles) the grammar-free consequences "
                "CompOK: clean stream accepted by a same-shape receiver, accepted => re-serialises to the identical bytes (receivers with one more / fewer limb or row), EVERY truncation "
                "point an error, every 8-byte word of the first 512 bytes x dictionary never a panic; distinct = descriptors")
    rep.assumptions += ["grammar of 11 types (hal: VecZnx ScalarZnx MatZnx; core: LWE GLWE GGLWE GGSW and their compressed forms); the 19 nested / bundle types have no grammar in the specification (consequences of the contract only: a header field that is accepted with a wrong meaning is not seen there)",
                        "receiver metadata observed through its own write_to header; buffer capacity taken from the allocation formula"]
    log("[C18] %d streams, %d rejected; outcomes by type: %s" % (n, len(bad), json.dumps(by)))
