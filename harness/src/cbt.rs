//! Circuit bootstrapping cell by cell (C15): an LWE encryption of `data` is bootstrapped into a GGSW, to the
//! constant term or to the exponent (X^(data * 2^log_gap_out)); for every cell (row, column) the library's own
//! noise helper measures the largest coefficient of  phase(cell) - message * G_row * (1 | s_col)  and the harness
//! logs its base-2 logarithm -- against the message the specification expects AND against the other candidates.
use crate::util::guarded;
use poulpy_bin_fhe::blind_rotation::{BlindRotationKeyLayout, CGGI};
use poulpy_bin_fhe::circuit_bootstrapping::*;
use poulpy_core::EncryptionLayout;
use poulpy_core::api::*;
use poulpy_core::layouts::prepared::*;
use poulpy_core::layouts::*;
use poulpy_cpu_avx::FFT64Avx;
use poulpy_cpu_ref::FFT64Ref;
use poulpy_hal::api::*;
use poulpy_hal::layouts::*;
use poulpy_hal::source::Source;
use serde_json::{Value, json};

fn gu(c: &Value, k: &str, d: u64) -> u64 {
    c.get(k).and_then(|v| v.as_u64()).unwrap_or(d)
}
const N_GLWE: usize = 256;
const N_LWE: usize = 77;
const RES_B: usize = 15;

macro_rules! cbt_backend {
    ($ctx:ident, $fname:ident, $BE:ty) => {
        pub struct $ctx {
            module: Module<$BE>,
            sk_lwe: LWESecret<Vec<u8>>,
            skp: GLWESecretPrepared<DeviceBuf<$BE>, $BE>,
            key: CircuitBootstrappingKeyPrepared<DeviceBuf<$BE>, CGGI, $BE>,
        }
        impl $ctx {
            pub fn new() -> Self {
                type BE = $BE;
                let module: Module<BE> = Module::<BE>::new(N_GLWE as u64);
                let k_res = 4 * RES_B;
                let cbt_infos = CircuitBootstrappingKeyLayout {
                    brk_layout: BlindRotationKeyLayout { n_glwe: (N_GLWE as u32).into(), n_lwe: (N_LWE as u32).into(), base2k: 13u32.into(), k: ((k_res + 13) as u32).into(), dnum: 4u32.into(), rank: 1u32.into() },
                    atk_layout: GLWEAutomorphismKeyLayout { n: (N_GLWE as u32).into(), base2k: 11u32.into(), k: ((k_res + 12) as u32).into(), dnum: 4u32.into(), rank: 1u32.into(), dsize: Dsize(1) },
                    tsk_layout: GGLWEToGGSWKeyLayout { n: (N_GLWE as u32).into(), base2k: 12u32.into(), k: ((k_res + 11) as u32).into(), dnum: 4u32.into(), dsize: Dsize(1), rank: 1u32.into() },
                };
                let mut scratch: ScratchOwned<BE> = ScratchOwned::alloc(1 << 24);
                let mut xs = Source::new([1u8; 32]);
                let mut xa = Source::new([2u8; 32]);
                let mut xe = Source::new([3u8; 32]);
                let mut sk_lwe = LWESecret::alloc((N_LWE as u32).into());
                sk_lwe.fill_binary_block(7, &mut xs);
                let mut sk_glwe = GLWESecret::alloc((N_GLWE as u32).into(), 1u32.into());
                sk_glwe.fill_ternary_prob(0.5, &mut xs);
                let mut skp: GLWESecretPrepared<DeviceBuf<BE>, BE> = module.glwe_secret_prepared_alloc(1u32.into());
                module.glwe_secret_prepare(&mut skp, &sk_glwe);
                let mut key: CircuitBootstrappingKey<Vec<u8>, CGGI> = CircuitBootstrappingKey::alloc_from_infos(&cbt_infos);
                let enc = CircuitBootstrappingEncryptionInfos::from_default_sigma(&cbt_infos).unwrap();
                module.circuit_bootstrapping_key_encrypt_sk(&mut key, &sk_lwe, &sk_glwe, &enc, &mut xe, &mut xa, scratch.borrow());
                let mut keyp: CircuitBootstrappingKeyPrepared<DeviceBuf<BE>, CGGI, BE> = CircuitBootstrappingKeyPrepared::alloc_from_infos(&module, &cbt_infos);
                keyp.prepare(&module, &key, scratch.borrow());
                $ctx { module, sk_lwe, skp, key: keyp }
            }
        }
        pub fn $fname(ctx: &$ctx, c: &Value) -> Value {
            type BE = $BE;
            let module = &ctx.module;
            let id = gu(c, "id", 1);
            let mode = c["mode"].as_str().unwrap();
            let (data, kpt, gap, ext) = (gu(c, "data", 0) as i64, gu(c, "kpt", 1) as usize, gu(c, "gap", 0) as usize, gu(c, "ext", 1) as usize);
            let (klwe, dnum) = (gu(c, "klwe", 22) as u32, gu(c, "rows", 3) as u32);
            let r = guarded(|| {
                let mut scratch: ScratchOwned<BE> = ScratchOwned::alloc(1 << 24);
                let lwe_infos = LWELayout { n: (N_LWE as u32).into(), k: klwe.into(), base2k: 14u32.into() };
                let mut pt = LWEPlaintext::alloc(14u32.into(), (kpt as u32).into());
                pt.encode_i64(data, ((kpt + 1) as u32).into());
                let enc = EncryptionLayout::new_from_default_sigma(lwe_infos).unwrap();
                let mut ct = LWE::alloc_from_infos(&lwe_infos);
                let mut seed = [0u8; 32];
                crate::util::Rng::new(id).fill(&mut seed);
                let mut seed2 = [0u8; 32];
                crate::util::Rng::new(id ^ 0x77).fill(&mut seed2);
                module.lwe_encrypt_sk(&mut ct, &pt, &ctx.sk_lwe, &enc, &mut Source::new(seed), &mut Source::new(seed2), scratch.borrow());
                let ggsw_infos = GGSWLayout { n: (N_GLWE as u32).into(), base2k: (RES_B as u32).into(), k: ((4 * RES_B) as u32).into(), dnum: dnum.into(), dsize: Dsize(1), rank: 1u32.into() };
                let mut res: GGSW<Vec<u8>> = GGSW::alloc_from_infos(&ggsw_infos);
                if mode == "constant" {
                    ctx.key.execute_to_constant(module, &mut res, &ct, kpt, ext, scratch.borrow());
                } else {
                    ctx.key.execute_to_exponent(module, gap, &mut res, &ct, kpt, ext, scratch.borrow());
                }
                if std::env::var("CBT_DEBUG").is_ok() {
                    for row in 0..dnum as usize {
                        let cell = res.at(row, 0);
                        let mut ptd = GLWEPlaintext::alloc((N_GLWE as u32).into(), (RES_B as u32).into(), ((4 * RES_B) as u32).into());
                        module.glwe_decrypt(&cell, &mut ptd, &ctx.skp, scratch.borrow());
                        for j in 0..ptd.data.size() {
                            let nz: Vec<(usize, i64)> = ptd.data.at(0, j).iter().enumerate().filter(|(_, v)| **v != 0).map(|(i, v)| (i, *v)).collect();
                            eprintln!("row {row} limb {j}: {:?}", &nz[..nz.len().min(12)]);
                        }
                    }
                }
                // noise of every cell against every candidate message of the domain
                let cands: Vec<i64> = (0..(1i64 << kpt)).collect();
                let mut table: Vec<Value> = vec![];
                for &cand in cands.iter() {
                    let mut want: ScalarZnx<Vec<u8>> = ScalarZnx::alloc(N_GLWE, 1);
                    if mode == "constant" {
                        want.at_mut(0, 0)[0] = cand;
                    } else {
                        want.at_mut(0, 0)[0] = 1;
                        module.vec_znx_rotate_assign(cand * (1 << gap), &mut want.as_vec_znx_mut(), 0, scratch.borrow());
                    }
                    let mut cells: Vec<Vec<i64>> = vec![];
                    for row in 0..dnum as usize {
                        let mut rowv = vec![];
                        for col in 0..2usize {
                            let mx = res.noise(module, row, col, &want, &ctx.skp, scratch.borrow()).max();
                            rowv.push(if mx <= 0.0 { -200 } else { mx.log2().ceil() as i64 });
                        }
                        cells.push(rowv);
                    }
                    table.push(json!({"cand": cand, "cells": cells}));
                }
                table
            });
            let mut e = c.clone();
            e["ev"] = json!("cbt");
            e["resb"] = json!(RES_B);
            match r {
                Ok(t) => { e["noise"] = json!(t); e["panic"] = json!(""); }
                Err(p) => { e["noise"] = json!([]); e["panic"] = json!(p); }
            }
            e
        }
    };
}
cbt_backend!(CbtRef, cbt_ref, FFT64Ref);
cbt_backend!(CbtAvx, cbt_avx, FFT64Avx);

pub struct CMods {
    a: Option<CbtRef>,
    b: Option<CbtAvx>,
}
impl CMods {
    pub fn new() -> Self {
        CMods { a: None, b: None }
    }
}
pub fn run_cbt(mods: &mut CMods, c: &Value) -> Value {
    if gu(c, "be", 0) == 0 {
        if mods.a.is_none() {
            mods.a = Some(CbtRef::new());
        }
        cbt_ref(mods.a.as_ref().unwrap(), c)
    } else {
        if mods.b.is_none() {
            mods.b = Some(CbtAvx::new());
        }
        cbt_avx(mods.b.as_ref().unwrap(), c)
    }
}
