//! DFT-domain HAL operations (C07): forward/inverse transform, limb selection, DFT-domain
//! add/sub/copy, scalar-vector, vector-matrix and bivariate convolution products.
//! Inputs are coefficient-domain integers; prepared operands are produced by the library's own
//! prepare calls; results are projected back through the public inverse path (idft -> big).
use crate::hal::{BACKENDS, Col, Opd};
use crate::util::{ABuf, Rng, guarded, scr_call};
use poulpy_cpu_avx::{FFT64Avx, NTT120Avx};
use poulpy_cpu_ref::{FFT64Ref, NTT120Ref};
use poulpy_hal::api::*;
use poulpy_hal::layouts::*;
use serde_json::{Value, json};
use std::collections::HashMap;
use std::marker::PhantomData;

pub struct DPlan {
    pub op: String,
    pub n: usize,
    pub rs: usize,
    pub asz: usize,
    pub bsz: usize,
    pub rcols: usize,
    pub rcol: usize,
    pub acols: usize,
    pub acol: usize,
    pub bcols: usize,
    pub bcol: usize,
    pub rextra: usize,
    pub step: usize,
    pub off: usize, // offset / limb_offset / cnv_offset
    pub scale: i64,
    pub rows: usize,
    pub cin: usize,
    pub cout: usize,
    pub ms: usize,
    pub ci: usize,
    pub cj: usize,
    pub maskt: u32, // mask = -(1 << maskt)
    pub pa: usize,  // limbs of the prepared left operand (may differ from the source: truncation / zero extension)
    pub pb: usize,
    pub am: Vec<Col>,
    pub bm: Vec<Col>,
    pub ds: Vec<i64>,
    pub dm: Vec<Vec<Vec<Col>>>, // [row][ci][co] -> Col (limbs)
    pub dr: Col,
    pub cst: Vec<i64>,
    pub uses_r: bool,
    pub exact: bool,
}

fn gu(c: &Value, k: &str, d: u64) -> u64 {
    c.get(k).and_then(|v| v.as_u64()).unwrap_or(d)
}
fn gi(c: &Value, k: &str, d: i64) -> i64 {
    c.get(k).and_then(|v| v.as_i64()).unwrap_or(d)
}

/// value classes: 0 random in [-vmax,vmax]; 1 all +vmax; 2 alternating +-vmax; 3 sparse; 4 zero; 5 all -vmax-ish extreme
fn class_col(rng: &mut Rng, size: usize, n: usize, vmax: i64, class: u64) -> Col {
    (0..size)
        .map(|_| {
            (0..n)
                .map(|i| match class {
                    1 => vmax,
                    2 => {
                        if i % 2 == 0 {
                            vmax
                        } else {
                            -vmax
                        }
                    }
                    3 => {
                        if rng.below(8) == 0 {
                            rng.sym(vmax)
                        } else {
                            0
                        }
                    }
                    4 => 0,
                    5 => -vmax,
                    _ => rng.sym(vmax),
                })
                .collect()
        })
        .collect()
}

pub fn make_dplan(c: &Value, seed: u64) -> DPlan {
    let op = c["op"].as_str().unwrap().to_string();
    let id = gu(c, "id", 0);
    let mut rng = Rng::new(seed ^ id.wrapping_mul(0x7654321) ^ 0xD0F7);
    let n = gu(c, "n", 8) as usize;
    let rs = gu(c, "rs", 1) as usize;
    let asz = gu(c, "as", 1) as usize;
    let bsz = gu(c, "bs", 1) as usize;
    let vmax = gi(c, "vmax", 3);
    let class = gu(c, "vclass", 0);
    let is_vmp = op.starts_with("vmp_");
    let is_pair = op == "cnv_pairwise_apply_dft";
    let rows = gu(c, "rows", 1) as usize;
    let cin = gu(c, "cin", 1) as usize;
    let cout = gu(c, "cout", 1) as usize;
    let ms = gu(c, "ms", 1) as usize;
    let pick = |rng: &mut Rng, key: &str, hi: u64| -> usize { c.get(key).and_then(|v| v.as_u64()).unwrap_or_else(|| 1 + rng.below(hi)) as usize };
    let mut rcols = pick(&mut rng, "rcols", 3);
    let mut acols = pick(&mut rng, "acols", 3);
    let mut bcols = pick(&mut rng, "bcols", 3);
    if is_vmp {
        rcols = cout;
        acols = cin;
    }
    if is_pair {
        acols = acols.max(2);
        bcols = acols;
    }
    let rcol = c.get("rcol").and_then(|v| v.as_u64()).unwrap_or_else(|| rng.below(rcols as u64)) as usize;
    let acol = c.get("acol").and_then(|v| v.as_u64()).unwrap_or_else(|| rng.below(acols as u64)) as usize;
    let bcol = c.get("bcol").and_then(|v| v.as_u64()).unwrap_or_else(|| rng.below(bcols as u64)) as usize;
    let rextra = c.get("rextra").and_then(|v| v.as_u64()).unwrap_or_else(|| rng.below(2)) as usize;
    let (ci, cj) = if is_pair {
        let ci = c.get("ci").and_then(|v| v.as_u64()).unwrap_or_else(|| rng.below(acols as u64)) as usize;
        let same = gu(c, "same", 0) == 1;
        let cj = if same { ci } else { (ci + 1 + rng.below(acols as u64 - 1) as usize) % acols };
        (ci, cj)
    } else {
        (0, 0)
    };
    let am: Vec<Col> = (0..acols).map(|_| class_col(&mut rng, asz, n, vmax, class)).collect();
    let bm: Vec<Col> = (0..bcols).map(|_| class_col(&mut rng, bsz, n, vmax, class)).collect();
    let ds: Vec<i64> = class_col(&mut rng, 1, n, vmax, class)[0].clone();
    let dm: Vec<Vec<Vec<Col>>> = if is_vmp {
        (0..rows).map(|_| (0..cin).map(|_| (0..cout).map(|_| class_col(&mut rng, ms, n, vmax, class)).collect()).collect()).collect()
    } else {
        vec![]
    };
    let dr = class_col(&mut rng, rs, n, vmax, 0);
    let cst: Vec<i64> = (0..bsz).map(|_| rng.sym(vmax)).collect();
    let uses_r = matches!(
        op.as_str(),
        "dft_add_assign" | "dft_sub_assign" | "dft_sub_negate_assign" | "dft_add_scaled_assign" | "svp_apply_dft_to_dft_assign"
    );
    DPlan {
        op,
        n,
        rs,
        asz,
        bsz,
        rcols,
        rcol,
        acols,
        acol,
        bcols,
        bcol,
        rextra,
        step: gu(c, "step", 1) as usize,
        off: gu(c, "off", 0) as usize,
        scale: gi(c, "scale", 0),
        rows,
        cin,
        cout,
        ms,
        ci,
        cj,
        maskt: gu(c, "maskt", 0) as u32,
        pa: gu(c, "pa", asz as u64) as usize,
        pb: gu(c, "pb", bsz as u64) as usize,
        am,
        bm,
        ds,
        dm,
        dr,
        cst,
        uses_r,
        exact: c.get("scr").and_then(|v| v.as_str()) == Some("exact"),
    }
}

pub struct DOutcome {
    pub scr: Vec<Value>,
    pub d: Vec<Vec<i128>>,
    pub frame_ok: bool,
    pub panic: String,
}

fn dft_mut<'a, B: Backend>(o: &'a mut Opd) -> VecZnxDft<&'a mut [u8], B> {
    let (n, cols, size, max_size) = (o.n, o.cols, o.size, o.max_size);
    VecZnxDft { data: o.buf.win_mut(), n, cols, size, max_size, _phantom: PhantomData }
}
fn dft_ref<'a, B: Backend>(o: &'a Opd) -> VecZnxDft<&'a [u8], B> {
    VecZnxDft { data: o.buf.win(), n: o.n, cols: o.cols, size: o.size, max_size: o.max_size, _phantom: PhantomData }
}

macro_rules! dft_backend {
    ($fname:ident, $BE:ty) => {
        pub fn $fname(mods: &mut HashMap<usize, Module<$BE>>, p: &DPlan, fill: u64) -> DOutcome {
            type BE = $BE;
            let sprep = std::mem::size_of::<<BE as Backend>::ScalarPrep>();
            let sbig = std::mem::size_of::<<BE as Backend>::ScalarBig>();
            if !mods.contains_key(&p.n) {
                match guarded(|| Module::<BE>::new(p.n as u64)) {
                    Ok(m) => {
                        mods.insert(p.n, m);
                    }
                    Err(e) => return DOutcome { scr: vec![], d: vec![], frame_ok: true, panic: format!("Module::new({}): {e}", p.n) },
                }
            }
            let m: &Module<BE> = &mods[&p.n];
            let f = fill.wrapping_mul(0x51ED27).wrapping_add(29);
            let n = p.n;
            let op = p.op.as_str();
            let res_is_big = op == "cnv_by_const_apply";
            // result buffer: DFT domain (or big for by_const), canary-guarded, garbage pre-filled
            let mut res = Opd::new(n, p.rcols, p.rs, p.rextra, p.rcol, if res_is_big { sbig } else { sprep }, f ^ 1);
            // coefficient-domain inputs
            let mut a = Opd::new(n, p.acols, p.asz, 0, p.acol, 8, f ^ 2);
            for (cix, col) in p.am.iter().enumerate() {
                a.write_at(cix, col);
            }
            let mut b = Opd::new(n, p.bcols, p.bsz, 0, p.bcol, 8, f ^ 3);
            for (cix, col) in p.bm.iter().enumerate() {
                b.write_at(cix, col);
            }
            let mut s = Opd::new(n, p.acols, 1, 0, p.acol, 8, f ^ 4);
            s.write_at(p.acol, &vec![p.ds.clone()]);
            let mut sbuf = ABuf::new((1usize << 20).max(n * 256), f ^ 5); // the harness-side scratch grows with the ring (NTT120 inverse transforms at N = 2^16 take 2 MiB)
            let (rc, ac, bc) = (p.rcol, p.acol, p.bcol);
            let mask: i64 = -(1i64 << p.maskt);
            let mut snap_res: Vec<u8> = vec![];
            let mut out: Vec<Vec<i128>> = vec![];
            let mut frame_ok = true;
            let mut scr_log: Vec<Value> = Vec::new();
            let ex = p.exact;
            let r = guarded(|| {
                let scratch: &mut Scratch<BE> = <Scratch<BE> as ScratchFromBytes<BE>>::from_bytes(sbuf.win_mut());
                // prepared inputs through the library's own forward path
                let mut a_dft = m.vec_znx_dft_alloc(p.acols, p.asz);
                let mut b_dft = m.vec_znx_dft_alloc(p.bcols, p.bsz);
                let needs_adft = matches!(
                    op,
                    "idft_apply" | "idft_apply_tmpa" | "idft_apply_consume" | "dft_add_into" | "dft_add_assign" | "dft_add_scaled_assign"
                        | "dft_sub" | "dft_sub_assign" | "dft_sub_negate_assign" | "dft_copy" | "vmp_apply_dft_to_dft"
                );
                if needs_adft {
                    for cix in 0..p.acols {
                        m.vec_znx_dft_apply(1, 0, &mut a_dft, cix, &a.vz(), cix);
                    }
                }
                if matches!(op, "dft_add_into" | "dft_sub" | "svp_apply_dft_to_dft") {
                    for cix in 0..p.bcols {
                        m.vec_znx_dft_apply(1, 0, &mut b_dft, cix, &b.vz(), cix);
                    }
                }
                if p.uses_r {
                    // pre-state of the result column = DFT of p.dr
                    let mut tmp = Opd::new(n, 1, p.rs, 0, 0, 8, f ^ 6);
                    tmp.write(&p.dr);
                    m.vec_znx_dft_apply(1, 0, &mut dft_mut::<BE>(&mut res), rc, &tmp.vz(), 0);
                }
                let mut ppol = m.svp_ppol_alloc(p.acols);
                if op.starts_with("svp_") {
                    m.svp_prepare(&mut ppol, ac, &s.sz(), ac);
                }
                snap_res = res.buf.snapshot();
                let mut res_ranges = res.col_ranges();
                let mut consumed_big: Option<Vec<Vec<i128>>> = None;
                match op {
                    "dft_apply" => m.vec_znx_dft_apply(p.step, p.off, &mut dft_mut::<BE>(&mut res), rc, &a.vz(), ac),
                    "dft_copy" => m.vec_znx_dft_copy(p.step, p.off, &mut dft_mut::<BE>(&mut res), rc, &a_dft, ac),
                    "dft_zero" => m.vec_znx_dft_zero(&mut dft_mut::<BE>(&mut res), rc),
                    "dft_add_into" => m.vec_znx_dft_add_into(&mut dft_mut::<BE>(&mut res), rc, &a_dft, ac, &b_dft, bc),
                    "dft_sub" => m.vec_znx_dft_sub(&mut dft_mut::<BE>(&mut res), rc, &a_dft, ac, &b_dft, bc),
                    "dft_add_assign" => m.vec_znx_dft_add_assign(&mut dft_mut::<BE>(&mut res), rc, &a_dft, ac),
                    "dft_sub_assign" => m.vec_znx_dft_sub_assign(&mut dft_mut::<BE>(&mut res), rc, &a_dft, ac),
                    "dft_sub_negate_assign" => m.vec_znx_dft_sub_negate_assign(&mut dft_mut::<BE>(&mut res), rc, &a_dft, ac),
                    "dft_add_scaled_assign" => m.vec_znx_dft_add_scaled_assign(&mut dft_mut::<BE>(&mut res), rc, &a_dft, ac, p.scale),
                    // the three inverse paths: res is a *big* here; handled below (projection = the op itself)
                    "idft_apply" | "idft_apply_tmpa" | "idft_apply_consume" => {}
                    "svp_apply_dft" => m.svp_apply_dft(&mut dft_mut::<BE>(&mut res), rc, &ppol, ac, &b.vz(), bc),
                    "svp_apply_dft_to_dft" => m.svp_apply_dft_to_dft(&mut dft_mut::<BE>(&mut res), rc, &ppol, ac, &b_dft, bc),
                    "svp_apply_dft_to_dft_assign" => m.svp_apply_dft_to_dft_assign(&mut dft_mut::<BE>(&mut res), rc, &ppol, ac),
                    "vmp_apply_dft" | "vmp_apply_dft_to_dft" => {
                        let mut mat = MatZnx::alloc(n, p.rows, p.cin, p.cout, p.ms);
                        for r_ in 0..p.rows {
                            for ci in 0..p.cin {
                                let mut v = mat.at_mut(r_, ci);
                                for co in 0..p.cout {
                                    for l in 0..p.ms {
                                        v.at_mut(co, l).copy_from_slice(&p.dm[r_][ci][co][l]);
                                    }
                                }
                            }
                        }
                        let mut pmat = m.vmp_pmat_alloc(p.rows, p.cin, p.cout, p.ms);
                        scr_call::<BE, _>(ex, m.vmp_prepare_tmp_bytes(p.rows, p.cin, p.cout, p.ms), f ^ 11, "vmp_prepare", &mut scr_log, |sc| m.vmp_prepare(&mut pmat, &mat, sc));
                        // every column of res is an output of the product
                        res_ranges = (0..p.rs).flat_map(|j| (0..p.rcols).map(move |cc| (j, cc))).map(|(j, cc)| {
                            let o = n * (j * p.rcols + cc) * sprep;
                            (o, o + n * sprep)
                        }).collect();
                        if op == "vmp_apply_dft" {
                            let decl = m.vmp_apply_dft_tmp_bytes(p.rs, p.asz, p.rows, p.cin, p.cout, p.ms);
                            scr_call::<BE, _>(ex, decl, f ^ 12, op, &mut scr_log, |sc| m.vmp_apply_dft(&mut dft_mut::<BE>(&mut res), &a.vz(), &pmat, sc))
                        } else {
                            let decl = m.vmp_apply_dft_to_dft_tmp_bytes(p.rs, p.asz, p.rows, p.cin, p.cout, p.ms);
                            scr_call::<BE, _>(ex, decl, f ^ 12, op, &mut scr_log, |sc| m.vmp_apply_dft_to_dft(&mut dft_mut::<BE>(&mut res), &a_dft, &pmat, p.off, sc))
                        }
                    }
                    "cnv_apply_dft" | "cnv_pairwise_apply_dft" | "cnv_apply_dft_self" => {
                        let mut left = m.cnv_pvec_left_alloc(p.acols, p.pa);
                        let mut right = if op == "cnv_apply_dft_self" { m.cnv_pvec_right_alloc(p.acols, p.pa) } else { m.cnv_pvec_right_alloc(p.bcols, p.pb) };
                        if op == "cnv_apply_dft_self" {
                            scr_call::<BE, _>(ex, m.cnv_prepare_self_tmp_bytes(p.pa, p.asz), f ^ 13, "cnv_prepare_self", &mut scr_log, |sc| {
                                m.cnv_prepare_self(&mut left, &mut right, &a.vz(), mask, sc)
                            });
                        } else {
                            scr_call::<BE, _>(ex, m.cnv_prepare_left_tmp_bytes(p.pa, p.asz), f ^ 13, "cnv_prepare_left", &mut scr_log, |sc| {
                                m.cnv_prepare_left(&mut left, &a.vz(), mask, sc)
                            });
                            scr_call::<BE, _>(ex, m.cnv_prepare_right_tmp_bytes(p.pb, p.bsz), f ^ 14, "cnv_prepare_right", &mut scr_log, |sc| {
                                m.cnv_prepare_right(&mut right, &b.vz(), mask, sc)
                            });
                        }
                        if op == "cnv_pairwise_apply_dft" {
                            let decl = m.cnv_pairwise_apply_dft_tmp_bytes(p.off, p.rs, p.pa, p.pb);
                            scr_call::<BE, _>(ex, decl, f ^ 15, op, &mut scr_log, |sc| {
                                m.cnv_pairwise_apply_dft(p.off, &mut dft_mut::<BE>(&mut res), rc, &left, &right, p.ci, p.cj, sc)
                            })
                        } else {
                            let bsz = if op == "cnv_apply_dft_self" { p.pa } else { p.pb };
                            let decl = m.cnv_apply_dft_tmp_bytes(p.off, p.rs, p.pa, bsz);
                            scr_call::<BE, _>(ex, decl, f ^ 15, op, &mut scr_log, |sc| {
                                m.cnv_apply_dft(p.off, &mut dft_mut::<BE>(&mut res), rc, &left, ac, &right, if op == "cnv_apply_dft_self" { ac } else { bc }, sc)
                            })
                        }
                    }
                    "cnv_by_const_apply" => {
                        let decl = m.cnv_by_const_apply_tmp_bytes(p.off, p.rs, p.asz, p.cst.len());
                        scr_call::<BE, _>(ex, decl, f ^ 15, op, &mut scr_log, |sc| m.cnv_by_const_apply(p.off, &mut res.big_mut::<BE>(), rc, &a.vz(), ac, &p.cst, sc))
                    }
                    other => panic!("harness: unknown dft op {other}"),
                }
                // ---- projection of the result
                match op {
                    "idft_apply" => {
                        // res plays the role of the big result: reinterpret a fresh guarded big buffer
                        let mut rb = Opd::new(n, p.rcols, p.rs, p.rextra, p.rcol, sbig, f ^ 7);
                        let snap = rb.buf.snapshot();
                        scr_call::<BE, _>(ex, m.vec_znx_idft_apply_tmp_bytes(), f ^ 16, op, &mut scr_log, |sc| {
                            m.vec_znx_idft_apply(&mut rb.big_mut::<BE>(), rc, &a_dft, ac, sc)
                        });
                        frame_ok &= rb.buf.unchanged_except(&snap, &rb.col_ranges());
                        consumed_big = Some(rb.read());
                    }
                    "idft_apply_tmpa" => {
                        let mut rb = Opd::new(n, p.rcols, p.rs, p.rextra, p.rcol, sbig, f ^ 7);
                        let snap = rb.buf.snapshot();
                        m.vec_znx_idft_apply_tmpa(&mut rb.big_mut::<BE>(), rc, &mut a_dft, ac);
                        frame_ok &= rb.buf.unchanged_except(&snap, &rb.col_ranges());
                        consumed_big = Some(rb.read());
                    }
                    "idft_apply_consume" => {
                        // consumes a whole VecZnxDft (all columns) and returns it as a big
                        let big = m.vec_znx_idft_apply_consume(a_dft);
                        let v: Vec<Vec<i128>> = (0..p.asz.min(big.size())).map(|j| big.at(ac, j).iter().map(|&x| x as i128).collect()).collect();
                        consumed_big = Some(v);
                        a_dft = m.vec_znx_dft_alloc(1, 1);
                    }
                    _ => {}
                }
                let _ = &a_dft;
                if let Some(v) = consumed_big {
                    out = v;
                } else if res_is_big {
                    frame_ok &= res.buf.unchanged_except(&snap_res, &res_ranges);
                    out = res.read();
                } else {
                    frame_ok &= res.buf.unchanged_except(&snap_res, &res_ranges);
                    let pc = if op.starts_with("vmp_") { p.rcol } else { rc };
                    let mut rb = Opd::new(n, 1, p.rs, 0, 0, sbig, f ^ 8);
                    m.vec_znx_idft_apply(&mut rb.big_mut::<BE>(), 0, &dft_ref::<BE>(&res), pc, scratch);
                    out = rb.read();
                }
            });
            DOutcome { scr: scr_log, d: out, frame_ok, panic: r.err().unwrap_or_default() }
        }
    };
}

dft_backend!(dexec_fft64ref, FFT64Ref);
dft_backend!(dexec_fft64avx, FFT64Avx);
dft_backend!(dexec_ntt120ref, NTT120Ref);
dft_backend!(dexec_ntt120avx, NTT120Avx);

pub struct DMods {
    a: HashMap<usize, Module<FFT64Ref>>,
    b: HashMap<usize, Module<FFT64Avx>>,
    c: HashMap<usize, Module<NTT120Ref>>,
    d: HashMap<usize, Module<NTT120Avx>>,
}
impl DMods {
    pub fn new() -> Self {
        DMods { a: HashMap::new(), b: HashMap::new(), c: HashMap::new(), d: HashMap::new() }
    }
    pub fn exec(&mut self, be: usize, p: &DPlan, fill: u64) -> DOutcome {
        match be {
            0 => dexec_fft64ref(&mut self.a, p, fill),
            1 => dexec_fft64avx(&mut self.b, p, fill),
            2 => dexec_ntt120ref(&mut self.c, p, fill),
            _ => dexec_ntt120avx(&mut self.d, p, fill),
        }
    }
}

pub fn is_dft_op(op: &str) -> bool {
    op.starts_with("dft_") || op.starts_with("idft_") || op.starts_with("svp_") || op.starts_with("vmp_") || op.starts_with("cnv_")
}

pub fn run_dcase(mods: &mut DMods, c: &Value, seed: u64) -> Value {
    let p = make_dplan(c, seed);
    let mut groups: Vec<(Vec<Value>, Vec<Vec<i128>>, String)> = Vec::new();
    let mut frame = true;
    let mut frame_bad: Vec<String> = vec![];
    let mut scr_all: Vec<Value> = vec![];
    let only: Option<Vec<usize>> = c.get("backends").and_then(|v| v.as_array()).map(|a| a.iter().map(|x| x.as_u64().unwrap() as usize).collect());
    for be in 0..4 {
        if let Some(o) = &only {
            if !o.contains(&be) {
                continue;
            }
        }
        for fill in 0..2u64 {
            let o = mods.exec(be, &p, fill + 1);
            if p.exact {
                scr_all.push(json!({"b": be, "f": fill, "calls": o.scr}));
            }
            if !o.frame_ok {
                frame = false;
                frame_bad.push(format!("{}:{}", BACKENDS[be], fill));
            }
            let who = json!({"b": be, "f": fill});
            if let Some(g) = groups.iter_mut().find(|g| g.1 == o.d && g.2 == o.panic) {
                g.0.push(who);
            } else {
                groups.push((vec![who], o.d, o.panic));
            }
        }
    }
    let agree_only = c.get("chk").and_then(|v| v.as_str()) == Some("agree");
    let outs: Vec<Value> = groups
        .into_iter()
        .map(|(who, d, panic)| {
            if agree_only {
                // values exceed TLC's native integers: log a 30-bit digest of the outcome instead
                let mut h: u64 = 0xcbf29ce484222325;
                for l in d.iter() {
                    for x in l.iter() {
                        h = (h ^ (*x as u64)).wrapping_mul(0x100000001b3);
                        h = (h ^ ((*x >> 64) as u64)).wrapping_mul(0x100000001b3);
                    }
                }
                return json!({"who": who, "d": [[(h >> 34) as i64]], "panic": panic});
            }
            let dj: Vec<Vec<i64>> = d.iter().map(|l| l.iter().map(|&x| x.clamp(i64::MIN as i128, i64::MAX as i128) as i64).collect()).collect();
            json!({"who": who, "d": dj, "panic": panic})
        })
        .collect();
    json!({
        "id": gu(c, "id", 0), "op": p.op, "n": p.n, "na": p.n, "rs": p.rs,
        "p": {"step": p.step, "off": p.off, "scale": p.scale, "rows": p.rows, "cin": p.cin, "cout": p.cout, "ms": p.ms,
              "ci": p.ci, "cj": p.cj, "maskt": p.maskt, "pa": p.pa, "pb": p.pb, "rcol": p.rcol, "acol": p.acol, "bcol": p.bcol, "k": 0, "limb": 0, "part": 0, "rb": 0, "ab": 0},
        "shape": {"rcols": p.rcols, "rcol": p.rcol, "acols": p.acols, "acol": p.acol, "bcols": p.bcols, "bcol": p.bcol, "rextra": p.rextra},
        "ins": if agree_only { json!({}) } else { json!({"a": json!(p.am[p.acol]), "b": json!(p.bm[p.bcol]), "am": json!(p.am), "bm": json!(p.bm), "s": json!(p.ds),
                "r": if p.uses_r { json!(p.dr) } else { json!([]) }, "m": json!(p.dm), "cst": json!(p.cst), "parts": json!([])}) },
        "outs": outs, "frame": frame, "frame_bad": frame_bad, "scr": scr_all,
        "did": gu(c, "id", 0), "chunk": 0, "nchunks": 1, "alpha": json!([]),
        "chk": c.get("chk").cloned().unwrap_or(json!("full")),
    })
}
