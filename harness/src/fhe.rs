//! Encrypted integers (C15) and thread-count independence (C20): word operations on FheUint<u32> through the
//! library's own key material (the crate's public test context: N=256, rank 2), single- and multi-threaded,
//! with the H3 log of the work items each thread executed.
use crate::util::guarded;
use poulpy_bin_fhe::bdd_arithmetic::tests::test_suite::TestContext;
use poulpy_bin_fhe::bdd_arithmetic::*;
use poulpy_bin_fhe::blind_rotation::CGGI;
use poulpy_core::EncryptionLayout;
use poulpy_core::api::*;
use poulpy_core::layouts::*;
use poulpy_cpu_avx::FFT64Avx;
use poulpy_cpu_ref::FFT64Ref;
use poulpy_hal::api::*;
use poulpy_hal::layouts::*;
use poulpy_hal::source::Source;
use serde_json::{Value, json};

/// a word given either directly ("a") or as two 16-bit halves ("ahi", "alo": the generator's integers are 32-bit signed)
fn word(c: &Value, name: &str) -> u32 {
    if let Some(v) = c.get(name).and_then(|v| v.as_u64()) {
        return v as u32;
    }
    let hi = c.get(&format!("{name}hi")).and_then(|v| v.as_u64()).unwrap_or(0) as u32;
    let lo = c.get(&format!("{name}lo")).and_then(|v| v.as_u64()).unwrap_or(0) as u32;
    (hi << 16) | (lo & 0xffff)
}
fn bits(x: u32) -> Vec<u8> {
    (0..32).map(|i| ((x >> i) & 1) as u8).collect()
}
fn fnv_bytes(b: &[u8]) -> String {
    let mut h: u64 = 0xcbf29ce484222325;
    for x in b {
        h ^= *x as u64;
        h = h.wrapping_mul(0x100000001b3);
    }
    format!("{:016x}", h)
}

macro_rules! fhe_backend {
    ($fname:ident, $BE:ty) => {
        pub fn $fname(ctx: &TestContext<CGGI, $BE>, c: &Value) -> Vec<Value> {
            type BE = $BE;
            let module = &ctx.module;
            let skp = &ctx.sk_glwe;
            let key = &ctx.bdd_key;
            let glwe_infos: GLWELayout = ctx.glwe_infos();
            let ggsw_infos: GGSWLayout = ctx.ggsw_infos();
            let kind = c["kind"].as_str().unwrap();
            let a = word(c, "a");
            let b = word(c, "b");
            let threads: Vec<usize> = c["threads"].as_array().map(|v| v.iter().map(|x| x.as_u64().unwrap() as usize).collect()).unwrap_or(vec![1]);
            let seed = c["id"].as_u64().unwrap_or(1);
            let mut outs: Vec<Value> = vec![];
            let ggsw_enc = EncryptionLayout::new_from_default_sigma(ggsw_infos).unwrap();
            let glwe_enc = EncryptionLayout::new_from_default_sigma(glwe_infos).unwrap();
            let mk = |x: u64| {
                let mut s = [0u8; 32];
                crate::util::Rng::new(x).fill(&mut s);
                s
            };
            // operands: prepared directly (GGSW encryption of every bit)
            let enc_prep = |v: u32, salt: u64| {
                let mut p: FheUintPrepared<DeviceBuf<BE>, u32, BE> = FheUintPrepared::<DeviceBuf<BE>, u32, BE>::alloc_from_infos(module, &ggsw_infos);
                let mut scratch: ScratchOwned<BE> = ScratchOwned::alloc(1 << 22);
                p.encrypt_sk(module, v, skp, &ggsw_enc, &mut Source::new(mk(seed ^ salt ^ 0x11)), &mut Source::new(mk(seed ^ salt ^ 0x22)), scratch.borrow());
                p
            };
            let enc_packed = |v: u32, salt: u64| {
                let mut p: FheUint<Vec<u8>, u32> = FheUint::alloc_from_infos(&glwe_infos);
                let mut scratch: ScratchOwned<BE> = ScratchOwned::alloc(1 << 22);
                p.encrypt_sk(module, v, skp, &glwe_enc, &mut Source::new(mk(seed ^ salt ^ 0x33)), &mut Source::new(mk(seed ^ salt ^ 0x44)), scratch.borrow());
                p
            };
            let run_op = |op: &str, th: usize, x: &FheUintPrepared<DeviceBuf<BE>, u32, BE>, y: &FheUintPrepared<DeviceBuf<BE>, u32, BE>| -> (FheUint<Vec<u8>, u32>, Vec<(u8, usize, usize)>) {
                let mut res: FheUint<Vec<u8>, u32> = FheUint::<Vec<u8>, u32>::alloc_from_infos(&glwe_infos);
                macro_rules! go {
                    ($m:ident, $mt:ident, $tb:ident, $tbmt:ident) => {{
                        if th == 0 {
                            let bytes = res.$tb(module, &glwe_infos, &ggsw_infos, key);
                            let mut s: ScratchOwned<BE> = ScratchOwned::alloc(bytes);
                            verif_partition::start();
                            res.$m(module, x, y, key, s.borrow());
                        } else {
                            let bytes = res.$tbmt(module, th, &glwe_infos, &ggsw_infos, key);
                            let mut s: ScratchOwned<BE> = ScratchOwned::alloc(bytes);
                            verif_partition::start();
                            res.$mt(th, module, x, y, key, s.borrow());
                        }
                    }};
                }
                match op {
                    "add" => go!(add, add_multi_thread, add_tmp_bytes, add_multi_thread_tmp_bytes),
                    "sub" => go!(sub, sub_multi_thread, sub_tmp_bytes, sub_multi_thread_tmp_bytes),
                    "sll" => go!(sll, sll_multi_thread, sll_tmp_bytes, sll_multi_thread_tmp_bytes),
                    "srl" => go!(srl, srl_multi_thread, srl_tmp_bytes, srl_multi_thread_tmp_bytes),
                    "sra" => go!(sra, sra_multi_thread, sra_tmp_bytes, sra_multi_thread_tmp_bytes),
                    "slt" => go!(slt, slt_multi_thread, slt_tmp_bytes, slt_multi_thread_tmp_bytes),
                    "sltu" => go!(sltu, sltu_multi_thread, sltu_tmp_bytes, sltu_multi_thread_tmp_bytes),
                    "and" => go!(and, and_multi_thread, and_tmp_bytes, and_multi_thread_tmp_bytes),
                    "or" => go!(or, or_multi_thread, or_tmp_bytes, or_multi_thread_tmp_bytes),
                    "xor" => go!(xor, xor_multi_thread, xor_tmp_bytes, xor_multi_thread_tmp_bytes),
                    other => panic!("harness: unknown word op {other}"),
                }
                let items = verif_partition::stop();
                (res, items)
            };
            let dec = |r: &FheUint<Vec<u8>, u32>| -> u32 {
                let mut scratch: ScratchOwned<BE> = ScratchOwned::alloc(1 << 22);
                r.decrypt(module, skp, scratch.borrow())
            };
            let digest = |r: &FheUint<Vec<u8>, u32>| fnv_bytes(r.to_ref().data().data);
            let items_json = |items: &[(u8, usize, usize)]| json!(items.iter().map(|t| json!([t.0, t.1, t.2])).collect::<Vec<_>>());
            match kind {
                // one word operation on freshly encrypted prepared operands, threads = 0 means the single-threaded entry point
                "word" => {
                    let op = c["op"].as_str().unwrap();
                    let x = enc_prep(a, 1);
                    let y = enc_prep(b, 2);
                    for &th in threads.iter() {
                        let r = guarded(|| {
                            let (res, items) = run_op(op, th, &x, &y);
                            (dec(&res), digest(&res), items)
                        });
                        match r {
                            Ok((v, d, items)) => outs.push(json!({"threads": th, "out": bits(v), "digest": d, "items": items_json(&items), "nitems": 32, "site": 0, "panic": ""})),
                            Err(p) => outs.push(json!({"threads": th, "out": [], "digest": "", "items": [], "nitems": 32, "site": 0, "panic": p})),
                        }
                    }
                }
                // packed GLWE -> circuit bootstrapping of bits [start, start+count) -> OR with zero: the prepared word read back
                "prep" => {
                    let start = c["start"].as_u64().unwrap_or(0) as usize;
                    let count = c["count"].as_u64().unwrap_or(32) as usize;
                    let packed = enc_packed(a, 3);
                    let zero = enc_prep(0, 4);
                    for &th in threads.iter() {
                        let r = guarded(|| {
                            // the destination is a RE-USED buffer holding an unrelated word (all ones): bits outside the window must be cleared
                            let mut p: FheUintPrepared<DeviceBuf<BE>, u32, BE> = enc_prep(0xFFFF_FFFF, 9);
                            let tt = th.max(1);
                            let bytes = tt * module.fhe_uint_prepare_tmp_bytes(7, 1, &p, &packed, key);
                            let mut s: ScratchOwned<BE> = ScratchOwned::alloc(bytes);
                            verif_partition::start();
                            if th == 0 {
                                module.fhe_uint_prepare_custom(&mut p, &packed, start, count, key, s.borrow());
                            } else {
                                module.fhe_uint_prepare_custom_multi_thread(th, &mut p, &packed, start, count, key, s.borrow());
                            }
                            let items = verif_partition::stop();
                            let (res, _) = run_op("or", 0, &p, &zero);
                            (dec(&res), digest(&res), items)
                        });
                        match r {
                            Ok((v, d, items)) => outs.push(json!({"threads": th, "out": bits(v), "digest": d, "items": items_json(&items), "nitems": count, "first": start, "site": 1, "panic": ""})),
                            Err(p) => outs.push(json!({"threads": th, "out": [], "digest": "", "items": [], "nitems": count, "first": start, "site": 1, "panic": p})),
                        }
                    }
                }
                // chain: r0 = op0(a, b); r_{k+1} = op_k(prepare(r_k), b)  (re-preparation through circuit bootstrapping)
                "chain" => {
                    let ops: Vec<String> = c["ops"].as_array().unwrap().iter().map(|v| v.as_str().unwrap().to_string()).collect();
                    let y = enc_prep(b, 2);
                    let mut x = enc_prep(a, 1);
                    for (k, op) in ops.iter().enumerate() {
                        let r = guarded(|| {
                            let (res, _) = run_op(op, 0, &x, &y);
                            let v = dec(&res);
                            let mut p: FheUintPrepared<DeviceBuf<BE>, u32, BE> = FheUintPrepared::<DeviceBuf<BE>, u32, BE>::alloc_from_infos(module, &ggsw_infos);
                            let bytes = module.fhe_uint_prepare_tmp_bytes(7, 1, &p, &res, key);
                            let mut s: ScratchOwned<BE> = ScratchOwned::alloc(bytes);
                            p.prepare(module, &res, key, s.borrow());
                            (v, p)
                        });
                        match r {
                            Ok((v, p)) => {
                                outs.push(json!({"step": k, "op": op, "out": bits(v), "panic": ""}));
                                x = p;
                            }
                            Err(p) => {
                                outs.push(json!({"step": k, "op": op, "out": [], "panic": p}));
                                break;
                            }
                        }
                    }
                }
                // bit surgery on packed words: sext, splice_u8 / u16, get_bit, zero_byte
                "surgery" => {
                    let op = c["op"].as_str().unwrap();
                    let (i0, i1) = (c["i0"].as_u64().unwrap_or(0) as usize, c["i1"].as_u64().unwrap_or(0) as usize);
                    let pa = enc_packed(a, 5);
                    let pb = enc_packed(b, 6);
                    let r = guarded(|| {
                        let mut scratch: ScratchOwned<BE> = ScratchOwned::alloc(1 << 23);
                        let mut res: FheUint<Vec<u8>, u32> = FheUint::<Vec<u8>, u32>::alloc_from_infos(&glwe_infos);
                        match op {
                            "sext" => {
                                res = enc_packed(a, 5);
                                res.sext(module, i0, key, scratch.borrow());
                            }
                            "zero_byte" => {
                                res = enc_packed(a, 5);
                                res.zero_byte(module, i0, key, scratch.borrow());
                            }
                            "splice_u8" => res.splice_u8(module, i0, i1, &pa, &pb, key, scratch.borrow()),
                            "splice_u16" => res.splice_u16(module, i0, i1, &pa, &pb, key, scratch.borrow()),
                            "get_bit" => pa.get_bit_glwe(module, i0, &mut res, key, scratch.borrow()),
                            other => panic!("harness: unknown surgery op {other}"),
                        }
                        dec(&res)
                    });
                    match r {
                        Ok(v) => outs.push(json!({"out": bits(v), "panic": ""})),
                        Err(p) => outs.push(json!({"out": [], "panic": p})),
                    }
                }
                // oblivious data movement under an encrypted index: blind selection over a sparse map, blind retrieval
                // (butterfly of conditional swaps, forward and reverse), the stateful retriever, a single cswap, blind rotation
                "blind" => {
                    let op = c["op"].as_str().unwrap();
                    let gu = |k: &str, d: u64| c.get(k).and_then(|v| v.as_u64()).unwrap_or(d) as usize;
                    let (rsh, mask, lsh) = (gu("rsh", 0), gu("mask", 0), gu("lsh", 0));
                    let tp = TorusPrecision(glwe_infos.base2k.as_u32());
                    let enc_item = |v: i64, pos: usize, salt: u64| {
                        let mut pt: GLWEPlaintext<Vec<u8>> = GLWEPlaintext::alloc_from_infos(&glwe_infos);
                        pt.encode_coeff_i64(v, tp, pos);
                        let mut ct: GLWE<Vec<u8>> = GLWE::alloc_from_infos(&glwe_infos);
                        let mut scratch: ScratchOwned<BE> = ScratchOwned::alloc(1 << 22);
                        module.glwe_encrypt_sk(&mut ct, &pt, skp, &glwe_enc, &mut Source::new(mk(seed ^ salt ^ 0x55)), &mut Source::new(mk(seed ^ salt ^ 0x66)), scratch.borrow());
                        ct
                    };
                    // decoded coefficients as a sparse list [[index, value], ..]
                    let dec_ct = |ct: &GLWE<Vec<u8>>| -> Value {
                        let mut pt: GLWEPlaintext<Vec<u8>> = GLWEPlaintext::alloc_from_infos(&glwe_infos);
                        let mut scratch: ScratchOwned<BE> = ScratchOwned::alloc(1 << 22);
                        module.glwe_decrypt(ct, &mut pt, skp, scratch.borrow());
                        let n = module.n();
                        json!((0..n).filter_map(|i| { let v = pt.decode_coeff_i64(tp, i); if v != 0 { Some(json!([i, v])) } else { None } }).collect::<Vec<_>>())
                    };
                    let sel = enc_prep(a, 1);
                    let r = guarded(|| {
                        let mut scratch: ScratchOwned<BE> = ScratchOwned::alloc(1 << 23);
                        match op {
                            "select" => {
                                let keys: Vec<usize> = c["keys"].as_array().unwrap().iter().map(|v| v.as_u64().unwrap() as usize).collect();
                                let mut cts: Vec<GLWE<Vec<u8>>> = keys.iter().map(|&k| enc_item(k as i64 + 1, 0, 100 + k as u64)).collect();
                                let mut map: std::collections::HashMap<usize, &mut GLWE<Vec<u8>>> = std::collections::HashMap::new();
                                for (ct, &k) in cts.iter_mut().zip(keys.iter()) {
                                    map.insert(k, ct);
                                }
                                let mut res: GLWE<Vec<u8>> = enc_item(99, 1, 7);      // a re-used destination
                                // exactly the declared scratch (C12)
                                let mut scratch: ScratchOwned<BE> = ScratchOwned::alloc(GLWEBlindSelection::<u32, BE>::glwe_blind_selection_tmp_bytes(module, &res, &ggsw_infos));
                                GLWEBlindSelection::<u32, BE>::glwe_blind_selection(module, &mut res, map, &sel, rsh, mask, scratch.borrow());
                                vec![dec_ct(&res)]
                            }
                            "retrieval" => {
                                let n = gu("n", 1);
                                let mut v: Vec<GLWE<Vec<u8>>> = (0..n).map(|i| enc_item(i as i64 + 1, 0, 200 + i as u64)).collect();
                                let mut scratch: ScratchOwned<BE> = ScratchOwned::alloc(module.glwe_blind_retrieval_tmp_bytes(&v[0], &ggsw_infos));
                                module.glwe_blind_retrieval_statefull(&mut v, &sel, rsh, mask, scratch.borrow());
                                let fwd: Vec<Value> = v.iter().map(&dec_ct).collect();
                                module.glwe_blind_retrieval_statefull_rev(&mut v, &sel, rsh, mask, scratch.borrow());
                                let rev: Vec<Value> = v.iter().map(&dec_ct).collect();
                                vec![json!(fwd), json!(rev)]
                            }
                            "retriever" => {
                                // rounds: [adds, adds, ..]; every round ends with a flush; item ids 10*round + k + 1
                                let size = gu("size", 2);
                                let rounds: Vec<usize> = c["rounds"].as_array().unwrap().iter().map(|v| v.as_u64().unwrap() as usize).collect();
                                let mut rt = GLWEBlindRetriever::alloc(&glwe_infos, size);
                                let mut outs: Vec<Value> = vec![];
                                for (ri, &adds) in rounds.iter().enumerate() {
                                    for k in 0..adds {
                                        let it = enc_item((10 * ri + k + 1) as i64, 0, 300 + (ri * 16 + k) as u64);
                                        rt.add(module, &it, &sel, rsh, scratch.borrow());
                                    }
                                    let mut res: GLWE<Vec<u8>> = enc_item(99, 1, 8);
                                    rt.flush(module, &mut res, &sel, rsh, scratch.borrow());
                                    outs.push(dec_ct(&res));
                                }
                                outs
                            }
                            "retrieve" => {
                                let size = gu("size", 2);
                                let n = gu("n", 1);
                                let data: Vec<GLWE<Vec<u8>>> = (0..n).map(|i| enc_item(i as i64 + 1, 0, 400 + i as u64)).collect();
                                let mut rt = GLWEBlindRetriever::alloc(&glwe_infos, size);
                                let mut res: GLWE<Vec<u8>> = enc_item(99, 1, 8);
                                // exactly the declared scratch
                                let mut scratch: ScratchOwned<BE> = ScratchOwned::alloc(GLWEBlindRetriever::retrieve_tmp_bytes(module, &res, &ggsw_infos));
                                rt.retrieve(module, &mut res, &data, &sel, rsh, scratch.borrow());
                                vec![dec_ct(&res)]
                            }
                            "cswap" => {
                                let mut x = enc_item(1, 0, 500);
                                let mut y = enc_item(2, 0, 501);
                                let mut scratch: ScratchOwned<BE> = ScratchOwned::alloc(module.cswap_tmp_bytes(&x, &y, &ggsw_infos));
                                module.cswap(&mut x, &mut y, &sel.get_bit(rsh), scratch.borrow());
                                vec![dec_ct(&x), dec_ct(&y)]
                            }
                            "rotate" | "rotate_assign" => {
                                let pos = gu("pos", 0);
                                let neg = c.get("neg").and_then(|v| v.as_bool()).unwrap_or(false);
                                let x = enc_item(gu("val", 1) as i64, pos, 600);
                                let mut scratch: ScratchOwned<BE> = ScratchOwned::alloc(module.glwe_blind_rotation_tmp_bytes(&x, &ggsw_infos));
                                if op == "rotate" {
                                    let mut res: GLWE<Vec<u8>> = enc_item(99, 1, 9);
                                    module.glwe_blind_rotation(&mut res, &x, &sel, !neg, rsh, mask, lsh, scratch.borrow());
                                    vec![dec_ct(&res)]
                                } else {
                                    let mut y = x.clone();
                                    module.glwe_blind_rotation_assign(&mut y, &sel, !neg, rsh, mask, lsh, scratch.borrow());
                                    vec![dec_ct(&y)]
                                }
                            }
                            other => panic!("harness: unknown blind op {other}"),
                        }
                    });
                    match r {
                        Ok(v) => outs.push(json!({"res": v, "panic": ""})),
                        Err(p) => outs.push(json!({"res": [], "panic": p})),
                    }
                }
                // several OS threads share the module, the prepared key and the read-only operands; each has its own scratch
                "shared" => {
                    let ops: Vec<String> = c["ops"].as_array().unwrap().iter().map(|v| v.as_str().unwrap().to_string()).collect();
                    let x = enc_prep(a, 1);
                    let y = enc_prep(b, 2);
                    let seq: Vec<(u32, String)> = ops.iter().map(|op| { let (r, _) = run_op(op, 0, &x, &y); (dec(&r), digest(&r)) }).collect();
                    let rounds = c["rounds"].as_u64().unwrap_or(2) as usize;
                    let conc: Vec<Vec<(u32, String)>> = std::thread::scope(|scope| {
                        let hs: Vec<_> = ops.iter().map(|op| {
                            let (x, y, run_op, dec, digest) = (&x, &y, &run_op, &dec, &digest);
                            scope.spawn(move || (0..rounds).map(|_| { let (r, _) = run_op(op, 0, x, y); (dec(&r), digest(&r)) }).collect::<Vec<_>>())
                        }).collect();
                        hs.into_iter().map(|h| h.join().unwrap()).collect()
                    });
                    for (k, op) in ops.iter().enumerate() {
                        outs.push(json!({"op": op, "out": bits(seq[k].0), "digest": seq[k].1, "conc": conc[k].iter().map(|t| t.1.clone()).collect::<Vec<_>>(), "panic": ""}));
                    }
                }
                other => panic!("harness: unknown fhe kind {other}"),
            }
            outs
        }
    };
}

fhe_backend!(fhe_ref, FFT64Ref);
fhe_backend!(fhe_avx, FFT64Avx);

pub struct FMods {
    a: Option<TestContext<CGGI, FFT64Ref>>,
    b: Option<TestContext<CGGI, FFT64Avx>>,
}
impl FMods {
    pub fn new() -> Self {
        FMods { a: None, b: None }
    }
}

pub fn run_fhe(mods: &mut FMods, c: &Value) -> Value {
    let be = c["be"].as_u64().unwrap_or(0);
    let outs = if be == 0 {
        if mods.a.is_none() {
            mods.a = Some(TestContext::<CGGI, FFT64Ref>::new());
        }
        fhe_ref(mods.a.as_ref().unwrap(), c)
    } else {
        if mods.b.is_none() {
            mods.b = Some(TestContext::<CGGI, FFT64Avx>::new());
        }
        fhe_avx(mods.b.as_ref().unwrap(), c)
    };
    let mut e = c.clone();
    e["ev"] = json!("fhe");
    e["abits"] = json!(bits(word(c, "a")));
    e["bbits"] = json!(bits(word(c, "b")));
    e["outs"] = json!(outs);
    e
}
