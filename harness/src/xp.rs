//! External-product family (C04): keygen -> encrypt GGSW(m2) -> encrypt GLWE(m1) -> operation, logged with the raw
//! limbs of every GGSW cell, of the inputs and of the result, plus the secret.  TLC recomputes everything else.
use crate::util::{Rng, guarded, scr_call};
use poulpy_bin_fhe::bdd_arithmetic::Cmux;
use poulpy_core::api::*;
use poulpy_core::layouts::prepared::*;
use poulpy_core::layouts::*;
use poulpy_cpu_avx::{FFT64Avx, NTT120Avx};
use poulpy_cpu_ref::{FFT64Ref, NTT120Ref};
use poulpy_hal::api::*;
use poulpy_hal::layouts::*;
use poulpy_hal::source::Source;
use serde_json::{Value, json};
use std::collections::HashMap;

fn gu(c: &Value, k: &str, d: u64) -> u64 {
    c.get(k).and_then(|v| v.as_u64()).unwrap_or(d)
}
fn dump_glwe_ref(g: &GLWE<&[u8]>) -> Value {
    let v = g.data();
    let cols: Vec<Vec<Vec<i64>>> = (0..v.cols()).map(|c| (0..v.size()).map(|j| v.at(c, j).to_vec()).collect()).collect();
    json!({"rank": g.rank().0, "b": g.base2k().0, "size": v.size(), "d": cols})
}
fn dump_glwe(g: &GLWE<Vec<u8>>) -> Value {
    let v = g.data();
    let cols: Vec<Vec<Vec<i64>>> = (0..v.cols()).map(|c| (0..v.size()).map(|j| v.at(c, j).to_vec()).collect()).collect();
    json!({"rank": g.rank().0, "b": g.base2k().0, "size": v.size(), "d": cols})
}
fn dump_ggsw(g: &GGSW<Vec<u8>>) -> Value {
    let rank = g.rank().0 as usize;
    let rows: Vec<Vec<Value>> = (0..g.dnum().0 as usize).map(|r| (0..rank + 1).map(|c| dump_glwe_ref(&g.at(r, c))).collect()).collect();
    json!(rows)
}

pub struct XpOut {
    pub res: Value,
    pub a: Value,
    pub b: Value,
    pub g: Value,
    pub sk: Value,
    pub scr: Vec<Value>,
    pub panic: String,
}

macro_rules! xp_backend {
    ($fname:ident, $BE:ty) => {
        pub fn $fname(mods: &mut HashMap<usize, Module<$BE>>, c: &Value, seed: u64, fill: u64) -> XpOut {
            type BE = $BE;
            let n = gu(c, "n", 8) as usize;
            if !mods.contains_key(&n) {
                mods.insert(n, Module::<BE>::new(n as u64));
            }
            let m: &Module<BE> = &mods[&n];
            let id = gu(c, "id", 0);
            let op = c["op"].as_str().unwrap();
            let (bin, bkey, bout) = (gu(c, "bin", 4) as u32, gu(c, "bkey", 4) as u32, gu(c, "bout", 4) as u32);
            let (sin, skey, sout) = (gu(c, "sin", 2) as u32, gu(c, "skey", 3) as u32, gu(c, "sout", 2) as u32);
            let rank = gu(c, "rin", 1) as u32;
            let (dnum, dsize) = (gu(c, "dnum", 2) as u32, gu(c, "dsize", 1) as u32);
            let exact = c.get("scr").and_then(|v| v.as_str()) == Some("exact");
            let mut rng = Rng::new(seed ^ id.wrapping_mul(0x9E3779B97F4A7C15) ^ 0x7157);
            let mkseed = |rng: &mut Rng| {
                let mut s = [0u8; 32];
                rng.fill(&mut s);
                s
            };
            let mut source_xs = Source::new(mkseed(&mut rng));
            let mut source_xe = Source::new(mkseed(&mut rng));
            let mut source_xa = Source::new(mkseed(&mut rng));
            let noise = |k: u32| NoiseInfos::new(k as usize, gu(c, "sigma10", 10) as f64 / 10.0, gu(c, "bound10", 10) as f64 / 10.0).unwrap();
            let f = fill.wrapping_mul(0x9E37).wrapping_add(id);
            let mut scr_log: Vec<Value> = vec![];
            let mut out = XpOut { res: json!({"rank": -1}), a: json!({"rank": -1}), b: json!({"rank": -1}), g: json!([]), sk: json!([]), scr: vec![], panic: String::new() };
            let kkey = skey * bkey;
            let kin = sin * bin;
            let pc = gu(c, "pc", 1);
            let r = guarded(|| {
                let mut sk = GLWESecret::alloc(Degree(n as u32), Rank(rank));
                sk.fill_ternary_prob(0.5, &mut source_xs);
                out.sk = json!((0..rank as usize).map(|i| sk.verif_data().at(i, 0).to_vec()).collect::<Vec<_>>());
                let mut skp: GLWESecretPrepared<DeviceBuf<BE>, BE> = m.glwe_secret_prepared_alloc(Rank(rank));
                m.glwe_secret_prepare(&mut skp, &sk);
                let m2: Vec<i64> = c["m2"].as_array().unwrap().iter().map(|v| v.as_i64().unwrap()).collect();
                let mut enc_ggsw = |mm: &[i64], b: u32, k: u32, dn: u32, ds: u32, tag: &str, log: &mut Vec<Value>, xe: &mut Source, xa: &mut Source| {
                    let mut pt = ScalarZnx::alloc(n, 1);
                    pt.at_mut(0, 0).copy_from_slice(mm);
                    let mut g = GGSW::alloc(Degree(n as u32), Base2K(b), TorusPrecision(k), Rank(rank), Dnum(dn), Dsize(ds));
                    let decl = m.ggsw_encrypt_sk_tmp_bytes(&g);
                    let ni = noise(k);
                    scr_call::<BE, _>(exact, decl, f ^ 21, tag, log, |s| m.ggsw_encrypt_sk(&mut g, &pt, &skp, &ni, xe, xa, s));
                    g
                };
                let g = enc_ggsw(&m2, bkey, kkey, dnum, dsize, "ggsw_encrypt_sk", &mut scr_log, &mut source_xe, &mut source_xa);
                out.g = dump_ggsw(&g);
                let mut gp: GGSWPrepared<DeviceBuf<BE>, BE> = m.ggsw_prepared_alloc_from_infos(&g);
                {
                    let decl = m.ggsw_prepare_tmp_bytes(&g);
                    scr_call::<BE, _>(exact, decl, f ^ 22, "ggsw_prepare", &mut scr_log, |s| m.ggsw_prepare(&mut gp, &g, s));
                }
                let half = 1i64 << (bin - 1);
                let mut fresh = |salt: u64, log: &mut Vec<Value>, xe: &mut Source, xa: &mut Source| {
                    let mut a = GLWE::alloc(Degree(n as u32), Base2K(bin), TorusPrecision(kin), Rank(rank));
                    let mut pt = GLWEPlaintext::alloc(Degree(n as u32), Base2K(bin), TorusPrecision(kin));
                    let mut prng = Rng::new(seed ^ id ^ 0x99 ^ salt.wrapping_mul(0x1234567));
                    for j in 0..pt.data.size() {
                        for i in 0..n {
                            pt.data.at_mut(0, j)[i] = if pc == 2 { if prng.below(2) == 0 { -half } else { half - 1 } } else { prng.sym(half).clamp(-half, half - 1) };
                        }
                    }
                    let decl = m.glwe_encrypt_sk_tmp_bytes(&a);
                    let ni = noise(kin);
                    scr_call::<BE, _>(false, decl, f ^ 23, "glwe_encrypt_sk", log, |s| m.glwe_encrypt_sk(&mut a, &pt, &skp, &ni, xe, xa, s));
                    a
                };
                match op {
                    "xp" | "xp_assign" => {
                        let a = fresh(0, &mut scr_log, &mut source_xe, &mut source_xa);
                        out.a = dump_glwe(&a);
                        if op == "xp" {
                            let mut res = GLWE::alloc(Degree(n as u32), Base2K(bout), TorusPrecision(sout * bout), Rank(rank));
                            Rng::new(f ^ 31).fill(res.data_mut().data.as_mut());
                            let decl = m.glwe_external_product_tmp_bytes(&res, &a, &gp);
                            scr_call::<BE, _>(exact, decl, f ^ 24, op, &mut scr_log, |s| m.glwe_external_product(&mut res, &a, &gp, s));
                            out.res = dump_glwe(&res);
                        } else {
                            let mut x = a.clone();
                            let decl = m.glwe_external_product_tmp_bytes(&x, &x, &gp);
                            scr_call::<BE, _>(exact, decl, f ^ 24, op, &mut scr_log, |s| m.glwe_external_product_assign(&mut x, &gp, s));
                            out.res = dump_glwe(&x);
                        }
                    }
                    "cmux" | "cmux_assign" | "cmux_assign_neg" => {
                        // a = the "true" branch, b = the "false" branch (same radix as the GGSW: the library asserts it)
                        let a = fresh(0, &mut scr_log, &mut source_xe, &mut source_xa);
                        let b = fresh(1, &mut scr_log, &mut source_xe, &mut source_xa);
                        out.a = dump_glwe(&a);
                        out.b = dump_glwe(&b);
                        match op {
                            "cmux" => {
                                let mut res = GLWE::alloc(Degree(n as u32), Base2K(bout), TorusPrecision(sout * bout), Rank(rank));
                                Rng::new(f ^ 31).fill(res.data_mut().data.as_mut());
                                let decl = m.cmux_tmp_bytes(&res, &a, &gp);
                                scr_call::<BE, _>(exact, decl, f ^ 24, op, &mut scr_log, |s| m.cmux(&mut res, &a, &b, &gp, s));
                                out.res = dump_glwe(&res);
                            }
                            "cmux_assign" => {
                                // res = (res - a) * s + a : res holds the true branch
                                let mut x = a.clone();
                                let decl = m.cmux_tmp_bytes(&x, &b, &gp);
                                scr_call::<BE, _>(exact, decl, f ^ 24, op, &mut scr_log, |s| m.cmux_assign(&mut x, &b, &gp, s));
                                out.res = dump_glwe(&x);
                            }
                            _ => {
                                // res = (a - res) * s + res : res holds the false branch
                                let mut x = b.clone();
                                let decl = m.cmux_tmp_bytes(&x, &a, &gp) + GLWE::<Vec<u8>>::bytes_of_from_infos(&x);
                                scr_call::<BE, _>(false, decl, f ^ 24, op, &mut scr_log, |s| m.cmux_assign_neg(&mut x, &a, &gp, s));
                                out.res = dump_glwe(&x);
                            }
                        }
                    }
                    "ggsw_xp" | "ggsw_xp_assign" => {
                        let m1: Vec<i64> = c["m1"].as_array().unwrap().iter().map(|v| v.as_i64().unwrap()).collect();
                        let dnum_a = gu(c, "dnum_a", 2) as u32;
                        let ga = enc_ggsw(&m1, bin, kin, dnum_a, 1, "ggsw_encrypt_sk(a)", &mut scr_log, &mut source_xe, &mut source_xa);
                        out.a = json!({"rank": -3, "rows": dump_ggsw(&ga)});
                        if op == "ggsw_xp" {
                            let dnum_r = gu(c, "dnum_r", dnum_a as u64) as u32;
                            let mut res = GGSW::alloc(Degree(n as u32), Base2K(bin), TorusPrecision(sout * bin), Rank(rank), Dnum(dnum_r), Dsize(1));
                            {
                                let mut gr = Rng::new(f ^ 31);
                                for r_ in 0..dnum_r as usize {
                                    for c_ in 0..rank as usize + 1 {
                                        let mut cell = res.at_mut(r_, c_);
                                        let v = cell.data_mut();
                                        for col in 0..v.cols() {
                                            for j in 0..v.size() {
                                                for x in v.at_mut(col, j).iter_mut() {
                                                    *x = gr.next() as i64;
                                                }
                                            }
                                        }
                                    }
                                }
                            }
                            let decl = m.ggsw_external_product_tmp_bytes(&res, &ga, &gp);
                            scr_call::<BE, _>(exact, decl, f ^ 24, op, &mut scr_log, |s| m.ggsw_external_product(&mut res, &ga, &gp, s));
                            out.res = json!({"rank": -3, "rows": dump_ggsw(&res)});
                        } else {
                            let mut x = ga.clone();
                            let decl = m.ggsw_external_product_tmp_bytes(&x, &x, &gp);
                            scr_call::<BE, _>(exact, decl, f ^ 24, op, &mut scr_log, |s| m.ggsw_external_product_assign(&mut x, &gp, s));
                            out.res = json!({"rank": -3, "rows": dump_ggsw(&x)});
                        }
                    }
                    other => panic!("harness: unknown xp op {other}"),
                }
            });
            out.scr = scr_log;
            out.panic = r.err().unwrap_or_default();
            out
        }
    };
}

xp_backend!(xp_fft64ref, FFT64Ref);
xp_backend!(xp_fft64avx, FFT64Avx);
xp_backend!(xp_ntt120ref, NTT120Ref);
xp_backend!(xp_ntt120avx, NTT120Avx);

pub struct XMods {
    a: HashMap<usize, Module<FFT64Ref>>,
    b: HashMap<usize, Module<FFT64Avx>>,
    c: HashMap<usize, Module<NTT120Ref>>,
    d: HashMap<usize, Module<NTT120Avx>>,
}
impl XMods {
    pub fn new() -> Self {
        XMods { a: HashMap::new(), b: HashMap::new(), c: HashMap::new(), d: HashMap::new() }
    }
    fn exec(&mut self, be: usize, c: &Value, seed: u64, fill: u64) -> XpOut {
        match be {
            0 => xp_fft64ref(&mut self.a, c, seed, fill),
            1 => xp_fft64avx(&mut self.b, c, seed, fill),
            2 => xp_ntt120ref(&mut self.c, c, seed, fill),
            _ => xp_ntt120avx(&mut self.d, c, seed, fill),
        }
    }
}

pub fn run_xp(mods: &mut XMods, c: &Value, seed: u64) -> Value {
    let exact = c.get("scr").and_then(|v| v.as_str()) == Some("exact");
    let mut groups: Vec<(Vec<Value>, Value, String)> = vec![];
    let mut first: Option<XpOut> = None;
    let mut inputs_same = true;
    let mut scr_all: Vec<Value> = vec![];
    for be in 0..4 {
        for fill in 0..2u64 {
            let o = mods.exec(be, c, seed, fill + 1);
            let who = json!({"b": be, "f": fill});
            if exact {
                scr_all.push(json!({"b": be, "f": fill, "calls": o.scr}));
            }
            if let Some(g) = groups.iter_mut().find(|g| g.1 == o.res && g.2 == o.panic) {
                g.0.push(who);
            } else {
                groups.push((vec![who], o.res.clone(), o.panic.clone()));
            }
            match &first {
                None => first = Some(o),
                Some(f0) => {
                    if f0.a != o.a || f0.b != o.b || f0.g != o.g || f0.sk != o.sk {
                        inputs_same = false;
                    }
                }
            }
        }
    }
    let f0 = first.unwrap();
    let outs: Vec<Value> = groups.into_iter().map(|(who, res, panic)| json!({"who": who, "res": res, "panic": panic})).collect();
    let mut e = c.clone();
    e["ev"] = json!("xp");
    e["a"] = f0.a;
    e["b"] = f0.b;
    e["key"] = f0.g;
    e["sk_in"] = f0.sk.clone();
    e["sk_out"] = f0.sk;
    e["inputs_same"] = json!(inputs_same);
    e["outs"] = json!(outs);
    e["scr"] = json!(scr_all);
    e
}
