mod bdd;
mod binscr;
mod cbt;
mod ckks;
mod core;
mod dft;
mod fhe;
mod hal;
mod ggsw;
mod ks;
mod lut;
mod mem;
mod mul;
mod rand;
mod tmpbytes;
mod util;
mod wire;
mod xp;

use serde_json::Value;
use std::io::{BufRead, BufReader, BufWriter, Write};

fn env_seed() -> u64 {
    std::env::var("VERIF_SEED").ok().and_then(|s| s.parse().ok()).unwrap_or(1)
}

fn read_ndjson(path: &str) -> Vec<Value> {
    let f = std::fs::File::open(path).unwrap_or_else(|e| panic!("open {path}: {e}"));
    BufReader::new(f).lines().map(|l| l.unwrap()).filter(|l| !l.trim().is_empty()).map(|l| serde_json::from_str(&l).unwrap()).collect()
}

fn main() {
    let args: Vec<String> = std::env::args().collect();
    if args.len() < 2 {
        eprintln!("usage: verif-harness <cmd> ...");
        std::process::exit(2);
    }
    util::quiet_panics();
    match args[1].as_str() {
        // hal <descriptors.ndjson> <events.ndjson>
        "hal" => {
            let cases = read_ndjson(&args[2]);
            let mut out = BufWriter::new(std::fs::File::create(&args[3]).unwrap());
            let mut mods = hal::Mods::new();
            let mut dmods = dft::DMods::new();
            let seed = env_seed();
            let mut nev = 0usize;
            for (idx, c0) in cases.iter().enumerate() {
                let mut c = c0.clone();
                if c.get("id").is_none() {
                    c["id"] = serde_json::json!(idx + 1);
                }
                // a descriptor with a digit alphabet expands to ceil(alpha^size / n) events
                let nchunks = match c.get("alpha").and_then(|v| v.as_array()) {
                    Some(al) => {
                        let op = c["op"].as_str().unwrap();
                        let inplace = matches!(op, "normalize_assign" | "lsh_assign" | "rsh_assign");
                        let sz = if inplace { c["rs"].as_u64().unwrap() } else { c["as"].as_u64().unwrap() } as u32;
                        let n = c["n"].as_u64().unwrap() as usize;
                        al.len().pow(sz).div_ceil(n)
                    }
                    None => 1,
                };
                c["did"] = c["id"].clone();
                c["nchunks"] = serde_json::json!(nchunks);
                for chunk in 0..nchunks {
                    c["chunk"] = serde_json::json!(chunk);
                    let opn = c["op"].as_str().unwrap().to_string();
                    let ev = if opn.starts_with("encode_") { hal::run_encode_case(&c, seed) } else if dft::is_dft_op(&opn) { dft::run_dcase(&mut dmods, &c, seed) } else { hal::run_case(&mut mods, &c, seed) };
                    writeln!(out, "{}", serde_json::to_string(&ev).unwrap()).unwrap();
                    nev += 1;
                }
            }
            out.flush().unwrap();
            println!("hal: {} descriptors {} events", cases.len(), nev);
        }
        // wire <descriptors.ndjson> <events.ndjson>: runs the cases in a child process and survives aborts
        "wire" => {
            let cases = read_ndjson(&args[2]);
            let seed = env_seed();
            std::fs::File::create(&args[3]).unwrap();
            let mut next = 0usize;
            let mut aborts = 0usize;
            while next < cases.len() {
                let st = std::process::Command::new(&args[0])
                    .args(["wire-child", &args[2], &args[3], &next.to_string()])
                    .stderr(std::process::Stdio::null())
                    .status()
                    .expect("spawn child");
                let done = read_ndjson(&args[3]).len();
                if st.success() && done >= cases.len() {
                    break;
                }
                // the child died while running case `done`: log it as an abort and go on after it
                let mut c = cases[done].clone();
                if c.get("id").is_none() {
                    c["id"] = serde_json::json!(done + 1);
                }
                let ev = wire::run_wire_case(&c, seed, true);
                let mut f = std::fs::OpenOptions::new().append(true).open(&args[3]).unwrap();
                writeln!(f, "{}", serde_json::to_string(&ev).unwrap()).unwrap();
                aborts += 1;
                next = done + 1;
            }
            println!("wire: {} events ({} aborts)", cases.len(), aborts);
        }
        "wire-child" => {
            let cases = read_ndjson(&args[2]);
            let from: usize = args[4].parse().unwrap();
            let seed = env_seed();
            let mut f = std::fs::OpenOptions::new().append(true).open(&args[3]).unwrap();
            for (idx, c0) in cases.iter().enumerate().skip(from) {
                let mut c = c0.clone();
                if c.get("id").is_none() {
                    c["id"] = serde_json::json!(idx + 1);
                }
                let ev = wire::run_wire_case(&c, seed, false);
                writeln!(f, "{}", serde_json::to_string(&ev).unwrap()).unwrap();
                f.flush().unwrap();
            }
        }
        // core <programs.ndjson> <events.ndjson>
        "core" => {
            let progs = read_ndjson(&args[2]);
            let mut out = BufWriter::new(std::fs::File::create(&args[3]).unwrap());
            let mut mods = core::CMods::new();
            let seed = env_seed();
            let mut n = 0;
            for (idx, c0) in progs.iter().enumerate() {
                let mut c = c0.clone();
                if c.get("id").is_none() {
                    c["id"] = serde_json::json!(idx + 1);
                }
                for ev in core::run_program(&mut mods, &c, seed) {
                    writeln!(out, "{}", serde_json::to_string(&ev).unwrap()).unwrap();
                    n += 1;
                }
            }
            out.flush().unwrap();
            println!("core: {} programs {} events", progs.len(), n);
        }
        // ks <descriptors.ndjson> <events.ndjson>
        "ks" => {
            let cases = read_ndjson(&args[2]);
            let mut out = BufWriter::new(std::fs::File::create(&args[3]).unwrap());
            let mut mods = ks::KMods::new();
            let seed = env_seed();
            for (idx, c0) in cases.iter().enumerate() {
                let mut c = c0.clone();
                if c.get("id").is_none() {
                    c["id"] = serde_json::json!(idx + 1);
                }
                let ev = ks::run_ks(&mut mods, &c, seed);
                writeln!(out, "{}", serde_json::to_string(&ev).unwrap()).unwrap();
            }
            out.flush().unwrap();
            println!("ks: {} events", cases.len());
        }
        // binscr <descs.ndjson> <events.ndjson>
        "binscr" => {
            let cases = read_ndjson(&args[2]);
            let mut out = BufWriter::new(std::fs::File::create(&args[3]).unwrap());
            for (idx, c0) in cases.iter().enumerate() {
                let mut c = c0.clone();
                if c.get("id").is_none() {
                    c["id"] = serde_json::json!(idx + 1);
                }
                let ev = binscr::run_binscr(&c);
                writeln!(out, "{}", serde_json::to_string(&ev).unwrap()).unwrap();
            }
            out.flush().unwrap();
            println!("binscr: {} events", cases.len());
        }
        // cbt <descs.ndjson> <events.ndjson>
        "cbt" => {
            let cases = read_ndjson(&args[2]);
            let mut out = BufWriter::new(std::fs::File::create(&args[3]).unwrap());
            let mut mods = cbt::CMods::new();
            for (idx, c0) in cases.iter().enumerate() {
                let mut c = c0.clone();
                if c.get("id").is_none() {
                    c["id"] = serde_json::json!(idx + 1);
                }
                let ev = cbt::run_cbt(&mut mods, &c);
                writeln!(out, "{}", serde_json::to_string(&ev).unwrap()).unwrap();
            }
            out.flush().unwrap();
            println!("cbt: {} events", cases.len());
        }
        // ggsw <descs.ndjson> <events.ndjson>
        "ggsw" => {
            let cases = read_ndjson(&args[2]);
            let mut out = BufWriter::new(std::fs::File::create(&args[3]).unwrap());
            let mut mods = ggsw::GMods::new();
            let seed = env_seed();
            for (idx, c0) in cases.iter().enumerate() {
                let mut c = c0.clone();
                if c.get("id").is_none() {
                    c["id"] = serde_json::json!(idx + 1);
                }
                let ev = ggsw::run_ggsw(&mut mods, &c, seed);
                writeln!(out, "{}", serde_json::to_string(&ev).unwrap()).unwrap();
            }
            out.flush().unwrap();
            println!("ggsw: {} events", cases.len());
        }
        // hist <histories.ndjson> <events.ndjson>
        "hist" => {
            let cases = read_ndjson(&args[2]);
            let mut out = BufWriter::new(std::fs::File::create(&args[3]).unwrap());
            for (idx, c0) in cases.iter().enumerate() {
                let mut c = c0.clone();
                if c.get("id").is_none() {
                    c["id"] = serde_json::json!(idx + 1);
                }
                let ev = if c.get("win").is_some() { mem::run_arena(&c) } else { mem::run_hist(&c) };
                writeln!(out, "{}", serde_json::to_string(&ev).unwrap()).unwrap();
            }
            out.flush().unwrap();
            println!("hist: {} events", cases.len());
        }
        // guardrun <sub> <descriptors.ndjson> <events.ndjson>: runs `<sub>` in child processes (guard-page mode is inherited
        // through VERIF_GUARD); a child killed by a signal is bisected down to the single descriptor that kills it, which is
        // written to <events>.signals.ndjson instead of producing events.
        "guardrun" => {
            let sub = args[2].clone();
            let lines: Vec<String> = std::fs::read_to_string(&args[3]).unwrap().lines().filter(|l| !l.trim().is_empty()).map(|l| l.to_string()).collect();
            let mut evs = BufWriter::new(std::fs::File::create(&args[4]).unwrap());
            let mut sigs = BufWriter::new(std::fs::File::create(format!("{}.signals.ndjson", &args[4])).unwrap());
            let exe = args[0].clone();
            let tmp = format!("{}.chunk", &args[4]);
            fn go(exe: &str, sub: &str, tmp: &str, lines: &[String], evs: &mut dyn Write, sigs: &mut dyn Write, depth: usize) {
                if lines.is_empty() {
                    return;
                }
                let dpath = format!("{tmp}.{depth}.descs");
                let epath = format!("{tmp}.{depth}.events");
                std::fs::write(&dpath, lines.join("\n") + "\n").unwrap();
                let st = std::process::Command::new(exe).args([sub, &dpath, &epath]).stdout(std::process::Stdio::null()).status().unwrap();
                if st.success() {
                    evs.write_all(&std::fs::read(&epath).unwrap()).unwrap();
                } else if lines.len() == 1 {
                    use std::os::unix::process::ExitStatusExt;
                    let rec = serde_json::json!({"desc": serde_json::from_str::<serde_json::Value>(&lines[0]).unwrap(), "signal": st.signal().unwrap_or(0), "code": st.code().unwrap_or(-1)});
                    writeln!(sigs, "{}", rec).unwrap();
                } else {
                    let mid = lines.len() / 2;
                    go(exe, sub, tmp, &lines[..mid], evs, sigs, depth + 1);
                    go(exe, sub, tmp, &lines[mid..], evs, sigs, depth + 1);
                }
                let _ = std::fs::remove_file(&dpath);
                let _ = std::fs::remove_file(&epath);
            }
            for chunk in lines.chunks(400) {
                go(&exe, &sub, &tmp, chunk, &mut evs, &mut sigs, 0);
            }
            evs.flush().unwrap();
            sigs.flush().unwrap();
            println!("guardrun {}: {} descriptors", sub, lines.len());
        }
        // ckks <programs.ndjson> <events.ndjson>
        "ckks" => {
            let cases = read_ndjson(&args[2]);
            let mut out = BufWriter::new(std::fs::File::create(&args[3]).unwrap());
            for (idx, c0) in cases.iter().enumerate() {
                let mut c = c0.clone();
                if c.get("id").is_none() {
                    c["id"] = serde_json::json!(idx + 1);
                }
                let ev = ckks::run_ckks(&c);
                writeln!(out, "{}", serde_json::to_string(&ev).unwrap()).unwrap();
            }
            out.flush().unwrap();
            println!("ckks: {} events", cases.len());
        }
        // lut <descriptors.ndjson> <events.ndjson>
        "lut" => {
            let cases = read_ndjson(&args[2]);
            let mut out = BufWriter::new(std::fs::File::create(&args[3]).unwrap());
            for (idx, c0) in cases.iter().enumerate() {
                let mut c = c0.clone();
                if c.get("id").is_none() {
                    c["id"] = serde_json::json!(idx + 1);
                }
                let ev = lut::run_lut(&c);
                writeln!(out, "{}", serde_json::to_string(&ev).unwrap()).unwrap();
            }
            out.flush().unwrap();
            println!("lut: {} events", cases.len());
        }
        // fhe <descriptors.ndjson> <events.ndjson>
        "fhe" => {
            let cases = read_ndjson(&args[2]);
            let mut out = BufWriter::new(std::fs::File::create(&args[3]).unwrap());
            let mut mods = fhe::FMods::new();
            for (idx, c0) in cases.iter().enumerate() {
                let mut c = c0.clone();
                if c.get("id").is_none() {
                    c["id"] = serde_json::json!(idx + 1);
                }
                let ev = fhe::run_fhe(&mut mods, &c);
                writeln!(out, "{}", serde_json::to_string(&ev).unwrap()).unwrap();
            }
            out.flush().unwrap();
            println!("fhe: {} events", cases.len());
        }
        // rand <descriptors.ndjson> <events.ndjson>
        "rand" => {
            let cases = read_ndjson(&args[2]);
            let mut out = BufWriter::new(std::fs::File::create(&args[3]).unwrap());
            let mut mods = rand::RMods::new();
            let mut nev = 0usize;
            for c in cases.iter() {
                rand::run_rand(&mut mods, c, &mut |ev| {
                    writeln!(out, "{}", serde_json::to_string(&ev).unwrap()).unwrap();
                    nev += 1;
                });
            }
            out.flush().unwrap();
            println!("rand: {} descriptors {} events", cases.len(), nev);
        }
        // mul <descriptors.ndjson> <events.ndjson>
        "mul" => {
            let cases = read_ndjson(&args[2]);
            let mut out = BufWriter::new(std::fs::File::create(&args[3]).unwrap());
            let mut mods = mul::MMods::new();
            let seed = env_seed();
            for (idx, c0) in cases.iter().enumerate() {
                let mut c = c0.clone();
                if c.get("id").is_none() {
                    c["id"] = serde_json::json!(idx + 1);
                }
                let ev = mul::run_mul(&mut mods, &c, seed);
                writeln!(out, "{}", serde_json::to_string(&ev).unwrap()).unwrap();
            }
            out.flush().unwrap();
            println!("mul: {} events", cases.len());
        }
        // xp <descriptors.ndjson> <events.ndjson>
        "xp" => {
            let cases = read_ndjson(&args[2]);
            let mut out = BufWriter::new(std::fs::File::create(&args[3]).unwrap());
            let mut mods = xp::XMods::new();
            let seed = env_seed();
            for (idx, c0) in cases.iter().enumerate() {
                let mut c = c0.clone();
                if c.get("id").is_none() {
                    c["id"] = serde_json::json!(idx + 1);
                }
                let ev = xp::run_xp(&mut mods, &c, seed);
                writeln!(out, "{}", serde_json::to_string(&ev).unwrap()).unwrap();
            }
            out.flush().unwrap();
            println!("xp: {} events", cases.len());
        }
        // bdd-tables <out.ndjson>
        "bdd-tables" => {
            let rows = bdd::dump_tables();
            let mut out = BufWriter::new(std::fs::File::create(&args[2]).unwrap());
            for r in rows.iter() {
                writeln!(out, "{}", serde_json::to_string(r).unwrap()).unwrap();
            }
            out.flush().unwrap();
            println!("bdd-tables: {} bit circuits", rows.len());
        }
        // bdd-words <pairs.ndjson> <out.ndjson>: plain Rust result of every word op on every pair [a,b]
        "bdd-words" => {
            let pairs = read_ndjson(&args[2]);
            let mut out = BufWriter::new(std::fs::File::create(&args[3]).unwrap());
            let ops = ["add", "sub", "sll", "srl", "sra", "slt", "sltu", "and", "or", "xor", "identity"];
            let mut n = 0;
            for p in pairs.iter() {
                let a = p["a"].as_u64().unwrap() as u32;
                let b = p["b"].as_u64().unwrap() as u32;
                for op in ops {
                    let r = bdd::word_op(op, a, b);
                    // 16-bit halves keep every number inside TLC's native integers
                    writeln!(out, "{}", serde_json::json!({"op": op, "a": [a & 0xffff, a >> 16], "b": [b & 0xffff, b >> 16], "r": [r & 0xffff, r >> 16]})).unwrap();
                    n += 1;
                }
            }
            out.flush().unwrap();
            println!("bdd-words: {} rows", n);
        }
        // tmpbytes <n> <out.ndjson>
        "tmpbytes" => {
            let n: usize = args[2].parse().unwrap();
            let rows = tmpbytes::dump(n);
            let mut out = BufWriter::new(std::fs::File::create(&args[3]).unwrap());
            for r in rows.iter() {
                writeln!(out, "{}", serde_json::to_string(r).unwrap()).unwrap();
            }
            out.flush().unwrap();
            println!("tmpbytes: {} rows", rows.len());
        }
        other => {
            eprintln!("unknown command {other}");
            std::process::exit(2);
        }
    }
}
