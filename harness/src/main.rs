mod hal;
mod util;

use serde_json::Value;
use std::io::{BufRead, BufReader, BufWriter, Write};

fn env_seed() -> u64 {
    std::env::var("VERIF_SEED").ok().and_then(|s| s.parse().ok()).unwrap_or(1)
}

fn read_ndjson(path: &str) -> Vec<Value> {
    let f = std::fs::File::open(path).unwrap_or_else(|e| panic!("open {path}: {e}"));
    BufReader::new(f).lines().map(|l| l.unwrap()).filter(|l| !l.trim().is_empty()).map(|l| serde_json::from_str(&l).unwrap()).collect()
}

fn main() {
    let args: Vec<String> = std::env::args().collect();
    if args.len() < 2 {
        eprintln!("usage: verif-harness <cmd> ...");
        std::process::exit(2);
    }
    util::quiet_panics();
    match args[1].as_str() {
        // hal <descriptors.ndjson> <events.ndjson>
        "hal" => {
            let cases = read_ndjson(&args[2]);
            let mut out = BufWriter::new(std::fs::File::create(&args[3]).unwrap());
            let mut mods = hal::Mods::new();
            let seed = env_seed();
            for (idx, c0) in cases.iter().enumerate() {
                let mut c = c0.clone();
                if c.get("id").is_none() {
                    c["id"] = serde_json::json!(idx + 1);
                }
                let ev = hal::run_case(&mut mods, &c, seed);
                writeln!(out, "{}", serde_json::to_string(&ev).unwrap()).unwrap();
            }
            out.flush().unwrap();
            println!("hal: {} events", cases.len());
        }
        other => {
            eprintln!("unknown command {other}");
            std::process::exit(2);
        }
    }
}
