//! Layout histories (C17): a VecZnx view over a canary / guard-page window goes through allocation, set_size,
//! deserialisation of streams of other shapes, and probes that touch every element at its current dimensions.
use crate::util::{ABuf, Rng, guarded};
use poulpy_cpu_avx::{FFT64Avx, NTT120Avx};
use poulpy_cpu_ref::{FFT64Ref, NTT120Ref};
use poulpy_hal::api::*;
use poulpy_hal::layouts::*;
use serde_json::{Value, json};

fn gu(c: &Value, k: &str, d: u64) -> u64 {
    c.get(k).and_then(|v| v.as_u64()).unwrap_or(d)
}

macro_rules! mem_backend {
    ($fname:ident, $BE:ty) => {
        pub fn $fname(c: &Value) -> Vec<Value> {
            type BE = $BE;
            let id = gu(c, "id", 1);
            let hist = c["hist"].as_array().unwrap();
            let mut out: Vec<Value> = vec![];
            // the object's storage: one window for the whole history (allocated at the first step)
            let first = &hist[0];
            let (n0, c0, s0) = (gu(first, "n", 1) as usize, gu(first, "cols", 1) as usize, gu(first, "size", 1) as usize);
            let mut buf = ABuf::new(n0 * c0 * s0 * 8, id ^ 0x51);
            let snap = buf.snapshot();
            let cap = buf.len();
            // dimensions survive across steps; the view is rebuilt over the same bytes each time
            let (mut n, mut cols, mut size, mut maxs) = (n0, c0, s0, s0);
            for (k, st) in hist.iter().enumerate() {
                let op = st["op"].as_str().unwrap();
                let mut dims = (n, cols, size, maxs);
                let r = guarded(|| -> Result<(), String> {
                    let mut vz: VecZnx<&mut [u8]> = VecZnx::from_data(buf.win_mut(), n, cols, maxs);
                    vz.set_size(size);
                    match op {
                        "alloc" => {}
                        "set_size" => vz.set_size(gu(st, "size", 0) as usize),
                        "read" => {
                            let (rn, rc, rs) = (gu(st, "n", 1) as usize, gu(st, "cols", 1) as usize, gu(st, "size", 1) as usize);
                            let mut src = VecZnx::alloc(rn, rc, rs);
                            let mut rng = Rng::new(id ^ (k as u64) << 8);
                            for ci in 0..rc {
                                for j in 0..rs {
                                    for x in src.at_mut(ci, j).iter_mut() {
                                        *x = rng.sym(1000);
                                    }
                                }
                            }
                            let mut bytes: Vec<u8> = vec![];
                            src.write_to(&mut bytes).map_err(|e| e.to_string())?;
                            // the capacity the writer announces (4th u64 of the header)
                            bytes[24..32].copy_from_slice(&(gu(st, "maxs", rs as u64)).to_le_bytes());
                            vz.read_from(&mut std::io::Cursor::new(&bytes)).map_err(|e| format!("err:{e}"))?;
                        }
                        _ => {
                            let p = st["probe"].as_str().unwrap();
                            match p {
                                "touch" => {
                                    let mut acc = 0i64;
                                    for ci in 0..vz.cols() {
                                        for j in 0..vz.size() {
                                            acc = acc.wrapping_add(vz.at(ci, j).iter().fold(0i64, |a, x| a.wrapping_add(*x)));
                                        }
                                    }
                                    std::hint::black_box(acc);
                                }
                                "fill" => {
                                    for ci in 0..vz.cols() {
                                        for j in 0..vz.size() {
                                            vz.at_mut(ci, j).fill(7);
                                        }
                                    }
                                }
                                _ => {
                                    if vz.n() >= 1 && vz.size() >= 1 {
                                        let m = Module::<BE>::new(vz.n() as u64);
                                        let mut sbuf = ABuf::new(m.vec_znx_normalize_tmp_bytes().max(m.vec_znx_rotate_assign_tmp_bytes()).max(64), id ^ 0x77);
                                        let scratch = <Scratch<BE> as ScratchFromBytes<BE>>::from_bytes(sbuf.win_mut());
                                        for ci in 0..vz.cols() {
                                            match p {
                                                "negate" => m.vec_znx_negate_assign(&mut vz, ci),
                                                "rotate" => m.vec_znx_rotate_assign(3, &mut vz, ci, scratch),
                                                _ => m.vec_znx_normalize_assign(12, &mut vz, ci, scratch),
                                            }
                                        }
                                    }
                                }
                            }
                        }
                    }
                    dims = (vz.n(), vz.cols(), vz.size(), vz.max_size());
                    Ok(())
                });
                let status = match &r {
                    Ok(Ok(())) => "ok".to_string(),
                    Ok(Err(e)) if e.starts_with("err:") => "err".to_string(),
                    Ok(Err(e)) => format!("harness:{e}"),
                    Err(_) => "panic".to_string(),
                };
                if status == "ok" {
                    n = dims.0;
                    cols = dims.1;
                    size = dims.2;
                    maxs = dims.3;
                }
                let canary = buf.unchanged_except(&snap, &[(0, cap)]);
                out.push(json!({"op": op, "status": status, "n": n, "cols": cols, "size": size, "maxs": maxs, "cap": cap, "canary": canary,
                                "msg": match &r { Err(p) => p.chars().take(80).collect::<String>(), Ok(Err(e)) => e.chars().take(80).collect(), _ => String::new() }}));
            }
            out
        }
    };
}

mem_backend!(mem_fft64ref, FFT64Ref);
mem_backend!(mem_fft64avx, FFT64Avx);
mem_backend!(mem_ntt120ref, NTT120Ref);
mem_backend!(mem_ntt120avx, NTT120Avx);

pub fn run_hist(c: &Value) -> Value {
    let outs = match gu(c, "be", 0) {
        0 => mem_fft64ref(c),
        1 => mem_fft64avx(c),
        2 => mem_ntt120ref(c),
        _ => mem_ntt120avx(c),
    };
    let mut e = c.clone();
    e["ev"] = json!("hist");
    e["outs"] = json!(outs);
    e
}

// ---- scratch-arena histories (Arena.tla): takes of boundary sizes from the window, from remainders and from regions
// taken earlier; every granted region is written in full; offsets are logged relative to the 64-byte aligned base
macro_rules! arena_backend {
    ($fname:ident, $BE:ty) => {
        pub fn $fname(c: &Value) -> Vec<Value> {
            type BE = $BE;
            let id = gu(c, "id", 1);
            let (win, boff) = (gu(c, "win", 0) as usize, gu(c, "boff", 0) as usize);
            let hist = c["hist"].as_array().unwrap();
            let mut buf = ABuf::new(boff + win, id ^ 0x91);
            let snap = buf.snapshot();
            let base = buf.win().as_ptr() as usize;
            let mut regions: Vec<(usize, usize)> = vec![(boff, win)];
            let mut out: Vec<Value> = vec![];
            for st in hist.iter() {
                let src = gu(st, "src", 1) as usize - 1;
                let n = gu(st, "n", 0) as usize;
                let kind = st["kind"].as_str().unwrap();
                let (so, sl) = regions[src];
                let r = guarded(|| {
                    // SAFETY (harness): [base + so, + sl) lies inside the ABuf window by construction of `regions`
                    let bytes: &mut [u8] = unsafe { std::slice::from_raw_parts_mut((base + so) as *mut u8, sl) };
                    let scr = <Scratch<BE> as ScratchFromBytes<BE>>::from_bytes(bytes);
                    match kind {
                        "u8" => {
                            let (t, rem) = scr.take_slice::<u8>(n);
                            t.fill(0xA5);
                            ((t.as_ptr() as usize - base, t.len() as i64), (rem.data.as_ptr() as usize - base, rem.data.len()))
                        }
                        "i64" => {
                            let (t, rem) = scr.take_slice::<i64>(n / 8);
                            t.fill(-1);
                            ((t.as_ptr() as usize - base, (t.len() * 8) as i64), (rem.data.as_ptr() as usize - base, rem.data.len()))
                        }
                        "vec" => {
                            let (mut v, rem) = scr.take_vec_znx(1, 1, n / 8);
                            let p0 = v.at(0, 0).as_ptr() as usize;
                            for j in 0..v.size() {
                                v.at_mut(0, j).fill(7);
                            }
                            ((p0 - base, (v.size() * 8) as i64), (rem.data.as_ptr() as usize - base, rem.data.len()))
                        }
                        "split" => {
                            let (t, rem) = scr.split_at_mut(n);
                            t.data.fill(0x5A);
                            ((t.data.as_ptr() as usize - base, t.data.len() as i64), (rem.data.as_ptr() as usize - base, rem.data.len()))
                        }
                        _ => {
                            // an element count whose byte size does not fit the machine word: the returned slice is NOT touched
                            let (t, rem) = scr.take_slice::<i64>((1usize << 61) + n / 8);
                            ((t.as_ptr() as usize - base, -1i64), (rem.data.as_ptr() as usize - base, rem.data.len()))
                        }
                    }
                });
                let canary = buf.unchanged_except(&snap, &[(boff, boff + win)]);
                match r {
                    Ok((t, rem)) => {
                        if t.1 >= 0 {
                            regions.push((t.0, t.1 as usize));
                            regions.push(rem);
                        }
                        out.push(json!({"status": "ok", "taken": [t.0, t.1], "rem": [rem.0, rem.1], "canary": canary, "msg": ""}));
                    }
                    Err(p) => out.push(json!({"status": "panic", "taken": [0, 0], "rem": [0, 0], "canary": canary, "msg": p.chars().take(80).collect::<String>()})),
                }
            }
            out
        }
    };
}
arena_backend!(arena_fft64ref, FFT64Ref);
arena_backend!(arena_fft64avx, FFT64Avx);
arena_backend!(arena_ntt120ref, NTT120Ref);
arena_backend!(arena_ntt120avx, NTT120Avx);

pub fn run_arena(c: &Value) -> Value {
    let outs = match gu(c, "be", 0) {
        0 => arena_fft64ref(c),
        1 => arena_fft64avx(c),
        2 => arena_ntt120ref(c),
        _ => arena_ntt120avx(c),
    };
    let mut e = c.clone();
    e["ev"] = json!("arena");
    e["outs"] = json!(outs);
    e
}
