//! CKKS evaluator (C16): interpreter of straight-line programs over ciphertext registers.  Every step logs the
//! outcome class (ok / err:<variant> / panic), the destination's metadata and storage width, and the base-2
//! logarithm of the largest slot error against the same program run on complex numbers (f64 reference).
use crate::util::{ABuf, Rng, guarded};
use poulpy_ckks::encoding::reim::Encoder;
use poulpy_ckks::layouts::ciphertext::{CKKSCiphertext, CKKSMaintainOps};
use poulpy_ckks::layouts::plaintext::{CKKSPlaintextVecRnx, CKKSPlaintextCstRnx, CKKSConstPlaintextConversion, alloc_pt_vec_znx, CKKSPlaintextConversion};
use poulpy_ckks::leveled::api::*;
use poulpy_ckks::{CKKSCompositionError, CKKSInfos, CKKSMeta};
use poulpy_core::api::*;
use poulpy_core::layouts::prepared::*;
use poulpy_core::layouts::*;
use poulpy_core::EncryptionLayout;
use poulpy_cpu_avx::{FFT64Avx, NTT120Avx};
use poulpy_cpu_ref::{FFT64Ref, NTT120Ref};
use poulpy_hal::api::*;
use poulpy_hal::layouts::*;
use poulpy_hal::source::Source;
use serde_json::{Value, json};
use std::collections::HashMap;

fn gu(c: &Value, k: &str, d: u64) -> u64 {
    c.get(k).and_then(|v| v.as_u64()).unwrap_or(d)
}
type Cx = (Vec<f64>, Vec<f64>);

/// None when the library left the register with metadata its own setter rejects (ld + lb > max_k): the program stops there
fn clone_ct(ct: &CKKSCiphertext<Vec<u8>>) -> Option<CKKSCiphertext<Vec<u8>>> {
    let mut c = CKKSCiphertext::alloc(ct.n(), ct.max_k(), ct.base2k());
    c.data_mut().data.copy_from_slice(&ct.data().data);
    c.set_meta_checked(ct.meta()).ok()?;
    Some(c)
}

fn err_class(e: &anyhow::Error) -> String {
    match e.downcast_ref::<CKKSCompositionError>() {
        Some(CKKSCompositionError::LimbReallocationShrinksBelowMetadata { .. }) => "err:LimbReallocationShrinksBelowMetadata".into(),
        Some(CKKSCompositionError::InsufficientHomomorphicCapacity { .. }) => "err:InsufficientHomomorphicCapacity".into(),
        Some(CKKSCompositionError::PlaintextBase2KMismatch { .. }) => "err:PlaintextBase2KMismatch".into(),
        Some(CKKSCompositionError::MissingAutomorphismKey { .. }) => "err:MissingAutomorphismKey".into(),
        Some(CKKSCompositionError::PlaintextAlignmentImpossible { .. }) => "err:PlaintextAlignmentImpossible".into(),
        Some(CKKSCompositionError::MultiplicationPrecisionUnderflow { .. }) => "err:MultiplicationPrecisionUnderflow".into(),
        None => { let _ = e; "err:other".to_string() }
    }
}

macro_rules! ckks_backend {
    ($fname:ident, $BE:ty) => {
        pub fn $fname(c: &Value, fill: u64) -> Vec<Value> {
            type BE = $BE;
            // C12: with "scr":"exact" every step runs in a canary-guarded window of exactly the bytes its companion query declares,
            // filled with garbage derived from `fill`; the takes are logged (hook H4) and the destination is digested
            let exact = c.get("scr").and_then(|v| v.as_str()) == Some("exact");
            let n = gu(c, "n", 64) as usize;
            let b = gu(c, "b", 19) as u32;
            let kmax = gu(c, "kmax", 152) as u32;
            let m = Module::<BE>::new(n as u64);
            let slots = n / 2;
            let glwe = |k: u32| EncryptionLayout::new_from_default_sigma(GLWELayout { n: Degree(n as u32), base2k: Base2K(b), k: TorusPrecision(k), rank: Rank(1) }).unwrap();
            let kk = kmax + b;
            let tsk_infos = EncryptionLayout::new_from_default_sigma(GLWETensorKeyLayout { n: Degree(n as u32), base2k: Base2K(b), k: TorusPrecision(kk), rank: Rank(1), dnum: Dnum(kk.div_ceil(b)), dsize: Dsize(1) }).unwrap();
            let atk_infos = EncryptionLayout::new_from_default_sigma(GLWEAutomorphismKeyLayout { n: Degree(n as u32), base2k: Base2K(b), k: TorusPrecision(kk), rank: Rank(1), dnum: Dnum(kk.div_ceil(b)), dsize: Dsize(1) }).unwrap();
            let mut xa = Source::new([1u8; 32]);
            let mut xe = Source::new([2u8; 32]);
            let mut sk_raw = GLWESecret::alloc_from_infos(&glwe(kmax));
            sk_raw.fill_ternary_hw(n / 2, &mut Source::new([0u8; 32]));
            let mut sk: GLWESecretPrepared<DeviceBuf<BE>, BE> = m.glwe_secret_prepared_alloc_from_infos(&glwe(kmax));
            m.glwe_secret_prepare(&mut sk, &sk_raw);
            let mut scratch: ScratchOwned<BE> = ScratchOwned::alloc(1 << 24);
            let mut tsk = GLWETensorKey::alloc_from_infos(&tsk_infos);
            m.glwe_tensor_key_encrypt_sk(&mut tsk, &sk_raw, &tsk_infos, &mut xa, &mut xe, scratch.borrow());
            let mut tskp: GLWETensorKeyPrepared<DeviceBuf<BE>, BE> = m.alloc_tensor_key_prepared_from_infos(&tsk_infos);
            m.prepare_tensor_key(&mut tskp, &tsk, scratch.borrow());
            let mut atks: HashMap<i64, GLWEAutomorphismKeyPrepared<DeviceBuf<BE>, BE>> = HashMap::new();
            for &idx in [1i64, 2, -1].iter() {
                let mut atk = GLWEAutomorphismKey::alloc_from_infos(&atk_infos);
                let g = if idx == -1 { -1 } else { m.galois_element(idx) };
                m.glwe_automorphism_key_encrypt_sk(&mut atk, g, &sk_raw, &atk_infos, &mut xa, &mut xe, scratch.borrow());
                let mut p: GLWEAutomorphismKeyPrepared<DeviceBuf<BE>, BE> = m.glwe_automorphism_key_prepared_alloc_from_infos(&atk_infos);
                m.glwe_automorphism_key_prepare(&mut p, &atk, scratch.borrow());
                atks.insert(idx, p);
            }
            let encoder = Encoder::<f64>::new(slots).unwrap();
            // two test vectors on the unit circle (the library's own test vectors)
            let tau = std::f64::consts::TAU;
            let vecs: Vec<Cx> = vec![
                ((0..slots).map(|i| (tau * (i as f64 + 0.25) / slots as f64).cos()).collect(), (0..slots).map(|i| (tau * (i as f64 + 0.25) / slots as f64).sin()).collect()),
                ((0..slots).map(|i| (tau * (5.0 * i as f64 + 3.0) / (2.0 * slots as f64)).cos() * 0.5).collect(), (0..slots).map(|i| (tau * (5.0 * i as f64 + 3.0) / (2.0 * slots as f64)).sin() * 0.5).collect()),
            ];
            let mut regs: Vec<Option<CKKSCiphertext<Vec<u8>>>> = vec![None, None, None, None];
            let mut refs: Vec<Option<Cx>> = vec![None, None, None, None];
            let mut out: Vec<Value> = vec![];
            let steps = c["prog"].as_array().unwrap();
            for st in steps.iter() {
                let op = st["op"].as_str().unwrap().to_string();
                let d = gu(st, "d", 0) as usize;
                let a = gu(st, "a", 0) as usize;
                let bb = gu(st, "b", 0) as usize;
                let bits = gu(st, "bits", 0) as usize;
                let rot = st.get("rot").and_then(|v| v.as_i64()).unwrap_or(1);
                // plaintext operand: precision (pld, pplb), a test vector or a constant of the table below; c = third register (add_many)
                let pprec = CKKSMeta { log_delta: gu(st, "pld", 0) as usize, log_budget: gu(st, "pplb", 0) as usize };
                let pvec = gu(st, "vec", 0) as usize % 2;
                let csts: [(Option<f64>, Option<f64>); 4] = [(Some(0.5), None), (None, Some(-0.75)), (Some(1.25), Some(0.5)), (Some(-1.0), None)];
                let cst = csts[gu(st, "cst", 0) as usize % 4];
                let cc = gu(st, "c", 0) as usize;
                let rc = regs[cc].as_ref().and_then(clone_ct);
                let (fc, fd) = (refs[cc].clone(), refs[d].clone());
                // operands are cloned so that in-place and aliased forms are expressible
                let ra = regs[a].as_ref().and_then(clone_ct);
                let rb = regs[bb].as_ref().and_then(clone_ct);
                // a register left with metadata its own setter rejects (after an Err) is simply not usable as an operand
                let (fa, fb) = (refs[a].clone(), refs[bb].clone());
                let mut newref: Option<Cx> = None;
                // declared scratch of this step (companion query of the operation, on the operands it is about to see)
                let decl: usize = if !exact { 0 } else {
                    let dreg = regs[d].as_ref();
                    let xr = ra.as_ref();
                    let k1 = &atks[&1];
                    match (op.as_str(), dreg, xr) {
                        ("alloc", _, _) | ("compact", _, _) | ("realloc", _, _) => 0,
                        ("enc", _, _) => m.ckks_encrypt_sk_tmp_bytes(&glwe(gu(st, "k", 152) as u32)),
                        (_, None, _) | (_, _, None) => 0,
                        (o, Some(dd), Some(x)) => match o {
                            "add_into" | "add_assign" => m.ckks_add_tmp_bytes(),
                            "sub_into" | "sub_assign" => m.ckks_sub_tmp_bytes(),
                            "neg_into" | "neg_assign" => m.ckks_neg_tmp_bytes(),
                            "mul_pow2_into" | "mul_pow2_assign" => m.ckks_mul_pow2_tmp_bytes(),
                            "div_pow2_into" | "div_pow2_assign" => m.ckks_div_pow2_tmp_bytes(),
                            "rescale_into" | "rescale_assign" => m.ckks_rescale_tmp_bytes(),
                            "align" => m.ckks_align_tmp_bytes(),
                            "conj_into" | "conj_assign" => m.ckks_conjugate_tmp_bytes(dd, &atks[&-1]),
                            "rot_into" | "rot_assign" => m.ckks_rotate_tmp_bytes(dd, k1),
                            "mul_into" | "mul_assign" => m.ckks_mul_tmp_bytes(dd, &tskp),
                            "square_into" | "square_assign" => m.ckks_square_tmp_bytes(dd, &tskp),
                            "add_ptv_into" | "add_ptv_assign" => m.ckks_add_pt_vec_rnx_tmp_bytes(dd, x, &pprec),
                            "sub_ptv_into" | "sub_ptv_assign" => m.ckks_sub_pt_vec_rnx_tmp_bytes(dd, x, &pprec),
                            "add_ptz_into" | "add_ptz_assign" => m.ckks_add_pt_vec_znx_tmp_bytes(),
                            "sub_ptz_into" | "sub_ptz_assign" => m.ckks_sub_pt_vec_znx_tmp_bytes(),
                            "add_ptc_into" | "add_ptc_assign" | "add_ptcz_into" | "add_ptcz_assign" => m.ckks_add_pt_const_tmp_bytes(),
                            "sub_ptc_into" | "sub_ptc_assign" | "sub_ptcz_into" | "sub_ptcz_assign" => m.ckks_sub_pt_const_tmp_bytes(),
                            "mul_ptv_into" | "mul_ptv_assign" => m.ckks_mul_pt_vec_rnx_tmp_bytes(dd, x, &pprec),
                            "mul_ptz_into" | "mul_ptz_assign" => m.ckks_mul_pt_vec_znx_tmp_bytes(dd, x, &pprec),
                            "mul_ptc_into" | "mul_ptc_assign" | "mul_ptcz_into" | "mul_ptcz_assign" => m.ckks_mul_pt_const_tmp_bytes(dd, x, &pprec),
                            "mul_add_ct" => m.ckks_mul_add_ct_tmp_bytes(dd, &tskp),
                            "mul_sub_ct" => m.ckks_mul_sub_ct_tmp_bytes(dd, &tskp),
                            "mul_add_ptv" => m.ckks_mul_add_pt_vec_rnx_tmp_bytes(dd, x, &pprec),
                            "mul_sub_ptv" => m.ckks_mul_sub_pt_vec_rnx_tmp_bytes(dd, x, &pprec),
                            "mul_add_ptz" => m.ckks_mul_add_pt_vec_znx_tmp_bytes(dd, x, &pprec),
                            "mul_sub_ptz" => m.ckks_mul_sub_pt_vec_znx_tmp_bytes(dd, x, &pprec),
                            "mul_add_ptc" | "mul_add_ptcz" => m.ckks_mul_add_pt_const_tmp_bytes(dd, x, &pprec),
                            "mul_sub_ptc" | "mul_sub_ptcz" => m.ckks_mul_sub_pt_const_tmp_bytes(dd, x, &pprec),
                            "add_many" => m.ckks_add_many_tmp_bytes(),
                            "mul_many" => m.ckks_mul_many_tmp_bytes(3, dd, &tskp),
                            "dot_ct" => m.ckks_dot_product_ct_tmp_bytes(2, dd, &tskp),
                            "dot_ptv" => m.ckks_dot_product_pt_vec_rnx_tmp_bytes(dd, x, &pprec),
                            "dot_ptz" => m.ckks_dot_product_pt_vec_znx_tmp_bytes(dd, x, &pprec),
                            "dot_ptc" | "dot_ptcz" => m.ckks_dot_product_pt_const_tmp_bytes(dd, x, &pprec),
                            other => panic!("harness: no size query known for ckks op {other}"),
                        },
                    }
                };
                let mut xbuf = if exact { Some(ABuf::new(decl, fill ^ (out.len() as u64) << 8)) } else { None };
                let xsnap = xbuf.as_ref().map(|b| b.snapshot());
                let xbase = xbuf.as_ref().map(|b| b.win().as_ptr() as usize).unwrap_or(0);
                if exact {
                    poulpy_cpu_ref::hal_defaults::scratch::verif_scratch_trace::start();
                }
                let r = guarded(|| -> anyhow::Result<()> {
                    let mut scratch: ScratchOwned<BE> = ScratchOwned::alloc(if exact { 64 } else { 1 << 24 });
                    let sref: &mut Scratch<BE> = match xbuf.as_mut() {
                        Some(bf) => <Scratch<BE> as ScratchFromBytes<BE>>::from_bytes(bf.win_mut()),
                        None => scratch.borrow(),
                    };
                    match op.as_str() {
                        "alloc" => {
                            regs[d] = Some(CKKSCiphertext::alloc(Degree(n as u32), TorusPrecision(gu(st, "k", 152) as u32), Base2K(b)));
                            Ok(())
                        }
                        "enc" => {
                            let k = gu(st, "k", 152) as u32;
                            let prec = CKKSMeta { log_delta: gu(st, "ld", 30) as usize, log_budget: gu(st, "plb", 10) as usize };
                            let v = &vecs[gu(st, "vec", 0) as usize];
                            let mut pt_rnx = CKKSPlaintextVecRnx::<f64>::alloc(n).unwrap();
                            encoder.encode_reim(&mut pt_rnx, &v.0, &v.1)?;
                            let mut pt_znx = alloc_pt_vec_znx(Degree(n as u32), Base2K(b), prec);
                            pt_rnx.to_znx(&mut pt_znx)?;
                            let mut ct = CKKSCiphertext::alloc(Degree(n as u32), TorusPrecision(k), Base2K(b));
                            let id = gu(c, "id", 1);
                            m.ckks_encrypt_sk(&mut ct, &pt_znx, &sk, &glwe(k), &mut Source::new([(3 + id % 7) as u8; 32]), &mut Source::new([(4 + id % 5) as u8; 32]), sref)?;
                            regs[d] = Some(ct);
                            newref = Some(v.clone());
                            Ok(())
                        }
                        _ => {
                            let x = ra.as_ref().expect("harness: operand a not allocated");
                            let va = fa.clone();
                            let dst_is_a = d == a;
                            macro_rules! into {
                                ($call:expr) => {{
                                    let mut dst = regs[d].take().expect("harness: destination not allocated");
                                    let r: anyhow::Result<()> = $call(&mut dst);
                                    regs[d] = Some(dst);
                                    r
                                }};
                            }
                            let un = |f: &dyn Fn(f64, f64) -> (f64, f64)| -> Option<Cx> {
                                va.as_ref().map(|v| { let p: Vec<(f64, f64)> = v.0.iter().zip(v.1.iter()).map(|(r, i)| f(*r, *i)).collect(); (p.iter().map(|t| t.0).collect(), p.iter().map(|t| t.1).collect()) })
                            };
                            let bin = |f: &dyn Fn((f64, f64), (f64, f64)) -> (f64, f64)| -> Option<Cx> {
                                match (va.as_ref(), fb.as_ref()) {
                                    (Some(v), Some(w)) => { let p: Vec<(f64, f64)> = (0..v.0.len()).map(|i| f((v.0[i], v.1[i]), (w.0[i], w.1[i]))).collect(); Some((p.iter().map(|t| t.0).collect(), p.iter().map(|t| t.1).collect())) }
                                    _ => None,
                                }
                            };
                            let y = rb.as_ref();
                            let _ = dst_is_a;
                            match op.as_str() {
                                "add_into" => { newref = bin(&|p, q| (p.0 + q.0, p.1 + q.1)); into!(|dst: &mut CKKSCiphertext<Vec<u8>>| m.ckks_add_into(dst, x, y.unwrap(), sref)) }
                                "sub_into" => { newref = bin(&|p, q| (p.0 - q.0, p.1 - q.1)); into!(|dst: &mut CKKSCiphertext<Vec<u8>>| m.ckks_sub_into(dst, x, y.unwrap(), sref)) }
                                // assign forms: d is the left operand (register a == d in the program), b the right one
                                "add_assign" => { newref = bin(&|p, q| (p.0 + q.0, p.1 + q.1)); into!(|dst: &mut CKKSCiphertext<Vec<u8>>| m.ckks_add_assign(dst, y.unwrap(), sref)) }
                                "sub_assign" => { newref = bin(&|p, q| (p.0 - q.0, p.1 - q.1)); into!(|dst: &mut CKKSCiphertext<Vec<u8>>| m.ckks_sub_assign(dst, y.unwrap(), sref)) }
                                "neg_into" => { newref = un(&|r, i| (-r, -i)); into!(|dst: &mut CKKSCiphertext<Vec<u8>>| m.ckks_neg_into(dst, x, sref)) }
                                "neg_assign" => { newref = un(&|r, i| (-r, -i)); into!(|dst: &mut CKKSCiphertext<Vec<u8>>| m.ckks_neg_assign(dst)) }
                                "mul_into" => { newref = bin(&|p, q| (p.0 * q.0 - p.1 * q.1, p.0 * q.1 + p.1 * q.0)); into!(|dst: &mut CKKSCiphertext<Vec<u8>>| m.ckks_mul_into(dst, x, y.unwrap(), &tskp, sref)) }
                                "mul_assign" => { newref = bin(&|p, q| (p.0 * q.0 - p.1 * q.1, p.0 * q.1 + p.1 * q.0)); into!(|dst: &mut CKKSCiphertext<Vec<u8>>| m.ckks_mul_assign(dst, y.unwrap(), &tskp, sref)) }
                                "square_into" => { newref = un(&|r, i| (r * r - i * i, 2.0 * r * i)); into!(|dst: &mut CKKSCiphertext<Vec<u8>>| m.ckks_square_into(dst, x, &tskp, sref)) }
                                "square_assign" => { newref = un(&|r, i| (r * r - i * i, 2.0 * r * i)); into!(|dst: &mut CKKSCiphertext<Vec<u8>>| m.ckks_square_assign(dst, &tskp, sref)) }
                                "mul_pow2_into" => { let s = (1u64 << bits) as f64; newref = un(&|r, i| (r * s, i * s)); into!(|dst: &mut CKKSCiphertext<Vec<u8>>| m.ckks_mul_pow2_into(dst, x, bits, sref)) }
                                "mul_pow2_assign" => { let s = (1u64 << bits) as f64; newref = un(&|r, i| (r * s, i * s)); into!(|dst: &mut CKKSCiphertext<Vec<u8>>| m.ckks_mul_pow2_assign(dst, bits, sref)) }
                                "div_pow2_into" => { let s = (1u64 << bits) as f64; newref = un(&|r, i| (r / s, i / s)); into!(|dst: &mut CKKSCiphertext<Vec<u8>>| m.ckks_div_pow2_into(dst, x, bits, sref)) }
                                "div_pow2_assign" => { let s = (1u64 << bits) as f64; newref = un(&|r, i| (r / s, i / s)); into!(|dst: &mut CKKSCiphertext<Vec<u8>>| m.ckks_div_pow2_assign(dst, bits)) }
                                "rescale_into" => { newref = un(&|r, i| (r, i)); into!(|dst: &mut CKKSCiphertext<Vec<u8>>| m.ckks_rescale_into(dst, bits, x, sref)) }
                                "rescale_assign" => { newref = un(&|r, i| (r, i)); into!(|dst: &mut CKKSCiphertext<Vec<u8>>| m.ckks_rescale_assign(dst, bits, sref)) }
                                "conj_into" => { newref = un(&|r, i| (r, -i)); into!(|dst: &mut CKKSCiphertext<Vec<u8>>| m.ckks_conjugate_into(dst, x, &atks[&-1], sref)) }
                                "conj_assign" => { newref = un(&|r, i| (r, -i)); into!(|dst: &mut CKKSCiphertext<Vec<u8>>| m.ckks_conjugate_assign(dst, &atks[&-1], sref)) }
                                "rot_into" | "rot_assign" => {
                                    newref = va.as_ref().map(|v| { let s = v.0.len(); let k = rot.rem_euclid(s as i64) as usize; ((0..s).map(|i| v.0[(i + k) % s]).collect(), (0..s).map(|i| v.1[(i + k) % s]).collect()) });
                                    if op == "rot_into" { into!(|dst: &mut CKKSCiphertext<Vec<u8>>| m.ckks_rotate_into(dst, x, rot, &atks, sref)) } else { into!(|dst: &mut CKKSCiphertext<Vec<u8>>| m.ckks_rotate_assign(dst, rot, &atks, sref)) }
                                }
                                "add_ptv_into" | "sub_ptv_into" | "add_ptv_assign" | "sub_ptv_assign" | "mul_ptv_into" | "mul_ptv_assign" | "mul_add_ptv" | "mul_sub_ptv" => {
                                    let w = &vecs[pvec];
                                    let mut pt_rnx = CKKSPlaintextVecRnx::<f64>::alloc(n).unwrap();
                                    encoder.encode_reim(&mut pt_rnx, &w.0, &w.1)?;
                                    let src = if op.ends_with("_assign") || op.starts_with("mul_add") || op.starts_with("mul_sub") { if op.ends_with("_assign") { fd.clone() } else { va.clone() } } else { va.clone() };
                                    let comb = |f: &dyn Fn((f64, f64), (f64, f64)) -> (f64, f64), v: &Option<Cx>| -> Option<Cx> {
                                        v.as_ref().map(|v| { let p: Vec<(f64, f64)> = (0..v.0.len()).map(|i| f((v.0[i], v.1[i]), (w.0[i], w.1[i]))).collect(); (p.iter().map(|t| t.0).collect(), p.iter().map(|t| t.1).collect()) })
                                    };
                                    let cmul = |p: (f64, f64), q: (f64, f64)| (p.0 * q.0 - p.1 * q.1, p.0 * q.1 + p.1 * q.0);
                                    match op.as_str() {
                                        "add_ptv_into" => { newref = comb(&|p, q| (p.0 + q.0, p.1 + q.1), &src); into!(|dst: &mut CKKSCiphertext<Vec<u8>>| m.ckks_add_pt_vec_rnx_into(dst, x, &pt_rnx, pprec, sref)) }
                                        "sub_ptv_into" => { newref = comb(&|p, q| (p.0 - q.0, p.1 - q.1), &src); into!(|dst: &mut CKKSCiphertext<Vec<u8>>| m.ckks_sub_pt_vec_rnx_into(dst, x, &pt_rnx, pprec, sref)) }
                                        "add_ptv_assign" => { newref = comb(&|p, q| (p.0 + q.0, p.1 + q.1), &src); into!(|dst: &mut CKKSCiphertext<Vec<u8>>| m.ckks_add_pt_vec_rnx_assign(dst, &pt_rnx, pprec, sref)) }
                                        "sub_ptv_assign" => { newref = comb(&|p, q| (p.0 - q.0, p.1 - q.1), &src); into!(|dst: &mut CKKSCiphertext<Vec<u8>>| m.ckks_sub_pt_vec_rnx_assign(dst, &pt_rnx, pprec, sref)) }
                                        "mul_ptv_into" => { newref = comb(&cmul, &src); into!(|dst: &mut CKKSCiphertext<Vec<u8>>| m.ckks_mul_pt_vec_rnx_into(dst, x, &pt_rnx, pprec, sref)) }
                                        "mul_ptv_assign" => { newref = comb(&cmul, &src); into!(|dst: &mut CKKSCiphertext<Vec<u8>>| m.ckks_mul_pt_vec_rnx_assign(dst, &pt_rnx, pprec, sref)) }
                                        _ => {
                                            // dst (+-)= a * pt
                                            let prod = comb(&cmul, &va);
                                            let sgn = if op == "mul_add_ptv" { 1.0 } else { -1.0 };
                                            newref = match (fd.as_ref(), prod.as_ref()) { (Some(dv), Some(pv)) => Some(((0..dv.0.len()).map(|i| dv.0[i] + sgn * pv.0[i]).collect(), (0..dv.0.len()).map(|i| dv.1[i] + sgn * pv.1[i]).collect())), _ => None };
                                            if op == "mul_add_ptv" { into!(|dst: &mut CKKSCiphertext<Vec<u8>>| m.ckks_mul_add_pt_vec_rnx_into(dst, x, &pt_rnx, pprec, sref)) } else { into!(|dst: &mut CKKSCiphertext<Vec<u8>>| m.ckks_mul_sub_pt_vec_rnx_into(dst, x, &pt_rnx, pprec, sref)) }
                                        }
                                    }
                                }
                                "add_ptz_into" | "sub_ptz_into" | "add_ptz_assign" | "sub_ptz_assign" | "mul_ptz_into" | "mul_ptz_assign" | "mul_add_ptz" | "mul_sub_ptz" => {
                                    // the plaintext is converted to limb form in its OWN radix pb first
                                    let pb = gu(st, "pb", b as u64) as u32;
                                    let w = &vecs[pvec];
                                    let mut pt_rnx = CKKSPlaintextVecRnx::<f64>::alloc(n).unwrap();
                                    encoder.encode_reim(&mut pt_rnx, &w.0, &w.1)?;
                                    let mut pt_znx = alloc_pt_vec_znx(Degree(n as u32), Base2K(pb), pprec);
                                    pt_rnx.to_znx(&mut pt_znx)?;
                                    let src = if op.ends_with("_assign") { fd.clone() } else { va.clone() };
                                    let comb = |f: &dyn Fn((f64, f64), (f64, f64)) -> (f64, f64), v: &Option<Cx>| -> Option<Cx> {
                                        v.as_ref().map(|v| { let p: Vec<(f64, f64)> = (0..v.0.len()).map(|i| f((v.0[i], v.1[i]), (w.0[i], w.1[i]))).collect(); (p.iter().map(|t| t.0).collect(), p.iter().map(|t| t.1).collect()) })
                                    };
                                    match op.as_str() {
                                        "add_ptz_into" => { newref = comb(&|p, q| (p.0 + q.0, p.1 + q.1), &src); into!(|dst: &mut CKKSCiphertext<Vec<u8>>| m.ckks_add_pt_vec_znx_into(dst, x, &pt_znx, sref)) }
                                        "sub_ptz_into" => { newref = comb(&|p, q| (p.0 - q.0, p.1 - q.1), &src); into!(|dst: &mut CKKSCiphertext<Vec<u8>>| m.ckks_sub_pt_vec_znx_into(dst, x, &pt_znx, sref)) }
                                        "add_ptz_assign" => { newref = comb(&|p, q| (p.0 + q.0, p.1 + q.1), &src); into!(|dst: &mut CKKSCiphertext<Vec<u8>>| m.ckks_add_pt_vec_znx_assign(dst, &pt_znx, sref)) }
                                        "sub_ptz_assign" => { newref = comb(&|p, q| (p.0 - q.0, p.1 - q.1), &src); into!(|dst: &mut CKKSCiphertext<Vec<u8>>| m.ckks_sub_pt_vec_znx_assign(dst, &pt_znx, sref)) }
                                        "mul_ptz_into" => { newref = comb(&|p, q| (p.0 * q.0 - p.1 * q.1, p.0 * q.1 + p.1 * q.0), &src); into!(|dst: &mut CKKSCiphertext<Vec<u8>>| m.ckks_mul_pt_vec_znx_into(dst, x, &pt_znx, sref)) }
                                        "mul_ptz_assign" => { newref = comb(&|p, q| (p.0 * q.0 - p.1 * q.1, p.0 * q.1 + p.1 * q.0), &src); into!(|dst: &mut CKKSCiphertext<Vec<u8>>| m.ckks_mul_pt_vec_znx_assign(dst, &pt_znx, sref)) }
                                        _ => {
                                            // dst (+-)= a * pt (limb form)
                                            let prod = comb(&|p, q| (p.0 * q.0 - p.1 * q.1, p.0 * q.1 + p.1 * q.0), &va);
                                            let sgn = if op == "mul_add_ptz" { 1.0 } else { -1.0 };
                                            newref = match (fd.as_ref(), prod.as_ref()) { (Some(dv), Some(pv)) => Some(((0..dv.0.len()).map(|i| dv.0[i] + sgn * pv.0[i]).collect(), (0..dv.0.len()).map(|i| dv.1[i] + sgn * pv.1[i]).collect())), _ => None };
                                            if op == "mul_add_ptz" { into!(|dst: &mut CKKSCiphertext<Vec<u8>>| m.ckks_mul_add_pt_vec_znx_into(dst, x, &pt_znx, sref)) } else { into!(|dst: &mut CKKSCiphertext<Vec<u8>>| m.ckks_mul_sub_pt_vec_znx_into(dst, x, &pt_znx, sref)) }
                                        }
                                    }
                                }
                                "add_ptc_into" | "sub_ptc_into" | "add_ptc_assign" | "sub_ptc_assign" | "mul_ptc_into" | "mul_ptc_assign" | "mul_add_ptc" | "mul_sub_ptc" => {
                                    let cr = CKKSPlaintextCstRnx::<f64>::new(cst.0, cst.1);
                                    let w = (cst.0.unwrap_or(0.0), cst.1.unwrap_or(0.0));
                                    let src = if op.ends_with("_assign") { fd.clone() } else { va.clone() };
                                    let comb = |f: &dyn Fn((f64, f64), (f64, f64)) -> (f64, f64), v: &Option<Cx>| -> Option<Cx> {
                                        v.as_ref().map(|v| { let p: Vec<(f64, f64)> = (0..v.0.len()).map(|i| f((v.0[i], v.1[i]), w)).collect(); (p.iter().map(|t| t.0).collect(), p.iter().map(|t| t.1).collect()) })
                                    };
                                    let cmul = |p: (f64, f64), q: (f64, f64)| (p.0 * q.0 - p.1 * q.1, p.0 * q.1 + p.1 * q.0);
                                    match op.as_str() {
                                        "add_ptc_into" => { newref = comb(&|p, q| (p.0 + q.0, p.1 + q.1), &src); into!(|dst: &mut CKKSCiphertext<Vec<u8>>| m.ckks_add_pt_const_rnx_into(dst, x, &cr, pprec, sref)) }
                                        "sub_ptc_into" => { newref = comb(&|p, q| (p.0 - q.0, p.1 - q.1), &src); into!(|dst: &mut CKKSCiphertext<Vec<u8>>| m.ckks_sub_pt_const_rnx_into(dst, x, &cr, pprec, sref)) }
                                        "add_ptc_assign" => { newref = comb(&|p, q| (p.0 + q.0, p.1 + q.1), &src); into!(|dst: &mut CKKSCiphertext<Vec<u8>>| m.ckks_add_pt_const_rnx_assign(dst, &cr, pprec, sref)) }
                                        "sub_ptc_assign" => { newref = comb(&|p, q| (p.0 - q.0, p.1 - q.1), &src); into!(|dst: &mut CKKSCiphertext<Vec<u8>>| m.ckks_sub_pt_const_rnx_assign(dst, &cr, pprec, sref)) }
                                        "mul_ptc_into" => { newref = comb(&cmul, &src); into!(|dst: &mut CKKSCiphertext<Vec<u8>>| m.ckks_mul_pt_const_rnx_into(dst, x, &cr, pprec, sref)) }
                                        "mul_ptc_assign" => { newref = comb(&cmul, &src); into!(|dst: &mut CKKSCiphertext<Vec<u8>>| m.ckks_mul_pt_const_rnx_assign(dst, &cr, pprec, sref)) }
                                        _ => {
                                            let prod = comb(&cmul, &va);
                                            let sgn = if op == "mul_add_ptc" { 1.0 } else { -1.0 };
                                            newref = match (fd.as_ref(), prod.as_ref()) { (Some(dv), Some(pv)) => Some(((0..dv.0.len()).map(|i| dv.0[i] + sgn * pv.0[i]).collect(), (0..dv.0.len()).map(|i| dv.1[i] + sgn * pv.1[i]).collect())), _ => None };
                                            if op == "mul_add_ptc" { into!(|dst: &mut CKKSCiphertext<Vec<u8>>| m.ckks_mul_add_pt_const_rnx_into(dst, x, &cr, pprec, sref)) } else { into!(|dst: &mut CKKSCiphertext<Vec<u8>>| m.ckks_mul_sub_pt_const_rnx_into(dst, x, &cr, pprec, sref)) }
                                        }
                                    }
                                }
                                "add_ptcz_into" | "sub_ptcz_into" | "add_ptcz_assign" | "sub_ptcz_assign" | "mul_ptcz_into" | "mul_ptcz_assign" | "mul_add_ptcz" | "mul_sub_ptcz" => {
                                    // constants given in limb form: for add / sub the digits go straight into the body, so the caller encodes them
                                    // at the destination's budget after the move (kz = 1: one limb above it, which the library must refuse);
                                    // for products the natural encoding of the precision is used
                                    let cr = CKKSPlaintextCstRnx::<f64>::new(cst.0, cst.1);
                                    let w = (cst.0.unwrap_or(0.0), cst.1.unwrap_or(0.0));
                                    let kz = gu(st, "kz", 0) as usize;
                                    let dmaxk = regs[d].as_ref().map(|r| r.max_k().0 as usize).unwrap_or(0);
                                    let addsub = op.starts_with("add_") || op.starts_with("sub_");
                                    let off = if op.ends_with("_into") { (x.log_delta() + x.log_budget()).saturating_sub(dmaxk) } else { 0 };
                                    let lb1 = x.log_budget().saturating_sub(off);
                                    let cz = if addsub { cr.to_znx_at_k(Base2K(b), lb1 + pprec.log_delta + kz * b as usize, pprec.log_delta)? } else { cr.to_znx(Base2K(b), pprec)? };
                                    let src = if op.ends_with("_assign") { fd.clone() } else { va.clone() };
                                    let comb = |f: &dyn Fn((f64, f64), (f64, f64)) -> (f64, f64), v: &Option<Cx>| -> Option<Cx> {
                                        v.as_ref().map(|v| { let p: Vec<(f64, f64)> = (0..v.0.len()).map(|i| f((v.0[i], v.1[i]), w)).collect(); (p.iter().map(|t| t.0).collect(), p.iter().map(|t| t.1).collect()) })
                                    };
                                    let cmul = |p: (f64, f64), q: (f64, f64)| (p.0 * q.0 - p.1 * q.1, p.0 * q.1 + p.1 * q.0);
                                    match op.as_str() {
                                        "add_ptcz_into" => { newref = comb(&|p, q| (p.0 + q.0, p.1 + q.1), &src); into!(|dst: &mut CKKSCiphertext<Vec<u8>>| m.ckks_add_pt_const_znx_into(dst, x, &cz, sref)) }
                                        "sub_ptcz_into" => { newref = comb(&|p, q| (p.0 - q.0, p.1 - q.1), &src); into!(|dst: &mut CKKSCiphertext<Vec<u8>>| m.ckks_sub_pt_const_znx_into(dst, x, &cz, sref)) }
                                        "add_ptcz_assign" => { newref = comb(&|p, q| (p.0 + q.0, p.1 + q.1), &src); into!(|dst: &mut CKKSCiphertext<Vec<u8>>| m.ckks_add_pt_const_znx_assign(dst, &cz, sref)) }
                                        "sub_ptcz_assign" => { newref = comb(&|p, q| (p.0 - q.0, p.1 - q.1), &src); into!(|dst: &mut CKKSCiphertext<Vec<u8>>| m.ckks_sub_pt_const_znx_assign(dst, &cz, sref)) }
                                        "mul_ptcz_into" => { newref = comb(&cmul, &src); into!(|dst: &mut CKKSCiphertext<Vec<u8>>| m.ckks_mul_pt_const_znx_into(dst, x, &cz, sref)) }
                                        "mul_ptcz_assign" => { newref = comb(&cmul, &src); into!(|dst: &mut CKKSCiphertext<Vec<u8>>| m.ckks_mul_pt_const_znx_assign(dst, &cz, sref)) }
                                        _ => {
                                            let prod = comb(&cmul, &va);
                                            let sgn = if op == "mul_add_ptcz" { 1.0 } else { -1.0 };
                                            newref = match (fd.as_ref(), prod.as_ref()) { (Some(dv), Some(pv)) => Some(((0..dv.0.len()).map(|i| dv.0[i] + sgn * pv.0[i]).collect(), (0..dv.0.len()).map(|i| dv.1[i] + sgn * pv.1[i]).collect())), _ => None };
                                            if op == "mul_add_ptcz" { into!(|dst: &mut CKKSCiphertext<Vec<u8>>| m.ckks_mul_add_pt_const_znx_into(dst, x, &cz, sref)) } else { into!(|dst: &mut CKKSCiphertext<Vec<u8>>| m.ckks_mul_sub_pt_const_znx_into(dst, x, &cz, sref)) }
                                        }
                                    }
                                }
                                "dot_ptv" | "dot_ptz" | "dot_ptc" | "dot_ptcz" => {
                                    // <(a, c), (w0, w1)> with plaintext weights: test vectors (rnx / limb form) or constants (rnx / limb form); bits = terms
                                    let cmul = |p: (f64, f64), q: (f64, f64)| (p.0 * q.0 - p.1 * q.1, p.0 * q.1 + p.1 * q.0);
                                    let terms = bits.clamp(1, 2);
                                    let z = rc.as_ref();
                                    let cts: Vec<&CKKSCiphertext<Vec<u8>>> = if terms == 2 { vec![x, z.unwrap()] } else { vec![x] };
                                    let isc = op == "dot_ptc" || op == "dot_ptcz";
                                    let c0 = cst;
                                    let c1 = csts[(gu(st, "cst", 0) as usize + 1) % 4];
                                    let wv = |k: usize, i: usize| -> (f64, f64) {
                                        if isc { let c = if k == 0 { c0 } else { c1 }; (c.0.unwrap_or(0.0), c.1.unwrap_or(0.0)) } else { let v = &vecs[(pvec + k) % 2]; (v.0[i], v.1[i]) }
                                    };
                                    newref = match (va.as_ref(), if terms == 2 { fc.as_ref() } else { va.as_ref() }) {
                                        (Some(a0), Some(a1)) => {
                                            let v: Vec<(f64, f64)> = (0..a0.0.len()).map(|i| { let p = cmul((a0.0[i], a0.1[i]), wv(0, i)); if terms == 2 { let q = cmul((a1.0[i], a1.1[i]), wv(1, i)); (p.0 + q.0, p.1 + q.1) } else { p } }).collect();
                                            Some((v.iter().map(|t| t.0).collect(), v.iter().map(|t| t.1).collect()))
                                        }
                                        _ => None,
                                    };
                                    if isc {
                                        let r0 = CKKSPlaintextCstRnx::<f64>::new(c0.0, c0.1);
                                        let r1 = CKKSPlaintextCstRnx::<f64>::new(c1.0, c1.1);
                                        if op == "dot_ptc" {
                                            let ws: Vec<&CKKSPlaintextCstRnx<f64>> = if terms == 2 { vec![&r0, &r1] } else { vec![&r0] };
                                            into!(|dst: &mut CKKSCiphertext<Vec<u8>>| m.ckks_dot_product_pt_const_rnx(dst, &cts, &ws, pprec, sref))
                                        } else {
                                            let (z0, z1) = (r0.to_znx(Base2K(b), pprec)?, r1.to_znx(Base2K(b), pprec)?);
                                            let ws = if terms == 2 { vec![&z0, &z1] } else { vec![&z0] };
                                            into!(|dst: &mut CKKSCiphertext<Vec<u8>>| m.ckks_dot_product_pt_const_znx(dst, &cts, &ws, sref))
                                        }
                                    } else {
                                        let mut p0 = CKKSPlaintextVecRnx::<f64>::alloc(n).unwrap();
                                        let mut p1 = CKKSPlaintextVecRnx::<f64>::alloc(n).unwrap();
                                        encoder.encode_reim(&mut p0, &vecs[pvec].0, &vecs[pvec].1)?;
                                        encoder.encode_reim(&mut p1, &vecs[(pvec + 1) % 2].0, &vecs[(pvec + 1) % 2].1)?;
                                        if op == "dot_ptv" {
                                            let ws: Vec<&CKKSPlaintextVecRnx<f64>> = if terms == 2 { vec![&p0, &p1] } else { vec![&p0] };
                                            into!(|dst: &mut CKKSCiphertext<Vec<u8>>| m.ckks_dot_product_pt_vec_rnx(dst, &cts, &ws, pprec, sref))
                                        } else {
                                            let pb = gu(st, "pb", b as u64) as u32;
                                            let mut z0 = alloc_pt_vec_znx(Degree(n as u32), Base2K(pb), pprec);
                                            let mut z1 = alloc_pt_vec_znx(Degree(n as u32), Base2K(pb), pprec);
                                            p0.to_znx(&mut z0)?;
                                            p1.to_znx(&mut z1)?;
                                            let ws = if terms == 2 { vec![&z0, &z1] } else { vec![&z0] };
                                            into!(|dst: &mut CKKSCiphertext<Vec<u8>>| m.ckks_dot_product_pt_vec_znx(dst, &cts, &ws, sref))
                                        }
                                    }
                                }
                                "align" => {
                                    // brings registers a and b to the same budget by rescaling the one that has more; d names the register observed
                                    // (the one the specification expects to change); the other one must come back bit for bit
                                    let other = if d == a { bb } else { a };
                                    let before = if other == a { ra.as_ref().map(|r| (r.data().data.clone(), r.meta())) } else { rb.as_ref().map(|r| (r.data().data.clone(), r.meta())) };
                                    let mut ta = regs[a].take().expect("harness: operand a not allocated");
                                    let mut tb = regs[bb].take().expect("harness: operand b not allocated");
                                    let r = m.ckks_align_assign(&mut ta, &mut tb, sref);
                                    regs[a] = Some(ta);
                                    regs[bb] = Some(tb);
                                    newref = fd.clone();
                                    let after = regs[other].as_ref().map(|r| (r.data().data.clone(), r.meta()));
                                    if r.is_ok() && before != after {
                                        anyhow::bail!("align changed the operand that already had the smaller budget")
                                    }
                                    r
                                }
                                "mul_add_ct" | "mul_sub_ct" => {
                                    let prod = bin(&|p, q| (p.0 * q.0 - p.1 * q.1, p.0 * q.1 + p.1 * q.0));
                                    let sgn = if op == "mul_add_ct" { 1.0 } else { -1.0 };
                                    newref = match (fd.as_ref(), prod.as_ref()) { (Some(dv), Some(pv)) => Some(((0..dv.0.len()).map(|i| dv.0[i] + sgn * pv.0[i]).collect(), (0..dv.0.len()).map(|i| dv.1[i] + sgn * pv.1[i]).collect())), _ => None };
                                    if op == "mul_add_ct" { into!(|dst: &mut CKKSCiphertext<Vec<u8>>| m.ckks_mul_add_ct_into(dst, x, y.unwrap(), &tskp, sref)) } else { into!(|dst: &mut CKKSCiphertext<Vec<u8>>| m.ckks_mul_sub_ct_into(dst, x, y.unwrap(), &tskp, sref)) }
                                }
                                "dot_ct" | "mul_many" => {
                                    let cmul = |p: (f64, f64), q: (f64, f64)| (p.0 * q.0 - p.1 * q.1, p.0 * q.1 + p.1 * q.0);
                                    let re = regs[bits.min(3)].as_ref().and_then(clone_ct);
                                    let fe = refs[bits.min(3)].clone();
                                    let z = rc.as_ref().unwrap();
                                    if op == "dot_ct" {
                                        let e2 = re.as_ref().unwrap();
                                        newref = match (va.as_ref(), fb.as_ref(), fc.as_ref(), fe.as_ref()) {
                                            (Some(a), Some(b), Some(c), Some(e)) => { let v: Vec<(f64, f64)> = (0..a.0.len()).map(|i| { let p = cmul((a.0[i], a.1[i]), (b.0[i], b.1[i])); let q = cmul((c.0[i], c.1[i]), (e.0[i], e.1[i])); (p.0 + q.0, p.1 + q.1) }).collect(); Some((v.iter().map(|t| t.0).collect(), v.iter().map(|t| t.1).collect())) }
                                            _ => None,
                                        };
                                        into!(|dst: &mut CKKSCiphertext<Vec<u8>>| m.ckks_dot_product_ct(dst, &[x, z], &[y.unwrap(), e2], &tskp, sref))
                                    } else {
                                        newref = match (va.as_ref(), fb.as_ref(), fc.as_ref()) {
                                            (Some(a), Some(b), Some(c)) => { let v: Vec<(f64, f64)> = (0..a.0.len()).map(|i| cmul(cmul((a.0[i], a.1[i]), (b.0[i], b.1[i])), (c.0[i], c.1[i]))).collect(); Some((v.iter().map(|t| t.0).collect(), v.iter().map(|t| t.1).collect())) }
                                            _ => None,
                                        };
                                        into!(|dst: &mut CKKSCiphertext<Vec<u8>>| m.ckks_mul_many(dst, &[x, y.unwrap(), z], &tskp, sref))
                                    }
                                }
                                "add_many" => {
                                    let mut ins: Vec<&CKKSCiphertext<Vec<u8>>> = vec![x];
                                    let mut sum = va.clone();
                                    let addv = |s: Option<Cx>, w: &Option<Cx>| -> Option<Cx> { match (s, w.as_ref()) { (Some(s), Some(w)) => Some(((0..s.0.len()).map(|i| s.0[i] + w.0[i]).collect(), (0..s.0.len()).map(|i| s.1[i] + w.1[i]).collect())), _ => None } };
                                    if bits >= 2 { ins.push(y.unwrap()); sum = addv(sum, &fb); }
                                    if bits >= 3 { ins.push(rc.as_ref().unwrap()); sum = addv(sum, &fc); }
                                    newref = sum;
                                    into!(|dst: &mut CKKSCiphertext<Vec<u8>>| m.ckks_add_many(dst, &ins, sref))
                                }
                                "compact" => { newref = un(&|r, i| (r, i)); into!(|dst: &mut CKKSCiphertext<Vec<u8>>| m.ckks_compact_limbs(dst)) }
                                "realloc" => { newref = un(&|r, i| (r, i)); into!(|dst: &mut CKKSCiphertext<Vec<u8>>| m.ckks_reallocate_limbs_checked(dst, bits)) }
                                other => panic!("harness: unknown ckks op {other}"),
                            }
                        }
                    }
                });
                let call = if exact {
                    let takes = poulpy_cpu_ref::hal_defaults::scratch::verif_scratch_trace::stop();
                    let canary = xbuf.as_ref().unwrap().unchanged_except(xsnap.as_ref().unwrap(), &[(0, decl)]);
                    let tj: Vec<Value> = takes.iter().map(|&(a, l, t)| json!([a as i64 - xbase as i64, l, t])).collect();
                    // "the maximum over a set of operations serves all of them": what ckks_all_ops_with_atk_tmp_bytes returns for the
                    // largest ciphertext layout among the registers (re-allocation can exceed the program's kmax) and this step's plaintext precision (-1: the operation is not in its set)
                    let covered = matches!(op.as_str(), "enc" | "add_into" | "add_assign" | "sub_into" | "sub_assign" | "neg_into" | "neg_assign" | "mul_pow2_into" | "mul_pow2_assign"
                        | "div_pow2_into" | "div_pow2_assign" | "rescale_into" | "rescale_assign" | "align" | "mul_into" | "mul_assign" | "square_into" | "square_assign"
                        | "add_ptz_into" | "add_ptz_assign" | "sub_ptz_into" | "sub_ptz_assign" | "add_ptv_into" | "add_ptv_assign" | "sub_ptv_into" | "sub_ptv_assign"
                        | "add_ptc_into" | "add_ptc_assign" | "sub_ptc_into" | "sub_ptc_assign" | "add_ptcz_into" | "add_ptcz_assign" | "sub_ptcz_into" | "sub_ptcz_assign"
                        | "mul_ptz_into" | "mul_ptz_assign" | "mul_ptv_into" | "mul_ptv_assign" | "mul_ptc_into" | "mul_ptc_assign" | "mul_ptcz_into" | "mul_ptcz_assign"
                        | "rot_into" | "rot_assign" | "conj_into" | "conj_assign");
                    let all: i64 = if covered { m.ckks_all_ops_with_atk_tmp_bytes(&glwe(kmax.max(regs.iter().flatten().map(|r| r.max_k().0).max().unwrap_or(0))), &tsk_infos, &atk_infos, &pprec) as i64 } else { -1 };
                    json!({"call": op, "decl": decl, "len": decl, "exact": true, "takes": tj, "canary": canary, "all": all, "panic": match &r { Err(p) => p.chars().take(80).collect::<String>(), _ => String::new() }})
                } else { json!({}) };
                let status = match &r {
                    Ok(Ok(())) => "ok".to_string(),
                    Ok(Err(e)) => err_class(e),
                    Err(p) => format!("panic:{}", p.chars().take(100).collect::<String>()),
                };
                // observe the destination
                let (ld, lb, maxk) = regs[d].as_ref().map(|ct| (ct.log_delta() as i64, ct.log_budget() as i64, ct.max_k().0 as i64)).unwrap_or((-1, -1, -1));
                let mut err_log2: i64 = -9999;
                if status == "ok" && op != "alloc" {
                    refs[d] = newref.clone();
                    if let (Some(ct), Some(want)) = (regs[d].as_ref(), refs[d].as_ref()) {
                        let dec = guarded(|| -> anyhow::Result<Cx> {
                            let mut scratch: ScratchOwned<BE> = ScratchOwned::alloc(1 << 24);
                            let prec = CKKSMeta { log_delta: ct.log_delta(), log_budget: ct.log_budget().min(45) };
                            let mut pt_znx = alloc_pt_vec_znx(Degree(n as u32), Base2K(b), prec);
                            m.ckks_decrypt(&mut pt_znx, ct, &sk, scratch.borrow())?;
                            let mut pt_rnx = CKKSPlaintextVecRnx::<f64>::alloc(n).unwrap();
                            pt_rnx.decode_from_znx(&pt_znx)?;
                            let mut re = vec![0f64; slots];
                            let mut im = vec![0f64; slots];
                            encoder.decode_reim(&pt_rnx, &mut re, &mut im)?;
                            Ok((re, im))
                        });
                        match dec {
                            Ok(Ok((re, im))) => {
                                let mut worst: f64 = 0.0;
                                for i in 0..slots {
                                    worst = worst.max((re[i] - want.0[i]).abs()).max((im[i] - want.1[i]).abs());
                                }
                                err_log2 = if worst == 0.0 { -1000 } else { worst.log2().ceil() as i64 };
                            }
                            Ok(Err(e)) => err_log2 = { let _ = e; 9998 },
                            Err(_) => err_log2 = 9999,
                        }
                    }
                } else if status != "ok" {
                    refs[d] = None;
                }
                if op == "enc" && status != "ok" {
                    regs[d] = None;
                }
                let cls = if status == "ok" { "ok" } else if status.starts_with("err") { "err" } else { "panic" };
                let digest = if exact { regs[d].as_ref().map(|ct| { let w: Vec<i64> = ct.data().data.chunks(8).map(|c8| i64::from_le_bytes(c8.try_into().unwrap())).collect(); format!("{:016x}", w.iter().fold(0xcbf29ce484222325u64, |h, x| (h ^ (*x as u64)).wrapping_mul(0x100000001b3))) }).unwrap_or_default() } else { String::new() };
                out.push(json!({"op": op, "status": status, "cls": cls, "ld": ld, "lb": lb, "maxk": maxk, "err_log2": err_log2, "call": call, "digest": digest}));
                if status.starts_with("panic") {
                    break;
                }
            }
            out
        }
    };
}

ckks_backend!(ckks_fft64ref, FFT64Ref);
ckks_backend!(ckks_fft64avx, FFT64Avx);
ckks_backend!(ckks_ntt120ref, NTT120Ref);
ckks_backend!(ckks_ntt120avx, NTT120Avx);

pub fn run_ckks(c: &Value) -> Value {
    let be = gu(c, "be", 0);
    let run = |fill: u64| match be {
        0 => ckks_fft64ref(c, fill),
        1 => ckks_fft64avx(c, fill),
        2 => ckks_ntt120ref(c, fill),
        _ => ckks_ntt120avx(c, fill),
    };
    let outs = run(1);
    let mut e = c.clone();
    e["ev"] = json!("ckks");
    if c.get("scr").and_then(|v| v.as_str()) == Some("exact") {
        // a second run of the same program on other scratch garbage: same takes, same destination bytes after every step
        let outs2 = run(2);
        let runs: Vec<Value> = [&outs, &outs2].iter().enumerate().map(|(i, o)| json!({"fill": i + 1, "calls": o.iter().map(|x| x["call"].clone()).collect::<Vec<_>>(),
            "digests": o.iter().map(|x| json!([x["status"], x["digest"]])).collect::<Vec<_>>()})).collect();
        e["scr"] = json!(runs);
    }
    e["outs"] = json!(outs);
    e
}
#[allow(dead_code)]
fn _unused(_: Rng) {}
