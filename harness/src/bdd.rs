//! C13: extraction of the compiled u32 BDD circuit tables (hook H1) as JSON, and the plain Rust word
//! operations the circuits are supposed to implement (logged for the dictionary x dictionary check).
use poulpy_bin_fhe::bdd_arithmetic::{Node, verif_u32_circuits};
use serde_json::{Value, json};

/// One record per (circuit, output bit): {"op","bit","w": declared state width, "nodes": [[kind,in,hi,lo]..]}
/// kind: 0 = Cmux(in,hi,lo), 1 = Copy, 2 = None.
pub fn dump_tables() -> Vec<Value> {
    let mut out = vec![];
    for (name, c) in verif_u32_circuits() {
        for bit in 0..c.output_size() {
            let (nodes, w) = c.get_circuit(bit);
            let nj: Vec<Value> = nodes
                .iter()
                .map(|n| match n {
                    Node::Cmux(i, h, l) => json!([0, i, h, l]),
                    Node::Copy => json!([1, 0, 0, 0]),
                    Node::None => json!([2, 0, 0, 0]),
                })
                .collect();
            out.push(json!({"op": name, "bit": bit, "w": w, "nin": c.input_size(), "nout": c.output_size(), "nodes": nj}));
        }
    }
    out
}

pub fn word_op(op: &str, a: u32, b: u32) -> u32 {
    match op {
        "add" => a.wrapping_add(b),
        "sub" => a.wrapping_sub(b),
        "sll" => a.wrapping_shl(b & 31),
        "srl" => a.wrapping_shr(b & 31),
        "sra" => ((a as i32).wrapping_shr(b & 31)) as u32,
        "slt" => ((a as i32) < (b as i32)) as u32,
        "sltu" => (a < b) as u32,
        "and" => a & b,
        "or" => a | b,
        "xor" => a ^ b,
        "identity" => a,
        _ => panic!("unknown word op"),
    }
}
