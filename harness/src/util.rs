//! Small deterministic helpers: PRNG, canary-guarded aligned buffers, panic capture.
use std::panic::{AssertUnwindSafe, catch_unwind};

#[derive(Clone)]
pub struct Rng(pub u64);
impl Rng {
    pub fn new(seed: u64) -> Self {
        Rng(seed.wrapping_mul(0x9E3779B97F4A7C15).wrapping_add(0xD1B54A32D192ED03))
    }
    pub fn next(&mut self) -> u64 {
        self.0 = self.0.wrapping_add(0x9E3779B97F4A7C15);
        let mut z = self.0;
        z = (z ^ (z >> 30)).wrapping_mul(0xBF58476D1CE4E5B9);
        z = (z ^ (z >> 27)).wrapping_mul(0x94D049BB133111EB);
        z ^ (z >> 31)
    }
    pub fn below(&mut self, n: u64) -> u64 {
        if n == 0 { 0 } else { self.next() % n }
    }
    /// uniform in [-m, m]
    pub fn sym(&mut self, m: i64) -> i64 {
        if m <= 0 {
            return 0;
        }
        (self.below(2 * m as u64 + 1) as i64) - m
    }
    pub fn fill(&mut self, b: &mut [u8]) {
        for c in b.chunks_mut(8) {
            let v = self.next().to_le_bytes();
            c.copy_from_slice(&v[..c.len()]);
        }
    }
}

pub const GUARD: usize = 256;

/// An exact-size, 64-byte-aligned window inside a larger allocation whose every other byte is a
/// seeded canary.  The whole allocation (window included) starts out as garbage.
pub struct ABuf {
    raw: Vec<u8>,
    off: usize,
    len: usize,
}
impl ABuf {
    pub fn new(len: usize, fill_seed: u64) -> Self {
        let mut raw = vec![0u8; len + 2 * GUARD + 64];
        Rng::new(fill_seed).fill(&mut raw);
        let base = raw.as_ptr() as usize;
        let off = GUARD + ((64 - ((base + GUARD) % 64)) % 64);
        ABuf { raw, off, len }
    }
    pub fn win(&self) -> &[u8] {
        &self.raw[self.off..self.off + self.len]
    }
    pub fn win_mut(&mut self) -> &mut [u8] {
        let (o, l) = (self.off, self.len);
        &mut self.raw[o..o + l]
    }
    pub fn len(&self) -> usize {
        self.len
    }
    pub fn snapshot(&self) -> Vec<u8> {
        self.raw.clone()
    }
    /// true iff every byte outside the given window-relative ranges equals the snapshot
    pub fn unchanged_except(&self, snap: &[u8], ranges: &[(usize, usize)]) -> bool {
        let mut mask = vec![false; self.raw.len()];
        for &(s, e) in ranges {
            for m in mask[self.off + s..self.off + e].iter_mut() {
                *m = true;
            }
        }
        self.raw.iter().zip(snap.iter()).zip(mask.iter()).all(|((a, b), m)| *m || a == b)
    }
}

/// Runs `f`, turning a panic into `Err(message)` (a panic of the code under test is data).
pub fn guarded<T>(f: impl FnOnce() -> T) -> Result<T, String> {
    match catch_unwind(AssertUnwindSafe(f)) {
        Ok(v) => Ok(v),
        Err(e) => {
            let msg = if let Some(s) = e.downcast_ref::<&str>() {
                s.to_string()
            } else if let Some(s) = e.downcast_ref::<String>() {
                s.clone()
            } else {
                "panic".to_string()
            };
            Err(msg.chars().take(300).collect())
        }
    }
}

pub fn quiet_panics() {
    std::panic::set_hook(Box::new(|_| {}));
}


/// One scratch-taking library call run inside an *exact-size* (or generous) canary-guarded window with
/// the H4 take log switched on. Appends {"call","decl","base","takes":[[addr-base,len,take]..],"canary"} to `log`.
pub fn scr_call<BE, R>(
    exact: bool,
    decl: usize,
    fill: u64,
    name: &str,
    log: &mut Vec<serde_json::Value>,
    f: impl FnOnce(&mut poulpy_hal::layouts::Scratch<BE>) -> R,
) -> R
where
    BE: poulpy_hal::layouts::Backend,
    poulpy_hal::layouts::Scratch<BE>: poulpy_hal::api::ScratchFromBytes<BE>,
{
    use poulpy_cpu_ref::hal_defaults::scratch::verif_scratch_trace as tr;
    use poulpy_hal::api::ScratchFromBytes;
    let len = if exact { decl } else { decl + (1 << 16) };
    let mut buf = ABuf::new(len, fill);
    let snap = buf.snapshot();
    let base = buf.win().as_ptr() as usize;
    tr::start();
    let r = guarded(|| {
        let scratch = <poulpy_hal::layouts::Scratch<BE> as ScratchFromBytes<BE>>::from_bytes(buf.win_mut());
        f(scratch)
    });
    let takes = tr::stop();
    let canary = buf.unchanged_except(&snap, &[(0, len)]);
    let tj: Vec<serde_json::Value> = takes.iter().map(|&(a, l, t)| serde_json::json!([a as i64 - base as i64, l, t])).collect();
    log.push(serde_json::json!({"call": name, "decl": decl, "len": len, "exact": exact, "takes": tj, "canary": canary,
        "panic": r.as_ref().err().cloned().unwrap_or_default()}));
    match r {
        Ok(v) => v,
        Err(e) => panic!("{}", e),
    }
}
