//! Small deterministic helpers: PRNG, canary-guarded aligned buffers, panic capture.
use std::panic::{AssertUnwindSafe, catch_unwind};

#[derive(Clone)]
pub struct Rng(pub u64);
impl Rng {
    pub fn new(seed: u64) -> Self {
        Rng(seed.wrapping_mul(0x9E3779B97F4A7C15).wrapping_add(0xD1B54A32D192ED03))
    }
    pub fn next(&mut self) -> u64 {
        self.0 = self.0.wrapping_add(0x9E3779B97F4A7C15);
        let mut z = self.0;
        z = (z ^ (z >> 30)).wrapping_mul(0xBF58476D1CE4E5B9);
        z = (z ^ (z >> 27)).wrapping_mul(0x94D049BB133111EB);
        z ^ (z >> 31)
    }
    pub fn below(&mut self, n: u64) -> u64 {
        if n == 0 { 0 } else { self.next() % n }
    }
    /// uniform in [-m, m]
    pub fn sym(&mut self, m: i64) -> i64 {
        if m <= 0 {
            return 0;
        }
        (self.below(2 * m as u64 + 1) as i64) - m
    }
    pub fn fill(&mut self, b: &mut [u8]) {
        for c in b.chunks_mut(8) {
            let v = self.next().to_le_bytes();
            c.copy_from_slice(&v[..c.len()]);
        }
    }
}

pub const GUARD: usize = 256;
const PAGE: usize = 4096;

/// 0 = heap buffers with canaries; 1 = the window ENDS at an inaccessible page (64-byte alignment permitting);
/// 2 = the window STARTS right after an inaccessible page.  Selected by the environment variable VERIF_GUARD (C17).
pub fn guard_mode() -> u8 {
    static MODE: std::sync::OnceLock<u8> = std::sync::OnceLock::new();
    *MODE.get_or_init(|| std::env::var("VERIF_GUARD").ok().and_then(|v| v.parse().ok()).unwrap_or(0))
}

enum Backing {
    Heap(Vec<u8>),
    /// [guard page][writable span][guard page]; base = start of the first guard page
    Map { base: *mut u8, total: usize, span: usize },
}

/// An exact-size, 64-byte-aligned window inside a larger allocation whose every other byte is a
/// seeded canary.  The whole allocation (window included) starts out as garbage.  In guard mode the
/// allocation is bracketed by PROT_NONE pages so that an out-of-bounds READ faults as well.
pub struct ABuf {
    mem: Backing,
    off: usize,
    len: usize,
}
unsafe impl Send for ABuf {}
impl Drop for ABuf {
    fn drop(&mut self) {
        if let Backing::Map { base, total, .. } = self.mem {
            unsafe {
                libc::munmap(base as *mut libc::c_void, total);
            }
        }
    }
}
impl ABuf {
    pub fn new(len: usize, fill_seed: u64) -> Self {
        let mode = guard_mode();
        if mode == 0 {
            let mut raw = vec![0u8; len + 2 * GUARD + 64];
            Rng::new(fill_seed).fill(&mut raw);
            let base = raw.as_ptr() as usize;
            let off = GUARD + ((64 - ((base + GUARD) % 64)) % 64);
            return ABuf { mem: Backing::Heap(raw), off, len };
        }
        // writable span: a whole number of pages holding a leading canary, the window and a tail shorter than 64 bytes
        let span = (len + GUARD + 64).div_ceil(PAGE) * PAGE;
        let total = span + 2 * PAGE;
        let base = unsafe {
            let p = libc::mmap(std::ptr::null_mut(), total, libc::PROT_READ | libc::PROT_WRITE, libc::MAP_PRIVATE | libc::MAP_ANONYMOUS, -1, 0);
            assert!(p != libc::MAP_FAILED, "harness: mmap failed");
            assert!(libc::mprotect(p, PAGE, libc::PROT_NONE) == 0);
            assert!(libc::mprotect((p as *mut u8).add(PAGE + span) as *mut libc::c_void, PAGE, libc::PROT_NONE) == 0);
            p as *mut u8
        };
        let off = if mode == 1 { (span - len) / 64 * 64 } else { 0 };
        let mut b = ABuf { mem: Backing::Map { base, total, span }, off, len };
        let s = b.raw_mut();
        Rng::new(fill_seed).fill(s);
        b
    }
    fn raw(&self) -> &[u8] {
        match &self.mem {
            Backing::Heap(v) => v,
            Backing::Map { base, span, .. } => unsafe { std::slice::from_raw_parts(base.add(PAGE), *span) },
        }
    }
    fn raw_mut(&mut self) -> &mut [u8] {
        match &mut self.mem {
            Backing::Heap(v) => v,
            Backing::Map { base, span, .. } => unsafe { std::slice::from_raw_parts_mut(base.add(PAGE), *span) },
        }
    }
    pub fn win(&self) -> &[u8] {
        &self.raw()[self.off..self.off + self.len]
    }
    pub fn win_mut(&mut self) -> &mut [u8] {
        let (o, l) = (self.off, self.len);
        &mut self.raw_mut()[o..o + l]
    }
    pub fn len(&self) -> usize {
        self.len
    }
    pub fn snapshot(&self) -> Vec<u8> {
        self.raw().to_vec()
    }
    /// true iff every byte outside the given window-relative ranges equals the snapshot
    pub fn unchanged_except(&self, snap: &[u8], ranges: &[(usize, usize)]) -> bool {
        let raw = self.raw();
        let mut mask = vec![false; raw.len()];
        for &(s, e) in ranges {
            for m in mask[self.off + s..self.off + e].iter_mut() {
                *m = true;
            }
        }
        raw.iter().zip(snap.iter()).zip(mask.iter()).all(|((a, b), m)| *m || a == b)
    }
}

/// Runs `f`, turning a panic into `Err(message)` (a panic of the code under test is data).
pub fn guarded<T>(f: impl FnOnce() -> T) -> Result<T, String> {
    match catch_unwind(AssertUnwindSafe(f)) {
        Ok(v) => Ok(v),
        Err(e) => {
            let msg = if let Some(s) = e.downcast_ref::<&str>() {
                s.to_string()
            } else if let Some(s) = e.downcast_ref::<String>() {
                s.clone()
            } else {
                "panic".to_string()
            };
            Err(msg.chars().take(300).collect())
        }
    }
}

pub fn quiet_panics() {
    if std::env::var("VERIF_LOUD").is_err() {
        std::panic::set_hook(Box::new(|_| {}));
    }
}


/// One scratch-taking library call run inside an *exact-size* (or generous) canary-guarded window with
/// the H4 take log switched on. Appends {"call","decl","base","takes":[[addr-base,len,take]..],"canary"} to `log`.
pub fn scr_call<BE, R>(
    exact: bool,
    decl: usize,
    fill: u64,
    name: &str,
    log: &mut Vec<serde_json::Value>,
    f: impl FnOnce(&mut poulpy_hal::layouts::Scratch<BE>) -> R,
) -> R
where
    BE: poulpy_hal::layouts::Backend,
    poulpy_hal::layouts::Scratch<BE>: poulpy_hal::api::ScratchFromBytes<BE>,
{
    use poulpy_cpu_ref::hal_defaults::scratch::verif_scratch_trace as tr;
    use poulpy_hal::api::ScratchFromBytes;
    let len = if exact { decl } else { decl + (1 << 16) };
    let mut buf = ABuf::new(len, fill);
    let snap = buf.snapshot();
    let base = buf.win().as_ptr() as usize;
    tr::start();
    let r = guarded(|| {
        let scratch = <poulpy_hal::layouts::Scratch<BE> as ScratchFromBytes<BE>>::from_bytes(buf.win_mut());
        f(scratch)
    });
    let takes = tr::stop();
    let canary = buf.unchanged_except(&snap, &[(0, len)]);
    let tj: Vec<serde_json::Value> = takes.iter().map(|&(a, l, t)| serde_json::json!([a as i64 - base as i64, l, t])).collect();
    log.push(serde_json::json!({"call": name, "decl": decl, "len": len, "exact": exact, "takes": tj, "canary": canary,
        "panic": r.as_ref().err().cloned().unwrap_or_default()}));
    match r {
        Ok(v) => v,
        Err(e) => panic!("{}", e),
    }
}
