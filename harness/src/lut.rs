//! Lookup tables and blind rotation (C14).
//! kind "lut": LookupTable::set then the clear rotation by every requested k, raw limbs logged through hook H2.
//! kind "br":  LWE(m) -> blind rotation -> GLWE, decrypted with the library's glwe_decrypt; the LWE ciphertext, both
//!             secrets, the encoded table and the decrypted plaintext are logged (TLC derives the expected rotation).
use crate::util::{ABuf, Rng, guarded};
use poulpy_bin_fhe::blind_rotation::*;
use poulpy_core::api::*;
use poulpy_core::layouts::prepared::*;
use poulpy_core::layouts::*;
use poulpy_core::EncryptionLayout;
use poulpy_cpu_avx::{FFT64Avx, NTT120Avx};
use poulpy_cpu_ref::{FFT64Ref, NTT120Ref};
use poulpy_hal::api::*;
use poulpy_hal::layouts::*;
use poulpy_hal::source::Source;
use serde_json::{Value, json};

fn gu(c: &Value, k: &str, d: u64) -> u64 {
    c.get(k).and_then(|v| v.as_u64()).unwrap_or(d)
}
fn seed32(x: u64) -> [u8; 32] {
    let mut s = [0u8; 32];
    Rng::new(x).fill(&mut s);
    s
}
fn dump_lut(l: &LookupTable) -> Value {
    // data[i][limb][coefficient]
    json!(l.verif_data().iter().map(|v| (0..v.size()).map(|j| v.at(0, j).to_vec()).collect::<Vec<_>>()).collect::<Vec<_>>())
}

macro_rules! lut_backend {
    ($fname:ident, $brname:ident, $BE:ty) => {
        pub fn $fname(c: &Value) -> Value {
            type BE = $BE;
            let n = gu(c, "n", 8) as usize;
            let m: Module<BE> = Module::<BE>::new(n as u64);
            let (ext, b, size, kmsg) = (gu(c, "ext", 1) as usize, gu(c, "b", 4) as u32, gu(c, "size", 2) as u32, gu(c, "kmsg", 3) as usize);
            let f: Vec<i64> = c["f"].as_array().unwrap().iter().map(|v| v.as_i64().unwrap()).collect();
            let rots: Vec<i64> = c["rots"].as_array().unwrap().iter().map(|v| v.as_i64().unwrap()).collect();
            let r = guarded(|| {
                let infos = LookUpTableLayout { n: Degree(n as u32), extension_factor: ext, k: TorusPrecision(size * b), base2k: Base2K(b) };
                let mut out: Vec<Value> = vec![];
                let mut lut = LookupTable::alloc(&infos);
                lut.set(&m, &f, kmsg);
                let set = dump_lut(&lut);
                let drift = lut.verif_drift();
                for &k in rots.iter() {
                    let mut l2 = LookupTable::alloc(&infos);
                    l2.set(&m, &f, kmsg);
                    l2.verif_rotate(&m, k);
                    out.push(json!({"k": k, "data": dump_lut(&l2)}));
                }
                (set, drift, out)
            });
            match r {
                Ok((set, drift, out)) => json!({"set": set, "drift": drift, "rot": out, "panic": ""}),
                Err(p) => json!({"set": [], "drift": 0, "rot": [], "panic": p}),
            }
        }

        pub fn $brname(c: &Value) -> Value {
            type BE = $BE;
            let n = gu(c, "n", 64) as usize;
            let m: Module<BE> = Module::<BE>::new(n as u64);
            let (ext, b, rank) = (gu(c, "ext", 1) as usize, gu(c, "b", 19) as u32, gu(c, "rank", 1) as u32);
            let (nlwe, block) = (gu(c, "nlwe", 16) as u32, gu(c, "block", 1) as usize);
            let (blwe, klwe) = (gu(c, "blwe", b as u64) as u32, gu(c, "klwe", 24) as u32);
            let p = gu(c, "p", 3) as usize; // message bits; one padding bit above
            let msg = gu(c, "msg", 1) as i64;
            let right = c.get("dir").and_then(|v| v.as_str()) == Some("right");
            let id = gu(c, "id", 1);
            let r = guarded(|| {
                let mut source_xs = Source::new(seed32(0x100 + gu(c, "key", 1)));
                let mut source_xe = Source::new(seed32(0x200 + id));
                let mut source_xa = Source::new(seed32(0x300 + id));
                let brk_infos = EncryptionLayout::new_from_default_sigma(BlindRotationKeyLayout {
                    n_glwe: Degree(n as u32), n_lwe: Degree(nlwe), base2k: Base2K(b), k: TorusPrecision(3 * b), dnum: Dnum(2), rank: Rank(rank) }).unwrap();
                let glwe_infos = EncryptionLayout::new_from_default_sigma(GLWELayout { n: Degree(n as u32), base2k: Base2K(b), k: TorusPrecision(2 * b), rank: Rank(rank) }).unwrap();
                let lwe_infos = EncryptionLayout::new_from_default_sigma(LWELayout { n: Degree(nlwe), k: TorusPrecision(klwe), base2k: Base2K(blwe) }).unwrap();
                let mut scratch: ScratchOwned<BE> = ScratchOwned::<BE>::alloc(BlindRotationKey::encrypt_sk_tmp_bytes(&m, &brk_infos).max(1 << 20));
                let mut sk_glwe = GLWESecret::alloc_from_infos(&glwe_infos);
                sk_glwe.fill_ternary_prob(0.5, &mut source_xs);
                let mut skp: GLWESecretPrepared<DeviceBuf<BE>, BE> = m.glwe_secret_prepared_alloc_from_infos(&glwe_infos);
                m.glwe_secret_prepare(&mut skp, &sk_glwe);
                let mut sk_lwe = LWESecret::alloc(Degree(nlwe));
                if block > 1 {
                    sk_lwe.fill_binary_block(block, &mut source_xs);
                } else {
                    sk_lwe.fill_binary_prob(0.5, &mut source_xs);
                }
                let mut scratch_br: ScratchOwned<BE> = ScratchOwned::<BE>::alloc(BlindRotationKeyPrepared::<DeviceBuf<BE>, CGGI, BE>::execute_tmp_bytes(&m, block, ext, &glwe_infos, &brk_infos).max(1 << 20));
                let mut brk: BlindRotationKey<Vec<u8>, CGGI> = BlindRotationKey::<Vec<u8>, CGGI>::alloc(&brk_infos);
                m.blind_rotation_key_encrypt_sk(&mut brk, &skp, &sk_lwe, &brk_infos, &mut source_xe, &mut source_xa, scratch.borrow());
                let mut lwe = LWE::alloc_from_infos(&lwe_infos);
                let mut pt_lwe = LWEPlaintext::alloc_from_infos(&lwe_infos);
                pt_lwe.encode_i64(msg, TorusPrecision((p + 1) as u32));
                m.lwe_encrypt_sk(&mut lwe, &pt_lwe, &sk_lwe, &lwe_infos, &mut source_xe, &mut source_xa, scratch.borrow());
                let f: Vec<i64> = c["f"].as_array().unwrap().iter().map(|v| v.as_i64().unwrap()).collect();
                let lut_infos = LookUpTableLayout { n: Degree(n as u32), extension_factor: ext, k: TorusPrecision(b), base2k: Base2K(b) };
                let mut lut = LookupTable::alloc(&lut_infos);
                lut.set(&m, &f, p + 1);
                if right {
                    lut.set_rotation_direction(LookUpTableRotationDirection::Right);
                }
                let mut res = GLWE::alloc_from_infos(&glwe_infos);
                let mut brk_p: BlindRotationKeyPrepared<DeviceBuf<BE>, CGGI, BE> = BlindRotationKeyPrepared::alloc(&m, &brk);
                brk_p.prepare(&m, &brk, scratch_br.borrow());
                // the rotation itself runs in an arena full of garbage (a scratch that earlier calls have used), and writes
                // into a result full of garbage
                Rng::new(id ^ 0x3131).fill(res.data_mut().data.as_mut());
                let need = BlindRotationKeyPrepared::<DeviceBuf<BE>, CGGI, BE>::execute_tmp_bytes(&m, block, ext, &glwe_infos, &brk_infos);
                let mut dirty = ABuf::new(need + (1 << 12), id ^ 0x4242);
                brk_p.execute(&m, &mut res, &lwe, &lut, <Scratch<BE> as ScratchFromBytes<BE>>::from_bytes(dirty.win_mut()));
                let mut pt_have = GLWEPlaintext::alloc_from_infos(&glwe_infos);
                m.glwe_decrypt(&res, &mut pt_have, &skp, scratch.borrow());
                let dec0 = pt_have.decode_coeff_i64(TorusPrecision((p + 1) as u32), 0);
                let lv = lwe.data();
                json!({"lwe": (0..lv.size()).map(|j| lv.at(0, j).to_vec()).collect::<Vec<_>>(), "sk_lwe": sk_lwe.raw().to_vec(),
                       "lut": dump_lut(&lut), "pt": (0..pt_have.data.size()).map(|j| pt_have.data.at(0, j).to_vec()).collect::<Vec<_>>(), "dec0": dec0, "panic": ""})
            });
            match r {
                Ok(v) => v,
                Err(p) => json!({"lwe": [], "sk_lwe": [], "lut": [], "pt": [], "dec0": 0, "panic": p}),
            }
        }
    };
}

lut_backend!(lut_fft64ref, br_fft64ref, FFT64Ref);
lut_backend!(lut_fft64avx, br_fft64avx, FFT64Avx);
lut_backend!(lut_ntt120ref, br_ntt120ref, NTT120Ref);
lut_backend!(lut_ntt120avx, br_ntt120avx, NTT120Avx);

pub fn run_lut(c: &Value) -> Value {
    let kind = c["kind"].as_str().unwrap();
    let mut groups: Vec<(Vec<usize>, Value)> = vec![];
    let bes: Vec<usize> = if kind == "lut" { vec![0, 1, 2, 3] } else { vec![gu(c, "be", 0) as usize] };
    for be in bes {
        let rec = match (kind, be) {
            ("lut", 0) => lut_fft64ref(c),
            ("lut", 1) => lut_fft64avx(c),
            ("lut", 2) => lut_ntt120ref(c),
            ("lut", _) => lut_ntt120avx(c),
            (_, 0) => br_fft64ref(c),
            (_, 1) => br_fft64avx(c),
            (_, 2) => br_ntt120ref(c),
            (_, _) => br_ntt120avx(c),
        };
        if let Some(g) = groups.iter_mut().find(|g| g.1 == rec) {
            g.0.push(be);
        } else {
            groups.push((vec![be], rec));
        }
    }
    let mut e = c.clone();
    e["ev"] = json!(kind);
    e["outs"] = json!(groups.into_iter().map(|(who, rec)| json!({"who": who, "rec": rec})).collect::<Vec<_>>());
    e
}
