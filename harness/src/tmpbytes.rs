//! Dumps the shape-parameterised scratch-size queries of the HAL over a small grid, each with the values
//! at the neighbouring shapes (+1 in every size coordinate), for the monotonicity check of C12.
use poulpy_cpu_avx::{FFT64Avx, NTT120Avx};
use poulpy_cpu_ref::{FFT64Ref, NTT120Ref};
use poulpy_hal::api::*;
use poulpy_hal::layouts::*;
use serde_json::{Value, json};

macro_rules! table {
    ($fname:ident, $BE:ty, $name:expr) => {
        fn $fname(n: usize, out: &mut Vec<Value>) {
            let m: Module<$BE> = Module::<$BE>::new(n as u64);
            let mut emit = |op: &str, fixed: Vec<usize>, args: Vec<usize>, f: &dyn Fn(&[usize], &[usize]) -> usize| {
                let bytes = f(&fixed, &args);
                let next: Vec<usize> = (0..args.len())
                    .map(|i| {
                        let mut a2 = args.clone();
                        a2[i] += 1;
                        f(&fixed, &a2)
                    })
                    .collect();
                out.push(json!({"op": op, "be": $name, "n": n, "fixed": fixed, "args": args, "bytes": bytes, "next": next}));
            };
            for a in 1..=3usize {
                for b in 1..=3usize {
                    emit("cnv_prepare_left", vec![], vec![a, b], &|_, x| m.cnv_prepare_left_tmp_bytes(x[0], x[1]));
                    emit("cnv_prepare_right", vec![], vec![a, b], &|_, x| m.cnv_prepare_right_tmp_bytes(x[0], x[1]));
                    emit("cnv_prepare_self", vec![], vec![a, b], &|_, x| m.cnv_prepare_self_tmp_bytes(x[0], x[1]));
                    for c in 1..=3usize {
                        for off in 0..=2usize {
                            emit("cnv_apply_dft", vec![off], vec![a, b, c], &|fx, x| m.cnv_apply_dft_tmp_bytes(fx[0], x[0], x[1], x[2]));
                            emit("cnv_by_const_apply", vec![off], vec![a, b, c], &|fx, x| m.cnv_by_const_apply_tmp_bytes(fx[0], x[0], x[1], x[2]));
                            emit("cnv_pairwise_apply_dft", vec![off], vec![a, b, c], &|fx, x| m.cnv_pairwise_apply_dft_tmp_bytes(fx[0], x[0], x[1], x[2]));
                        }
                        for d in 1..=2usize {
                            emit("vmp_prepare", vec![], vec![a, b.min(2), c.min(2), d], &|_, x| m.vmp_prepare_tmp_bytes(x[0], x[1], x[2], x[3]));
                            for e in 1..=2usize {
                                emit("vmp_apply_dft", vec![], vec![a, b, c, d, e, 2], &|_, x| m.vmp_apply_dft_tmp_bytes(x[0], x[1], x[2], x[3], x[4], x[5]));
                                emit("vmp_apply_dft_to_dft", vec![], vec![a, b, c, d, e, 2], &|_, x| {
                                    m.vmp_apply_dft_to_dft_tmp_bytes(x[0], x[1], x[2], x[3], x[4], x[5])
                                });
                            }
                        }
                    }
                }
            }
        }
    };
}
table!(t_a, FFT64Ref, "FFT64Ref");
table!(t_b, FFT64Avx, "FFT64Avx");
table!(t_c, NTT120Ref, "NTT120Ref");
table!(t_d, NTT120Avx, "NTT120Avx");

pub fn dump(n: usize) -> Vec<Value> {
    let mut out = vec![];
    t_a(n, &mut out);
    t_b(n, &mut out);
    t_c(n, &mut out);
    t_d(n, &mut out);
    out
}
