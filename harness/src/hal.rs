//! HAL-level driver: executes *descriptors* (produced by the TLA+ generators under spec/Hal/Gen_*.tla)
//! on the four real back-ends, twice from independent garbage pre-fills, inside canary-guarded
//! exact-size windows, and logs one ndjson event per descriptor for the TLA+ trace specification
//! (spec/Hal/HalTrace.tla) to validate.  No semantic decision is taken here: the harness only
//! *projects* memory to integers and groups byte-identical outcomes.
use crate::util::{ABuf, Rng, guarded};
#[allow(unused_imports)]
use crate::util::scr_call;
use poulpy_cpu_avx::{FFT64Avx, NTT120Avx};
use poulpy_cpu_ref::{FFT64Ref, NTT120Ref};
use poulpy_hal::api::*;
use poulpy_hal::layouts::*;
use serde_json::{Value, json};
use std::collections::HashMap;
use std::marker::PhantomData;

pub type Col = Vec<Vec<i64>>; // [limb][coeff]

pub struct Opd {
    pub buf: ABuf,
    pub n: usize,
    pub cols: usize,
    pub size: usize,
    pub max_size: usize,
    pub col: usize,
    pub sb: usize,
}

impl Opd {
    pub fn new(n: usize, cols: usize, size: usize, extra: usize, col: usize, sb: usize, fill: u64) -> Self {
        let max_size = size + extra;
        Opd { buf: ABuf::new(n * cols * max_size * sb, fill), n, cols, size, max_size, col, sb }
    }
    fn off(&self, limb: usize, col: usize) -> usize {
        self.n * (limb * self.cols + col) * self.sb
    }
    pub fn write_at(&mut self, col: usize, data: &Col) {
        let (n, sb) = (self.n, self.sb);
        for (j, limb) in data.iter().enumerate() {
            let o = self.off(j, col);
            let w = self.buf.win_mut();
            for i in 0..n {
                let v = limb[i];
                if sb == 8 {
                    w[o + i * 8..o + i * 8 + 8].copy_from_slice(&v.to_le_bytes());
                } else {
                    w[o + i * 16..o + i * 16 + 16].copy_from_slice(&(v as i128).to_le_bytes());
                }
            }
        }
    }
    pub fn write(&mut self, data: &Col) {
        let c = self.col;
        self.write_at(c, data)
    }
    /// value class 14: on a 128-bit accumulator every word additionally gets a seeded signed 40-bit HIGH part (|a| up to 2^103);
    /// 64-bit accumulators cannot hold such values and keep the low part only (the event is then compared within a family)
    pub fn add_high(&mut self, seed: u64) {
        if self.sb != 16 {
            return;
        }
        let mut rng = Rng::new(seed ^ 0x4849);
        for j in 0..self.size {
            let o = self.off(j, self.col);
            let n = self.n;
            let w = self.buf.win_mut();
            for i in 0..n {
                let lo = i128::from_le_bytes(w[o + i * 16..o + i * 16 + 16].try_into().unwrap());
                let hi = ((rng.next() as i64) >> 24) as i128;
                w[o + i * 16..o + i * 16 + 16].copy_from_slice(&(lo + (hi << 64)).to_le_bytes());
            }
        }
    }
    pub fn read(&self) -> Vec<Vec<i128>> {
        let w = self.buf.win();
        (0..self.size)
            .map(|j| {
                let o = self.off(j, self.col);
                (0..self.n)
                    .map(|i| {
                        if self.sb == 8 {
                            i64::from_le_bytes(w[o + i * 8..o + i * 8 + 8].try_into().unwrap()) as i128
                        } else {
                            i128::from_le_bytes(w[o + i * 16..o + i * 16 + 16].try_into().unwrap())
                        }
                    })
                    .collect()
            })
            .collect()
    }
    pub fn col_ranges(&self) -> Vec<(usize, usize)> {
        (0..self.size).map(|j| (self.off(j, self.col), self.off(j, self.col) + self.n * self.sb)).collect()
    }
    pub fn vz(&self) -> VecZnx<&[u8]> {
        VecZnx { data: self.buf.win(), n: self.n, cols: self.cols, size: self.size, max_size: self.max_size }
    }
    pub fn vz_mut(&mut self) -> VecZnx<&mut [u8]> {
        let (n, cols, size, max_size) = (self.n, self.cols, self.size, self.max_size);
        VecZnx { data: self.buf.win_mut(), n, cols, size, max_size }
    }
    pub fn sz(&self) -> ScalarZnx<&[u8]> {
        ScalarZnx { data: self.buf.win(), n: self.n, cols: self.cols }
    }
    pub fn big<B: Backend>(&self) -> VecZnxBig<&[u8], B> {
        VecZnxBig { data: self.buf.win(), n: self.n, cols: self.cols, size: self.size, max_size: self.max_size, _phantom: PhantomData }
    }
    pub fn big_mut<B: Backend>(&mut self) -> VecZnxBig<&mut [u8], B> {
        let (n, cols, size, max_size) = (self.n, self.cols, self.size, self.max_size);
        VecZnxBig { data: self.buf.win_mut(), n, cols, size, max_size, _phantom: PhantomData }
    }
}

/// Everything about one descriptor that must be identical across back-ends and fills.
pub struct Plan {
    pub op: String,
    pub n: usize,  // ring degree of the result
    pub na: usize, // ring degree of the input(s) when it differs (switch/split/merge)
    pub rs: usize,
    pub asz: usize,
    pub bsz: usize,
    pub rcols: usize,
    pub rcol: usize,
    pub acols: usize,
    pub acol: usize,
    pub bcols: usize,
    pub bcol: usize,
    pub rextra: usize,
    pub k: i64,
    pub limb: usize,
    pub part: usize,
    pub rb: usize, // res_base2k
    pub ab: usize, // a_base2k
    pub da: Col,
    pub db: Col,
    pub dr: Col,
    pub ds: Col,
    pub dparts: Vec<Col>,
    pub big_a: bool,
    pub big_b: bool,
    pub big_r: bool,
    pub uses_r: bool,
    pub exact: bool,
    pub vclass: u64,
    pub hiseed: u64,
}

fn gu(c: &Value, k: &str, d: u64) -> u64 {
    c.get(k).and_then(|v| v.as_u64()).unwrap_or(d)
}
fn gi(c: &Value, k: &str, d: i64) -> i64 {
    c.get(k).and_then(|v| v.as_i64()).unwrap_or(d)
}

fn rand_col(rng: &mut Rng, size: usize, n: usize, vmax: i64) -> Col {
    (0..size).map(|_| (0..n).map(|_| rng.sym(vmax)).collect()).collect()
}

/// wide-radix value classes (magnitude corpora): 10 normalised digits of radix 2^b, 11 full i64 range,
/// 12 boundary mix (+-2^(b-1), 2^(b-1)-1, -2^(b-1)-1, i64 extremes), 13 carry ripple (2^(b-1)-1 repeated, last +1)
fn wide_col(rng: &mut Rng, size: usize, n: usize, b: usize, class: u64) -> Col {
    let half: i64 = if b >= 63 { i64::MAX / 2 } else { 1i64 << (b.max(1) - 1) };
    (0..size)
        .map(|j| {
            (0..n)
                .map(|i| match class {
                    10 => ((rng.next() as i64) >> (64 - b.max(1) as u32)).clamp(-half, half - 1),
                    11 | 14 => rng.next() as i64,
                    12 => match rng.below(8) {
                        0 => half,
                        1 => -half,
                        2 => half - 1,
                        3 => -half - 1,
                        4 => i64::MAX,
                        5 => i64::MIN,
                        6 => -1,
                        _ => ((rng.next() as i64) >> (64 - b.max(1) as u32)),
                    },
                    _ => {
                        if j + 1 == size && i % 2 == 0 {
                            half
                        } else {
                            half - 1
                        }
                    }
                })
                .collect()
        })
        .collect()
}

fn col_from_json(v: &Value) -> Col {
    v.as_array().unwrap().iter().map(|l| l.as_array().unwrap().iter().map(|x| x.as_i64().unwrap()).collect()).collect()
}

pub fn base_op(op: &str) -> &str {
    op.strip_prefix("big_").unwrap_or(op)
}

pub fn make_plan(c: &Value, seed: u64) -> Plan {
    let op = c["op"].as_str().unwrap().to_string();
    let id = gu(c, "id", 0);
    let mut rng = Rng::new(seed ^ id.wrapping_mul(0x1234567));
    let n = gu(c, "n", 8) as usize;
    let na = gu(c, "na", n as u64) as usize;
    let rs = gu(c, "rs", 1) as usize;
    let asz = gu(c, "as", rs as u64) as usize;
    let bsz = gu(c, "bs", rs as u64) as usize;
    let vmax = gi(c, "vmax", 1000);
    let pick = |rng: &mut Rng, key: &str, hi: u64| -> usize { c.get(key).and_then(|v| v.as_u64()).unwrap_or_else(|| 1 + rng.below(hi)) as usize };
    let rcols = pick(&mut rng, "rcols", 3);
    let acols = pick(&mut rng, "acols", 3);
    let bcols = pick(&mut rng, "bcols", 3);
    let rcol = c.get("rcol").and_then(|v| v.as_u64()).unwrap_or_else(|| rng.below(rcols as u64)) as usize;
    let acol = c.get("acol").and_then(|v| v.as_u64()).unwrap_or_else(|| rng.below(acols as u64)) as usize;
    let bcol = c.get("bcol").and_then(|v| v.as_u64()).unwrap_or_else(|| rng.below(bcols as u64)) as usize;
    let rextra = c.get("rextra").and_then(|v| v.as_u64()).unwrap_or_else(|| rng.below(2)) as usize;
    let b = base_op(&op);
    let is_big = op.starts_with("big_");
    let (big_a, big_b, big_r) = match b {
        "from_small" => (false, false, true),
        "add_small_into" | "sub_small_b" => (true, false, true),
        "sub_small_a" => (false, true, true),
        "add_small_assign" | "sub_small_assign" | "sub_small_negate_assign" => (false, false, true),
        "normalize" | "normalize_add_assign" | "normalize_sub_assign" | "normalize_negate" if is_big => (true, false, false),
        _ => (is_big, is_big, is_big),
    };
    let uses_r = b.ends_with("_assign") || b == "encode_coeff_i64" || matches!(b, "lsh_add_into" | "lsh_sub" | "rsh_add_into" | "rsh_sub") || c.get("uses_r").and_then(|v| v.as_bool()).unwrap_or(false);
    let vclass = gu(c, "vclass", 0);
    let ab_ = gu(c, "ab", 0) as usize;
    let rb_ = gu(c, "rb", 0) as usize;
    let da = match c.get("da") {
        Some(v) => col_from_json(v),
        None if vclass >= 10 => wide_col(&mut rng, asz, na, ab_, vclass),
        None => rand_col(&mut rng, asz, na, vmax),
    };
    let db = match c.get("db") {
        Some(v) => col_from_json(v),
        None => rand_col(&mut rng, bsz, n, vmax),
    };
    let dr = match c.get("dr") {
        Some(v) => col_from_json(v),
        None if vclass >= 10 => wide_col(&mut rng, rs, n, rb_, vclass),
        None => rand_col(&mut rng, rs, n, vmax),
    };
    let ds = rand_col(&mut rng, 1, n, vmax);
    // exhaustive digit enumeration (C08): coefficient i of chunk c holds tuple number (c*n + i) mod alpha^size
    // of the lexicographic enumeration of alpha^size (limb 0 most significant / slowest)
    let (mut da, mut dr) = (da, dr);
    if let Some(al) = c.get("alpha").and_then(|v| v.as_array()) {
        let alpha: Vec<i64> = al.iter().map(|x| x.as_i64().unwrap()).collect();
        let chunk = gu(c, "chunk", 0) as usize;
        let inplace = matches!(b, "normalize_assign" | "lsh_assign" | "rsh_assign");
        let sz = if inplace { rs } else { asz };
        let total = alpha.len().pow(sz as u32);
        let mut col: Col = vec![vec![0i64; na]; sz];
        for i in 0..na {
            let mut idx = (chunk * na + i) % total;
            for j in (0..sz).rev() {
                col[j][i] = alpha[idx % alpha.len()];
                idx /= alpha.len();
            }
        }
        if inplace {
            dr = col;
        } else {
            da = col;
        }
    }
    let nparts = if b == "merge_rings" { n / na } else { 0 };
    let dparts = (0..nparts).map(|_| rand_col(&mut rng, asz, na, vmax)).collect();
    Plan {
        op,
        n,
        na,
        rs,
        asz,
        bsz,
        rcols,
        rcol,
        acols,
        acol,
        bcols,
        bcol,
        rextra,
        k: gi(c, "k", 0),
        limb: gu(c, "limb", 0) as usize,
        part: gu(c, "part", 0) as usize,
        rb: gu(c, "rb", 0) as usize,
        ab: gu(c, "ab", 0) as usize,
        da,
        db,
        dr,
        ds,
        dparts,
        big_a,
        big_b,
        big_r,
        uses_r,
        exact: c.get("scr").and_then(|v| v.as_str()) == Some("exact"),
        vclass,
        hiseed: seed ^ id.wrapping_mul(0x77),
    }
}

pub struct Outcome {
    pub scr: Vec<Value>,
    pub d: Vec<Vec<i128>>,
    pub frame_ok: bool,
    pub panic: String,
}

pub const BACKENDS: [&str; 4] = ["FFT64Ref", "FFT64Avx", "NTT120Ref", "NTT120Avx"];

macro_rules! hal_backend {
    ($fname:ident, $BE:ty) => {
        pub fn $fname(mods: &mut HashMap<usize, Module<$BE>>, p: &Plan, fill: u64) -> Outcome {
            type BE = $BE;
            let sbig = std::mem::size_of::<<BE as Backend>::ScalarBig>();
            for nn in [p.n, p.na] {
                if !mods.contains_key(&nn) {
                    match guarded(|| Module::<BE>::new(nn as u64)) {
                        Ok(m) => {
                            mods.insert(nn, m);
                        }
                        Err(e) => return Outcome { scr: vec![], d: vec![], frame_ok: true, panic: format!("Module::new({nn}): {e}") },
                    }
                }
            }
            let m: &Module<BE> = &mods[&p.n];
            let op = base_op(&p.op);
            let f = fill.wrapping_mul(0x51ED27).wrapping_add(17);
            let mut res = Opd::new(p.n, p.rcols, p.rs, p.rextra, p.rcol, if p.big_r { sbig } else { 8 }, f ^ 1);
            let mut a = Opd::new(p.na, p.acols, p.asz, 0, p.acol, if p.big_a { sbig } else { 8 }, f ^ 2);
            let mut b = Opd::new(p.n, p.bcols, p.bsz, 0, p.bcol, if p.big_b { sbig } else { 8 }, f ^ 3);
            let mut s = Opd::new(p.n, p.acols, 1, 0, p.acol, 8, f ^ 4);
            a.write(&p.da);
            if p.vclass == 14 && p.big_a {
                a.add_high(p.hiseed);
            }
            b.write(&p.db);
            s.write(&p.ds);
            if p.uses_r {
                res.write(&p.dr);
            }
            let mut parts: Vec<Opd> = Vec::new();
            if op == "merge_rings" {
                for (q, d) in p.dparts.iter().enumerate() {
                    let mut o = Opd::new(p.na, p.acols, p.asz, 0, p.acol, 8, f ^ (10 + q as u64));
                    o.write(d);
                    parts.push(o);
                }
            }
            if op == "split_ring" {
                // outputs: one per part; `res` is part p.part, the others are scratch outputs
                for q in 0..(p.na / p.n) {
                    parts.push(Opd::new(p.n, p.rcols, p.rs, 0, p.rcol, 8, f ^ (10 + q as u64)));
                }
            }
            // scratch: exact-size window (declared by the companion query) when the descriptor asks for it,
            // generous otherwise; always garbage-filled and canary-guarded
            let decl: usize = match op {
                "normalize" | "normalize_assign" if !p.op.starts_with("big_") => m.vec_znx_normalize_tmp_bytes(),
                "lsh" | "lsh_add_into" | "lsh_sub" | "lsh_assign" => m.vec_znx_lsh_tmp_bytes(),
                "rsh" | "rsh_add_into" | "rsh_sub" | "rsh_assign" => m.vec_znx_rsh_tmp_bytes(),
                "rotate_assign" => m.vec_znx_rotate_assign_tmp_bytes(),
                "automorphism_assign" if !p.op.starts_with("big_") => m.vec_znx_automorphism_assign_tmp_bytes(),
                "automorphism_assign" => m.vec_znx_big_automorphism_assign_tmp_bytes(),
                "mul_xp_minus_one_assign" => m.vec_znx_mul_xp_minus_one_assign_tmp_bytes(),
                "split_ring" => mods[&p.na].vec_znx_split_ring_tmp_bytes(),
                "merge_rings" => m.vec_znx_merge_rings_tmp_bytes(),
                "normalize" | "normalize_add_assign" | "normalize_sub_assign" | "normalize_negate" => m.vec_znx_big_normalize_tmp_bytes(),
                _ => 0,
            };
            let mut scr_log: Vec<Value> = Vec::new();
            let snap_res = res.buf.snapshot();
            let snap_a = a.buf.snapshot();
            let snap_b = b.buf.snapshot();
            let snap_s = s.buf.snapshot();
            let snap_parts: Vec<Vec<u8>> = parts.iter().map(|o| o.buf.snapshot()).collect();
            let (rc, ac, bc) = (p.rcol, p.acol, p.bcol);
            let k = p.k;
            let r = guarded(|| crate::util::scr_call::<BE, _>(p.exact, decl, f ^ 5, p.op.as_str(), &mut scr_log, |scratch| {
                match p.op.as_str() {
                    "zero" => m.vec_znx_zero(&mut res.vz_mut(), rc),
                    "copy" => m.vec_znx_copy(&mut res.vz_mut(), rc, &a.vz(), ac),
                    "negate" => m.vec_znx_negate(&mut res.vz_mut(), rc, &a.vz(), ac),
                    "negate_assign" => m.vec_znx_negate_assign(&mut res.vz_mut(), rc),
                    "rotate" => m.vec_znx_rotate(k, &mut res.vz_mut(), rc, &a.vz(), ac),
                    "rotate_assign" => m.vec_znx_rotate_assign(k, &mut res.vz_mut(), rc, scratch),
                    "mul_xp_minus_one" => m.vec_znx_mul_xp_minus_one(k, &mut res.vz_mut(), rc, &a.vz(), ac),
                    "mul_xp_minus_one_assign" => m.vec_znx_mul_xp_minus_one_assign(k, &mut res.vz_mut(), rc, scratch),
                    "automorphism" => m.vec_znx_automorphism(k, &mut res.vz_mut(), rc, &a.vz(), ac),
                    "automorphism_assign" => m.vec_znx_automorphism_assign(k, &mut res.vz_mut(), rc, scratch),
                    "switch_ring" => m.vec_znx_switch_ring(&mut res.vz_mut(), rc, &a.vz(), ac),
                    "add_into" => m.vec_znx_add_into(&mut res.vz_mut(), rc, &a.vz(), ac, &b.vz(), bc),
                    "sub" => m.vec_znx_sub(&mut res.vz_mut(), rc, &a.vz(), ac, &b.vz(), bc),
                    "add_assign" => m.vec_znx_add_assign(&mut res.vz_mut(), rc, &a.vz(), ac),
                    "sub_assign" => m.vec_znx_sub_assign(&mut res.vz_mut(), rc, &a.vz(), ac),
                    "sub_negate_assign" => m.vec_znx_sub_negate_assign(&mut res.vz_mut(), rc, &a.vz(), ac),
                    "add_scalar_into" => m.vec_znx_add_scalar_into(&mut res.vz_mut(), rc, &s.sz(), ac, &b.vz(), bc, p.limb),
                    "sub_scalar" => m.vec_znx_sub_scalar(&mut res.vz_mut(), rc, &s.sz(), ac, &b.vz(), bc, p.limb),
                    "add_scalar_assign" => m.vec_znx_add_scalar_assign(&mut res.vz_mut(), rc, p.limb, &s.sz(), ac),
                    "sub_scalar_assign" => m.vec_znx_sub_scalar_assign(&mut res.vz_mut(), rc, p.limb, &s.sz(), ac),
                    "split_ring" => {
                        let ma: &Module<BE> = &mods[&p.na];
                        let mut outs: Vec<VecZnx<&mut [u8]>> = parts.iter_mut().map(|o| o.vz_mut()).collect();
                        ma.vec_znx_split_ring(&mut outs, rc, &a.vz(), ac, scratch);
                    }
                    "merge_rings" => {
                        let ins: Vec<VecZnx<&[u8]>> = parts.iter().map(|o| o.vz()).collect();
                        m.vec_znx_merge_rings(&mut res.vz_mut(), rc, &ins, ac, scratch);
                    }
                    // ---- big accumulator, ring part
                    "big_from_small" => m.vec_znx_big_from_small(&mut res.big_mut::<BE>(), rc, &a.vz(), ac),
                    "big_add_into" => m.vec_znx_big_add_into(&mut res.big_mut::<BE>(), rc, &a.big::<BE>(), ac, &b.big::<BE>(), bc),
                    "big_add_assign" => m.vec_znx_big_add_assign(&mut res.big_mut::<BE>(), rc, &a.big::<BE>(), ac),
                    "big_add_small_into" => m.vec_znx_big_add_small_into(&mut res.big_mut::<BE>(), rc, &a.big::<BE>(), ac, &b.vz(), bc),
                    "big_add_small_assign" => m.vec_znx_big_add_small_assign(&mut res.big_mut::<BE>(), rc, &a.vz(), ac),
                    "big_sub" => m.vec_znx_big_sub(&mut res.big_mut::<BE>(), rc, &a.big::<BE>(), ac, &b.big::<BE>(), bc),
                    "big_sub_assign" => m.vec_znx_big_sub_assign(&mut res.big_mut::<BE>(), rc, &a.big::<BE>(), ac),
                    "big_sub_negate_assign" => m.vec_znx_big_sub_negate_assign(&mut res.big_mut::<BE>(), rc, &a.big::<BE>(), ac),
                    "big_sub_small_a" => m.vec_znx_big_sub_small_a(&mut res.big_mut::<BE>(), rc, &a.vz(), ac, &b.big::<BE>(), bc),
                    "big_sub_small_b" => m.vec_znx_big_sub_small_b(&mut res.big_mut::<BE>(), rc, &a.big::<BE>(), ac, &b.vz(), bc),
                    "big_sub_small_assign" => m.vec_znx_big_sub_small_assign(&mut res.big_mut::<BE>(), rc, &a.vz(), ac),
                    "big_sub_small_negate_assign" => m.vec_znx_big_sub_small_negate_assign(&mut res.big_mut::<BE>(), rc, &a.vz(), ac),
                    "big_negate" => m.vec_znx_big_negate(&mut res.big_mut::<BE>(), rc, &a.big::<BE>(), ac),
                    "big_negate_assign" => m.vec_znx_big_negate_assign(&mut res.big_mut::<BE>(), rc),
                    "big_automorphism" => m.vec_znx_big_automorphism(k, &mut res.big_mut::<BE>(), rc, &a.big::<BE>(), ac),
                    "big_automorphism_assign" => m.vec_znx_big_automorphism_assign(k, &mut res.big_mut::<BE>(), rc, scratch),
                    // ---- normalisation and shifts (C08)
                    "normalize" => m.vec_znx_normalize(&mut res.vz_mut(), p.rb, k, rc, &a.vz(), p.ab, ac, scratch),
                    "normalize_assign" => m.vec_znx_normalize_assign(p.rb, &mut res.vz_mut(), rc, scratch),
                    "lsh" => m.vec_znx_lsh(p.rb, k as usize, &mut res.vz_mut(), rc, &a.vz(), ac, scratch),
                    "lsh_add_into" => m.vec_znx_lsh_add_into(p.rb, k as usize, &mut res.vz_mut(), rc, &a.vz(), ac, scratch),
                    "lsh_sub" => m.vec_znx_lsh_sub(p.rb, k as usize, &mut res.vz_mut(), rc, &a.vz(), ac, scratch),
                    "lsh_assign" => m.vec_znx_lsh_assign(p.rb, k as usize, &mut res.vz_mut(), rc, scratch),
                    "rsh" => m.vec_znx_rsh(p.rb, k as usize, &mut res.vz_mut(), rc, &a.vz(), ac, scratch),
                    "rsh_add_into" => m.vec_znx_rsh_add_into(p.rb, k as usize, &mut res.vz_mut(), rc, &a.vz(), ac, scratch),
                    "rsh_sub" => m.vec_znx_rsh_sub(p.rb, k as usize, &mut res.vz_mut(), rc, &a.vz(), ac, scratch),
                    "rsh_assign" => m.vec_znx_rsh_assign(p.rb, k as usize, &mut res.vz_mut(), rc, scratch),
                    "big_normalize" => m.vec_znx_big_normalize(&mut res.vz_mut(), p.rb, k, rc, &a.big::<BE>(), p.ab, ac, scratch),
                    "big_normalize_add_assign" => {
                        m.vec_znx_big_normalize_add_assign(&mut res.vz_mut(), p.rb, k, rc, &a.big::<BE>(), p.ab, ac, scratch)
                    }
                    "big_normalize_sub_assign" => {
                        m.vec_znx_big_normalize_sub_assign(&mut res.vz_mut(), p.rb, k, rc, &a.big::<BE>(), p.ab, ac, scratch)
                    }
                    "big_normalize_negate" => m.vec_znx_big_normalize_negate(&mut res.vz_mut(), p.rb, k, rc, &a.big::<BE>(), p.ab, ac, scratch),
                    other => panic!("harness: unknown op {other}"),
                }
            }));
            let panic = r.err().unwrap_or_default();
            let mut frame_ok = a.buf.unchanged_except(&snap_a, &[]) && b.buf.unchanged_except(&snap_b, &[]) && s.buf.unchanged_except(&snap_s, &[]);
            let d;
            if op == "split_ring" {
                for (q, o) in parts.iter().enumerate() {
                    frame_ok &= o.buf.unchanged_except(&snap_parts[q], &o.col_ranges());
                }
                frame_ok &= res.buf.unchanged_except(&snap_res, &[]);
                d = parts[p.part].read();
            } else {
                for (q, o) in parts.iter().enumerate() {
                    frame_ok &= o.buf.unchanged_except(&snap_parts[q], &[]);
                }
                frame_ok &= res.buf.unchanged_except(&snap_res, &res.col_ranges());
                d = res.read();
            }
            Outcome { scr: scr_log, d, frame_ok, panic }
        }
    };
}

hal_backend!(exec_fft64ref, FFT64Ref);
hal_backend!(exec_fft64avx, FFT64Avx);
hal_backend!(exec_ntt120ref, NTT120Ref);
hal_backend!(exec_ntt120avx, NTT120Avx);

pub struct Mods {
    a: HashMap<usize, Module<FFT64Ref>>,
    b: HashMap<usize, Module<FFT64Avx>>,
    c: HashMap<usize, Module<NTT120Ref>>,
    d: HashMap<usize, Module<NTT120Avx>>,
}
impl Mods {
    pub fn new() -> Self {
        Mods { a: HashMap::new(), b: HashMap::new(), c: HashMap::new(), d: HashMap::new() }
    }
    pub fn exec(&mut self, be: usize, p: &Plan, fill: u64) -> Outcome {
        match be {
            0 => exec_fft64ref(&mut self.a, p, fill),
            1 => exec_fft64avx(&mut self.b, p, fill),
            2 => exec_ntt120ref(&mut self.c, p, fill),
            _ => exec_ntt120avx(&mut self.d, p, fill),
        }
    }
}

fn col_json(c: &Col) -> Value {
    json!(c)
}

/// Runs one descriptor on 4 back-ends x 2 fills and renders the trace event.
pub fn run_case(mods: &mut Mods, c: &Value, seed: u64) -> Value {
    let p = make_plan(c, seed);
    let mut groups: Vec<(Vec<Value>, Vec<Vec<i128>>, String)> = Vec::new();
    let mut frame = true;
    let mut frame_bad: Vec<String> = vec![];
    let mut scr_all: Vec<Value> = vec![];
    for be in 0..4 {
        for fill in 0..2u64 {
            let o = mods.exec(be, &p, fill + 1);
            if p.exact {
                scr_all.push(json!({"b": be, "f": fill, "calls": o.scr}));
            }
            if !o.frame_ok {
                frame = false;
                frame_bad.push(format!("{}:{}", BACKENDS[be], fill));
            }
            let who = json!({"b": be, "f": fill});
            if let Some(g) = groups.iter_mut().find(|g| g.1 == o.d && g.2 == o.panic) {
                g.0.push(who);
            } else {
                groups.push((vec![who], o.d, o.panic));
            }
        }
    }
    let agree_only = c.get("chk").and_then(|v| v.as_str()) == Some("agree");
    let outs: Vec<Value> = groups
        .into_iter()
        .map(|(who, d, panic)| {
            if agree_only {
                // values exceed TLC's native integers: log a 30-bit digest of the outcome instead
                let mut h: u64 = 0xcbf29ce484222325;
                for l in d.iter() {
                    for x in l.iter() {
                        h = (h ^ (*x as u64)).wrapping_mul(0x100000001b3);
                        h = (h ^ ((*x >> 64) as u64)).wrapping_mul(0x100000001b3);
                    }
                }
                return json!({"who": who, "d": [[(h >> 34) as i64]], "panic": panic});
            }
            let dj: Vec<Vec<i64>> = d.iter().map(|l| l.iter().map(|&x| x.clamp(i64::MIN as i128, i64::MAX as i128) as i64).collect()).collect();
            json!({"who": who, "d": dj, "panic": panic})
        })
        .collect();
    let b = base_op(&p.op);
    let mut ins = serde_json::Map::new();
    ins.insert("a".into(), col_json(&p.da));
    ins.insert("b".into(), col_json(&p.db));
    ins.insert("r".into(), if p.uses_r { col_json(&p.dr) } else { json!([]) });
    ins.insert("s".into(), json!(p.ds[0]));
    ins.insert("parts".into(), if b == "merge_rings" { json!(p.dparts) } else { json!([]) });
    json!({
        "id": gu(c, "id", 0),
        "op": p.op,
        "n": p.n,
        "na": p.na,
        "rs": p.rs,
        "p": {"k": p.k, "limb": p.limb, "part": p.part, "rb": p.rb, "ab": p.ab, "vclass": p.vclass},
        "shape": {"rcols": p.rcols, "rcol": p.rcol, "acols": p.acols, "acol": p.acol, "bcols": p.bcols, "bcol": p.bcol, "rextra": p.rextra},
        "ins": if agree_only { json!({}) } else { Value::Object(ins) },
        "outs": outs,
        "frame": frame,
        "frame_bad": frame_bad,
        "scr": scr_all,
        "did": gu(c, "did", 0),
        "chunk": gu(c, "chunk", 0),
        "nchunks": gu(c, "nchunks", 1),
        "alpha": c.get("alpha").cloned().unwrap_or(json!([])),
        "chk": c.get("chk").cloned().unwrap_or(json!("full")),
    })
}

// ------------------------------------------------------------------------------------------------
// Integer encoding / decoding of limb vectors (C08, second half).  Backend independent; executed
// from two garbage pre-fills so that "other columns and coefficients untouched" and "every limb of
// the column defined" are part of the frame check.
pub fn run_encode_case(c: &Value, seed: u64) -> Value {
    use dashu_float::{FBig, round::mode::HalfEven};
    let p = make_plan(c, seed);
    let b = p.rb;
    let k = p.k as usize;
    let x: Vec<i64> = p.da[0].clone();
    let idx = p.limb; // coefficient index for the single-coefficient forms
    let mut groups: Vec<(Vec<Value>, Value, String)> = Vec::new();
    let mut frame = true;
    for fill in 0..2u64 {
        let f = (fill + 1).wrapping_mul(0x51ED27).wrapping_add(17);
        let mut res = Opd::new(p.n, p.rcols, p.rs, p.rextra, p.rcol, 8, f ^ 1);
        let coeff_form = p.op == "encode_coeff_i64";
        if coeff_form {
            res.write(&p.dr);
        }
        let snap = res.buf.snapshot();
        let r = guarded(|| {
            let mut v = res.vz_mut();
            match p.op.as_str() {
                "encode_vec_i64" => v.encode_vec_i64(b, p.rcol, k, &x),
                "encode_vec_i128" => {
                    let xx: Vec<i128> = x.iter().map(|&t| t as i128).collect();
                    v.encode_vec_i128(b, p.rcol, k, &xx)
                }
                "encode_coeff_i64" => v.encode_coeff_i64(b, p.rcol, k, idx, x[0]),
                other => panic!("harness: unknown encode op {other}"),
            }
        });
        let mut panic = r.err().unwrap_or_default();
        frame &= res.buf.unchanged_except(&snap, &res.col_ranges());
        let d = res.read();
        let dj: Vec<Vec<i64>> = d.iter().map(|l| l.iter().map(|&t| t as i64).collect()).collect();
        // decode through every public decoder
        let dec = guarded(|| {
            let v = res.vz();
            let mut v64 = vec![0i64; p.n];
            v.decode_vec_i64(b, p.rcol, k, &mut v64);
            let mut v128 = vec![0i128; p.n];
            v.decode_vec_i128(b, p.rcol, k, &mut v128);
            let c64: Vec<i64> = (0..p.n).map(|i| v.decode_coeff_i64(b, p.rcol, k, i)).collect();
            let mut fl: Vec<FBig<HalfEven>> = vec![FBig::<HalfEven>::ZERO; p.n];
            v.decode_vec_float(b, p.rcol, &mut fl);
            // exact numerator over 2^(size*b): value * 2^(size*b) must be an integer
            let sh = (p.rs * b) as isize;
            let flt: Vec<String> = fl
                .iter()
                .map(|y| {
                    let scaled = y.clone() << sh;
                    let (i, fr) = (scaled.clone().trunc(), scaled.fract());
                    if fr != FBig::<HalfEven>::ZERO { "frac".to_string() } else { format!("{}", i.to_int().value()) }
                })
                .collect();
            (v64, v128.iter().map(|&t| t as i64).collect::<Vec<i64>>(), c64, flt)
        });
        let decj = match dec {
            Ok((v64, v128, c64, flt)) => {
                let fl: Vec<Value> = flt.iter().map(|s| s.parse::<i64>().map(|v| json!(v)).unwrap_or(json!(s))).collect();
                json!({"v64": v64, "v128": v128, "c64": c64, "flt": fl})
            }
            Err(e) => {
                if panic.is_empty() {
                    panic = format!("decode: {e}");
                }
                json!({"v64": [], "v128": [], "c64": [], "flt": []})
            }
        };
        let who = json!({"b": 0, "f": fill});
        let val = json!({"d": dj, "dec": decj});
        if let Some(g) = groups.iter_mut().find(|g| g.1 == val && g.2 == panic) {
            g.0.push(who);
        } else {
            groups.push((vec![who], val, panic));
        }
    }
    let outs: Vec<Value> = groups.into_iter().map(|(who, val, panic)| json!({"who": who, "d": val["d"], "dec": val["dec"], "panic": panic})).collect();
    json!({
        "id": gu(c, "id", 0), "op": p.op, "n": p.n, "na": p.na, "rs": p.rs,
        "p": {"k": p.k, "limb": p.limb, "part": 0, "rb": p.rb, "ab": p.ab, "vclass": p.vclass},
        "shape": {"rcols": p.rcols, "rcol": p.rcol, "acols": 1, "acol": 0, "bcols": 1, "bcol": 0, "rextra": p.rextra},
        "ins": {"a": json!(p.da), "b": json!([]), "r": if p.op == "encode_coeff_i64" { json!(p.dr) } else { json!([]) }, "s": json!([]), "parts": json!([])},
        "outs": outs, "frame": frame, "frame_bad": if frame { json!([]) } else { json!(["encode"]) }, "scr": json!([]),
        "did": gu(c, "did", 0), "chunk": gu(c, "chunk", 0), "nchunks": gu(c, "nchunks", 1),
        "alpha": c.get("alpha").cloned().unwrap_or(json!([])),
        "chk": c.get("chk").cloned().unwrap_or(json!("full")),
    })
}
