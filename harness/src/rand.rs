//! Randomness of fresh encryptions (C06) and seed-compressed objects (C19).
//! kind "dep":  one layout encrypted under controlled changes of (plaintext, secret, mask seed, error seed);
//!              logs digests of the mask part and of the body part of every run.
//! kind "stat": many independent encryptions of one layout, raw limbs logged (TLC computes the errors).
//! kind "c19":  compressed encryption -> decompression, against per-cell standard encryption under the stored seeds.
use crate::util::{Rng, guarded};
use poulpy_core::api::*;
use poulpy_core::layouts::compressed::*;
use poulpy_core::layouts::prepared::*;
use poulpy_core::layouts::*;
use poulpy_cpu_avx::{FFT64Avx, NTT120Avx};
use poulpy_cpu_ref::{FFT64Ref, NTT120Ref};
use poulpy_hal::api::*;
use poulpy_hal::layouts::*;
use poulpy_hal::source::Source;
use serde_json::{Value, json};
use std::collections::HashMap;

fn gu(c: &Value, k: &str, d: u64) -> u64 {
    c.get(k).and_then(|v| v.as_u64()).unwrap_or(d)
}
fn seed32(x: u64) -> [u8; 32] {
    let mut s = [0u8; 32];
    Rng::new(x).fill(&mut s);
    s
}
fn fnv(words: &[i64]) -> String {
    let mut h: u64 = 0xcbf29ce484222325;
    for w in words {
        for b in w.to_le_bytes() {
            h ^= b as u64;
            h = h.wrapping_mul(0x100000001b3);
        }
    }
    format!("{:016x}", h)
}
fn dump_glwe_ref(g: &GLWE<&[u8]>) -> Value {
    let v = g.data();
    let cols: Vec<Vec<Vec<i64>>> = (0..v.cols()).map(|c| (0..v.size()).map(|j| v.at(c, j).to_vec()).collect()).collect();
    json!({"rank": g.rank().0, "b": g.base2k().0, "size": v.size(), "d": cols})
}
/// (mask words, body words) of a GLWE view
fn split_glwe(g: &GLWE<&[u8]>, mask: &mut Vec<i64>, body: &mut Vec<i64>) {
    let v = g.data();
    for j in 0..v.size() {
        body.extend_from_slice(v.at(0, j));
    }
    for c in 1..v.cols() {
        for j in 0..v.size() {
            mask.extend_from_slice(v.at(c, j));
        }
    }
}

pub struct Obj {
    pub mask: Vec<i64>,
    pub body: Vec<i64>,
    pub cells: Vec<Value>,     // GLWE dumps in (row-major) cell order, or one LWE dump
    pub seeds: Vec<Vec<u8>>,   // stored seeds of a compressed object
    pub ser_same: bool,        // compressed -> bytes -> compressed -> decompress gives the same cells
    pub refc: Vec<Value>,      // wrapper keys: the cells of the plain GGLWECompressed encryption of (plaintext columns, key, seed)
    pub drawn: Vec<Vec<u8>>,   // wrapper keys: the seeds the master stream yields in drawing order (public Source API)
}

macro_rules! rand_backend {
    ($fname:ident, $BE:ty) => {
        /// Encrypts one object of the layout under the given variant ids.
        pub fn $fname(mods: &mut HashMap<usize, Module<$BE>>, c: &Value, pt_id: u64, sk_id: u64, xa_id: u64, xe_id: u64) -> Result<Obj, String> {
            type BE = $BE;
            let n = gu(c, "n", 8) as usize;
            if !mods.contains_key(&n) {
                mods.insert(n, Module::<BE>::new(n as u64));
            }
            let m: &Module<BE> = &mods[&n];
            let layout = c["layout"].as_str().unwrap().to_string();
            let (b, size, rank) = (gu(c, "b", 3) as u32, gu(c, "size", 3) as u32, gu(c, "rank", 1) as u32);
            let koff = gu(c, "koff", 0) as u32;
            let (dnum, dsize) = (gu(c, "dnum", 2) as u32, gu(c, "dsize", 1) as u32);
            let k = size * b - koff;
            let ni = NoiseInfos::new(k as usize, gu(c, "sigma10", 32) as f64 / 10.0, gu(c, "bound10", 192) as f64 / 10.0).unwrap();
            guarded(|| {
                let deg = Degree(n as u32);
                let mut source_xs = Source::new(seed32(0x5000 + sk_id));
                let mut source_xe = Source::new(seed32(0x6000 + xe_id));
                let seed_xa = seed32(0x7000 + xa_id);
                let mut source_xa = Source::new(seed_xa);
                let mut sk = GLWESecret::alloc(deg, Rank(rank));
                sk.fill_ternary_prob(0.5, &mut source_xs);
                let mut skp: GLWESecretPrepared<DeviceBuf<BE>, BE> = m.glwe_secret_prepared_alloc(Rank(rank));
                m.glwe_secret_prepare(&mut skp, &sk);
                let mut scratch = ScratchOwned::<BE>::alloc(1 << 20);
                let mut prng = Rng::new(0x8000 + pt_id);
                let half = 1i64 << (b - 1);
                let mut pt = GLWEPlaintext::alloc(deg, Base2K(b), TorusPrecision(size * b));
                for j in 0..pt.data.size() {
                    for x in pt.data.at_mut(0, j).iter_mut() {
                        *x = prng.sym(half).clamp(-half, half - 1);
                    }
                }
                let rin = gu(c, "rin", 1) as usize;
                let mut spt = ScalarZnx::alloc(n, rin);
                let smag = gu(c, "smag", 1) as i64;
                for ci in 0..rin {
                    for x in spt.at_mut(ci, 0).iter_mut() {
                        *x = prng.sym(smag);
                    }
                }
                let mut o = Obj { mask: vec![], body: vec![], cells: vec![], seeds: vec![], ser_same: true, refc: vec![], drawn: vec![] };
                o.cells.push(json!({"sk": (0..rank as usize).map(|i| sk.verif_data().at(i, 0).to_vec()).collect::<Vec<_>>(),
                                    "pt": {"b": b, "size": pt.data.size(), "d": (0..pt.data.size()).map(|j| pt.data.at(0, j).to_vec()).collect::<Vec<_>>()},
                                    "spt": spt.at(0, 0).to_vec(), "spts": (0..rin).map(|ci| spt.at(ci, 0).to_vec()).collect::<Vec<_>>()}));
                match layout.as_str() {
                    "glwe" => {
                        let mut ct = GLWE::alloc(deg, Base2K(b), TorusPrecision(k), Rank(rank));
                        m.glwe_encrypt_sk(&mut ct, &pt, &skp, &ni, &mut source_xe, &mut source_xa, scratch.borrow());
                        split_glwe(&ct.to_ref(), &mut o.mask, &mut o.body);
                        o.cells.push(dump_glwe_ref(&ct.to_ref()));
                    }
                    "glwe_c" => {
                        let mut cc = GLWECompressed::alloc(deg, Base2K(b), TorusPrecision(k), Rank(rank));
                        m.glwe_compressed_encrypt_sk(&mut cc, &pt, &skp, seed_xa, &ni, &mut source_xe, scratch.borrow());
                        let mut ct = GLWE::alloc(deg, Base2K(b), TorusPrecision(k), Rank(rank));
                        m.decompress_glwe(&mut ct, &cc);
                        split_glwe(&ct.to_ref(), &mut o.mask, &mut o.body);
                        o.cells.push(dump_glwe_ref(&ct.to_ref()));
                        o.seeds.push(cc.seed().to_vec());
                        // serialisation round trip of the compressed form
                        let mut bytes: Vec<u8> = vec![];
                        cc.write_to(&mut bytes).unwrap();
                        let mut cc2 = GLWECompressed::alloc(deg, Base2K(b), TorusPrecision(k), Rank(rank));
                        cc2.read_from(&mut std::io::Cursor::new(&bytes)).unwrap();
                        let mut ct2 = GLWE::alloc(deg, Base2K(b), TorusPrecision(k), Rank(rank));
                        m.decompress_glwe(&mut ct2, &cc2);
                        o.ser_same = ct2.data().raw() == ct.data().raw();
                    }
                    "lwe" => {
                        let nl = gu(c, "nlwe", 5) as u32;
                        let mut skl = LWESecret::alloc(Degree(nl));
                        skl.fill_ternary_prob(0.5, &mut Source::new(seed32(0x5100 + sk_id)));
                        let mut lpt = LWEPlaintext::alloc(Base2K(b), TorusPrecision(size * b));
                        for j in 0..lpt.data().size() {
                            lpt.data_mut().at_mut(0, j)[0] = pt.data.at(0, j)[0];
                        }
                        let mut ct = LWE::alloc(Degree(nl), Base2K(b), TorusPrecision(k));
                        m.lwe_encrypt_sk(&mut ct, &lpt, &skl, &ni, &mut source_xe, &mut source_xa, scratch.borrow());
                        let v = ct.data();
                        let limbs: Vec<Vec<i64>> = (0..v.size()).map(|j| v.at(0, j).to_vec()).collect();
                        for l in limbs.iter() {
                            o.body.push(l[0]);
                            o.mask.extend_from_slice(&l[1..]);
                        }
                        o.cells[0]["sk"] = json!([skl.verif_data().at(0, 0).to_vec()]);
                        o.cells.push(json!({"rank": 0, "lwe": 1, "b": b, "size": v.size(), "n": nl, "d": [limbs]}));
                    }
                    "ksk" | "atk" | "tsk" => {
                        if layout == "ksk" {
                            // "plaintext" of a switching key = the input secret
                            let mut sk_in = GLWESecret::alloc(deg, Rank(rank));
                            sk_in.fill_ternary_prob(0.5, &mut Source::new(seed32(0x5200 + pt_id)));
                            let mut ksk = GLWESwitchingKey::alloc(deg, Base2K(b), TorusPrecision(k), Rank(rank), Rank(rank), Dnum(dnum), Dsize(dsize));
                            m.glwe_switching_key_encrypt_sk(&mut ksk, &sk_in, &sk, &ni, &mut source_xe, &mut source_xa, scratch.borrow());
                            o.cells[0]["sk_in"] = json!((0..rank as usize).map(|i| sk_in.verif_data().at(i, 0).to_vec()).collect::<Vec<_>>());
                            for r in 0..dnum as usize {
                                for i in 0..rank as usize {
                                    let cell = ksk.at(r, i);
                                    split_glwe(&cell, &mut o.mask, &mut o.body);
                                    o.cells.push(dump_glwe_ref(&cell));
                                }
                            }
                        } else if layout == "atk" {
                            let p: i64 = if pt_id % 2 == 0 { 5 } else { -1 };
                            o.cells[0]["p"] = json!(p);
                            let mut atk = GLWEAutomorphismKey::alloc(deg, Base2K(b), TorusPrecision(k), Rank(rank), Dnum(dnum), Dsize(dsize));
                            m.glwe_automorphism_key_encrypt_sk(&mut atk, p, &sk, &ni, &mut source_xe, &mut source_xa, scratch.borrow());
                            for r in 0..dnum as usize {
                                for i in 0..rank as usize {
                                    let cell = atk.at(r, i);
                                    split_glwe(&cell, &mut o.mask, &mut o.body);
                                    o.cells.push(dump_glwe_ref(&cell));
                                }
                            }
                        } else {
                            let mut tsk = GLWETensorKey::alloc(deg, Base2K(b), TorusPrecision(k), Rank(rank), Dnum(dnum), Dsize(dsize));
                            m.glwe_tensor_key_encrypt_sk(&mut tsk, &sk, &ni, &mut source_xe, &mut source_xa, scratch.borrow());
                            let pairs = ((rank * (rank + 1)) / 2).max(1) as usize;
                            for r in 0..dnum as usize {
                                for i in 0..pairs {
                                    let g = GGLWEToRef::to_ref(&tsk);
                                    let cell = g.at(r, i);
                                    split_glwe(&cell, &mut o.mask, &mut o.body);
                                    o.cells.push(dump_glwe_ref(&cell));
                                }
                            }
                        }
                    }
                    "ggsw" | "ggsw_c" => {
                        let mut g = GGSW::alloc(deg, Base2K(b), TorusPrecision(k), Rank(rank), Dnum(dnum), Dsize(dsize));
                        if layout == "ggsw" {
                            m.ggsw_encrypt_sk(&mut g, &spt, &skp, &ni, &mut source_xe, &mut source_xa, scratch.borrow());
                        } else {
                            let mut gc = GGSWCompressed::alloc(deg, Base2K(b), TorusPrecision(k), Rank(rank), Dnum(dnum), Dsize(dsize));
                            m.ggsw_compressed_encrypt_sk(&mut gc, &spt, &skp, seed_xa, &ni, &mut source_xe, scratch.borrow());
                            m.decompress_ggsw(&mut g, &gc);
                            o.seeds = gc.seed().iter().map(|s| s.to_vec()).collect();
                            let mut bytes: Vec<u8> = vec![];
                            gc.write_to(&mut bytes).unwrap();
                            let mut gc2 = GGSWCompressed::alloc(deg, Base2K(b), TorusPrecision(k), Rank(rank), Dnum(dnum), Dsize(dsize));
                            gc2.read_from(&mut std::io::Cursor::new(&bytes)).unwrap();
                            let mut g2 = GGSW::alloc(deg, Base2K(b), TorusPrecision(k), Rank(rank), Dnum(dnum), Dsize(dsize));
                            m.decompress_ggsw(&mut g2, &gc2);
                            for r in 0..dnum as usize {
                                for cc in 0..rank as usize + 1 {
                                    if g2.at(r, cc).data().at(0, 0) != g.at(r, cc).data().at(0, 0) || g2.at(r, cc).data().at(rank as usize, size as usize - 1) != g.at(r, cc).data().at(rank as usize, size as usize - 1) {
                                        o.ser_same = false;
                                    }
                                }
                            }
                        }
                        for r in 0..dnum as usize {
                            for cc in 0..rank as usize + 1 {
                                let cell = g.at(r, cc);
                                split_glwe(&cell, &mut o.mask, &mut o.body);
                                o.cells.push(dump_glwe_ref(&cell));
                            }
                        }
                    }
                    "gglwe_c" => {
                        let ri = Rank(rin as u32);
                        let mut gc = GGLWECompressed::alloc(deg, Base2K(b), TorusPrecision(k), ri, Rank(rank), Dnum(dnum), Dsize(dsize));
                        m.gglwe_compressed_encrypt_sk(&mut gc, &spt, &skp, seed_xa, &ni, &mut source_xe, scratch.borrow());
                        let mut g = GGLWE::alloc(deg, Base2K(b), TorusPrecision(k), ri, Rank(rank), Dnum(dnum), Dsize(dsize));
                        m.decompress_gglwe(&mut g, &gc);
                        o.seeds = gc.seed().iter().map(|s| s.to_vec()).collect();
                        let mut bytes: Vec<u8> = vec![];
                        gc.write_to(&mut bytes).unwrap();
                        let mut gc2 = GGLWECompressed::alloc(deg, Base2K(b), TorusPrecision(k), ri, Rank(rank), Dnum(dnum), Dsize(dsize));
                        gc2.read_from(&mut std::io::Cursor::new(&bytes)).unwrap();
                        let mut g2 = GGLWE::alloc(deg, Base2K(b), TorusPrecision(k), ri, Rank(rank), Dnum(dnum), Dsize(dsize));
                        m.decompress_gglwe(&mut g2, &gc2);
                        for r in 0..dnum as usize {
                            for ci in 0..rin {
                                let (x, y) = (g.at(r, ci), g2.at(r, ci));
                                for col in 0..rank as usize + 1 {
                                    for j in 0..size as usize {
                                        if x.data().at(col, j) != y.data().at(col, j) {
                                            o.ser_same = false;
                                        }
                                    }
                                }
                                split_glwe(&x, &mut o.mask, &mut o.body);
                                o.cells.push(dump_glwe_ref(&x));
                            }
                        }
                    }
                    // compressed key wrappers (C19): each is a GGLWECompressed encryption of specific plaintext columns under a
                    // specific key; logged: the decompressed cells, the stored seeds, and as reference the cells of the PLAIN
                    // gglwe_compressed_encrypt_sk run on (columns, key, seed) computed here through public APIs only
                    "ksk_c" | "atk_c" | "tsk_c" | "tgk_c" => {
                        let rk = rank as usize;
                        // reference: plain compressed GGLWE of `cols` columns under `key` with `seed`, decompressed
                        let plain = |cols: &ScalarZnx<Vec<u8>>, ncols: usize, key: &GLWESecretPrepared<DeviceBuf<BE>, BE>, seed: [u8; 32], xe: &mut Source, refc: &mut Vec<Value>, drawn: &mut Vec<Vec<u8>>| {
                            let mut sc = ScratchOwned::<BE>::alloc(1 << 20);
                            let mut gc = GGLWECompressed::alloc(deg, Base2K(b), TorusPrecision(k), Rank(ncols as u32), Rank(rank), Dnum(dnum), Dsize(dsize));
                            m.gglwe_compressed_encrypt_sk(&mut gc, cols, key, seed, &ni, xe, sc.borrow());
                            let mut g = GGLWE::alloc(deg, Base2K(b), TorusPrecision(k), Rank(ncols as u32), Rank(rank), Dnum(dnum), Dsize(dsize));
                            m.decompress_gglwe(&mut g, &gc);
                            for r in 0..dnum as usize {
                                for ci in 0..ncols {
                                    refc.push(dump_glwe_ref(&g.at(r, ci)));
                                }
                            }
                            let mut src = Source::new(seed);
                            for _ in 0..(dnum as usize * ncols) {
                                drawn.push(src.new_seed().to_vec());
                            }
                        };
                        let mut xe_ref = Source::new(seed32(0x6000 + xe_id));
                        // negacyclic product of two secret polynomials (schoolbook, harness side)
                        let prod = |x: &[i64], y: &[i64]| -> Vec<i64> {
                            let mut z = vec![0i64; n];
                            for i in 0..n {
                                for j in 0..n {
                                    let t = x[i] * y[j];
                                    if i + j < n { z[i + j] += t } else { z[i + j - n] -= t }
                                }
                            }
                            z
                        };
                        let skd: Vec<Vec<i64>> = (0..rk).map(|i| sk.verif_data().at(i, 0).to_vec()).collect();
                        if layout == "ksk_c" {
                            let mut sk_in = GLWESecret::alloc(deg, Rank(rank));
                            sk_in.fill_ternary_prob(0.5, &mut Source::new(seed32(0x5200 + pt_id)));
                            o.cells[0]["sk_in"] = json!((0..rk).map(|i| sk_in.verif_data().at(i, 0).to_vec()).collect::<Vec<_>>());
                            let mut kc = GLWESwitchingKeyCompressed::alloc(deg, Base2K(b), TorusPrecision(k), Rank(rank), Rank(rank), Dnum(dnum), Dsize(dsize));
                            m.glwe_switching_key_compressed_encrypt_sk(&mut kc, &sk_in, &sk, seed_xa, &ni, &mut source_xe, scratch.borrow());
                            let mut kd = GLWESwitchingKey::alloc(deg, Base2K(b), TorusPrecision(k), Rank(rank), Rank(rank), Dnum(dnum), Dsize(dsize));
                            m.decompress_glwe_switching_key(&mut kd, &kc);
                            for r in 0..dnum as usize {
                                for i in 0..rk {
                                    o.cells.push(dump_glwe_ref(&kd.at(r, i)));
                                }
                            }
                            o.seeds = GGLWECompressedSeedMut::seed_mut(&mut kc).iter().map(|s| s.to_vec()).collect();
                            let mut cols = ScalarZnx::alloc(n, rk);
                            for i in 0..rk {
                                cols.at_mut(i, 0).copy_from_slice(sk_in.verif_data().at(i, 0));
                            }
                            plain(&cols, rk, &skp, seed_xa, &mut xe_ref, &mut o.refc, &mut o.drawn);
                        } else if layout == "atk_c" {
                            let p: i64 = [5i64, -1, 3, 2 * n as i64 - 3][(gu(c, "pid", 0) % 4) as usize];
                            o.cells[0]["p"] = json!(p);
                            let mut kc = GLWEAutomorphismKeyCompressed::alloc(deg, Base2K(b), TorusPrecision(k), Rank(rank), Dnum(dnum), Dsize(dsize));
                            m.glwe_automorphism_key_compressed_encrypt_sk(&mut kc, p, &sk, seed_xa, &ni, &mut source_xe, scratch.borrow());
                            let mut kd = GLWEAutomorphismKey::alloc(deg, Base2K(b), TorusPrecision(k), Rank(rank), Dnum(dnum), Dsize(dsize));
                            m.decompress_automorphism_key(&mut kd, &kc);
                            for r in 0..dnum as usize {
                                for i in 0..rk {
                                    o.cells.push(dump_glwe_ref(&kd.at(r, i)));
                                }
                            }
                            o.seeds = GGLWECompressedSeedMut::seed_mut(&mut kc).iter().map(|s| s.to_vec()).collect();
                            // the key of the cells is pi_{p^-1}(s), which cannot be built through the public API: the reference is taken
                            // under s itself and only its MASK columns are compared (a mask is a function of the stored seed alone);
                            // the bodies are judged by the specification on their phases
                            let mut cols = ScalarZnx::alloc(n, rk);
                            for i in 0..rk {
                                cols.at_mut(i, 0).copy_from_slice(&skd[i]);
                            }
                            plain(&cols, rk, &skp, seed_xa, &mut xe_ref, &mut o.refc, &mut o.drawn);
                        } else if layout == "tsk_c" {
                            let pairs = (rk * (rk + 1)) / 2;
                            let mut kc = GLWETensorKeyCompressed::alloc(deg, Base2K(b), TorusPrecision(k), Rank(rank), Dnum(dnum), Dsize(dsize));
                            m.glwe_tensor_key_compressed_encrypt_sk(&mut kc, &sk, seed_xa, &ni, &mut source_xe, scratch.borrow());
                            let mut kd = GLWETensorKey::alloc(deg, Base2K(b), TorusPrecision(k), Rank(rank), Dnum(dnum), Dsize(dsize));
                            m.decompress_tensor_key(&mut kd, &kc);
                            let g = GGLWEToRef::to_ref(&kd);
                            for r in 0..dnum as usize {
                                for i in 0..pairs {
                                    o.cells.push(dump_glwe_ref(&g.at(r, i)));
                                }
                            }
                            o.seeds = GGLWECompressedSeedMut::seed_mut(&mut kc).iter().map(|s| s.to_vec()).collect();
                            // columns: s_i * s_j for i <= j, row-major over the upper triangle
                            let mut cols = ScalarZnx::alloc(n, pairs);
                            let mut idx = 0;
                            for i in 0..rk {
                                for j in i..rk {
                                    cols.at_mut(idx, 0).copy_from_slice(&prod(&skd[i], &skd[j]));
                                    idx += 1;
                                }
                            }
                            plain(&cols, pairs, &skp, seed_xa, &mut xe_ref, &mut o.refc, &mut o.drawn);
                        } else {
                            let mut kc = GGLWEToGGSWKeyCompressed::alloc(deg, Base2K(b), TorusPrecision(k), Rank(rank), Dnum(dnum), Dsize(dsize));
                            <Module<BE> as poulpy_core::api::GGLWEToGGSWKeyCompressedEncryptSk<BE>>::gglwe_to_ggsw_key_encrypt_sk(m, &mut kc, &sk, seed_xa, &ni, &mut source_xe, scratch.borrow());
                            let mut kd = GGLWEToGGSWKey::alloc(deg, Base2K(b), TorusPrecision(k), Rank(rank), Dnum(dnum), Dsize(dsize));
                            // (GGLWEToGGSWKeyDecompress is not implemented for Module: decompress key by key)
                            for i in 0..rk {
                                m.decompress_gglwe(kd.at_mut(i), kc.at(i));
                            }
                            let mut master = Source::new(seed_xa);
                            for i in 0..rk {
                                for r in 0..dnum as usize {
                                    for j in 0..rk {
                                        o.cells.push(dump_glwe_ref(&kd.at(i).at(r, j)));
                                    }
                                }
                                for s in kc.at(i).seed().iter() {
                                    o.seeds.push(s.to_vec());
                                }
                                let mut cols = ScalarZnx::alloc(n, rk);
                                for j in 0..rk {
                                    cols.at_mut(j, 0).copy_from_slice(&prod(&skd[i], &skd[j]));
                                }
                                let branch = master.new_seed();
                                plain(&cols, rk, &skp, branch, &mut xe_ref, &mut o.refc, &mut o.drawn);
                            }
                        }
                    }
                    "brk_c" => {
                        // compressed blind-rotation key (C19): one compressed GGSW of the constant s_lwe[i] per LWE coefficient, each under
                        // its own branch seed drawn from the master stream; the bundle has no decompression routine of its own, so its
                        // serialisation is cut back into GGSWCompressed objects (public readers) which are decompressed one by one
                        use poulpy_bin_fhe::blind_rotation::{BlindRotationKeyCompressed, BlindRotationKeyCompressedEncryptSk, BlindRotationKeyLayout, CGGI};
                        let nl = gu(c, "nlwe", 4) as usize;
                        let mut skl = LWESecret::alloc(Degree(nl as u32));
                        if nl % 2 == 0 {
                            skl.fill_binary_block(2, &mut Source::new(seed32(0x5100 + sk_id)));
                        } else {
                            skl.fill_binary_prob(0.5, &mut Source::new(seed32(0x5100 + sk_id)));
                        }
                        o.cells[0]["sk_lwe"] = json!(skl.raw().to_vec());
                        let lay = BlindRotationKeyLayout { n_glwe: deg, n_lwe: Degree(nl as u32), base2k: Base2K(b), k: TorusPrecision(k), dnum: Dnum(dnum), rank: Rank(rank) };
                        let mut kc = BlindRotationKeyCompressed::<Vec<u8>, CGGI>::alloc(&lay);
                        m.blind_rotation_key_compressed_encrypt_sk(&mut kc, &skp, &skl, seed_xa, &ni, &mut source_xe, scratch.borrow());
                        let mut bytes: Vec<u8> = vec![];
                        kc.write_to(&mut bytes).unwrap();
                        let mut kc2 = BlindRotationKeyCompressed::<Vec<u8>, CGGI>::alloc(&lay);
                        kc2.read_from(&mut std::io::Cursor::new(&bytes)).unwrap();
                        let mut bytes2: Vec<u8> = vec![];
                        kc2.write_to(&mut bytes2).unwrap();
                        o.ser_same = bytes == bytes2;
                        let mut one: Vec<u8> = vec![];
                        GGSWCompressed::alloc_from_infos(&lay).write_to(&mut one).unwrap();
                        let head = bytes.len() - nl * one.len();
                        let mut master = Source::new(seed_xa);
                        for i in 0..nl {
                            let mut gc = GGSWCompressed::alloc_from_infos(&lay);
                            gc.read_from(&mut &bytes[head + i * one.len()..head + (i + 1) * one.len()]).unwrap();
                            let mut g = GGSW::alloc_from_infos(&lay);
                            m.decompress_ggsw(&mut g, &gc);
                            for r in 0..dnum as usize {
                                for cc in 0..rank as usize + 1 {
                                    o.cells.push(dump_glwe_ref(&g.at(r, cc)));
                                }
                            }
                            for sd in gc.seed().iter() {
                                o.seeds.push(sd.to_vec());
                            }
                            let mut branch = Source::new(master.new_seed());
                            for _ in 0..dnum as usize * (rank as usize + 1) {
                                o.drawn.push(branch.new_seed().to_vec());
                            }
                        }
                    }
                    "tgk" => {
                        // GGLWE-to-GGSW key: one GGLWE per secret column i, whose columns are s_i * s_j
                        let mut kd = GGLWEToGGSWKey::alloc(deg, Base2K(b), TorusPrecision(k), Rank(rank), Dnum(dnum), Dsize(dsize));
                        <Module<BE> as poulpy_core::api::GGLWEToGGSWKeyEncryptSk<BE>>::gglwe_to_ggsw_key_encrypt_sk(m, &mut kd, &sk, &ni, &mut source_xe, &mut source_xa, scratch.borrow());
                        for i in 0..rank as usize {
                            for r in 0..dnum as usize {
                                for j in 0..rank as usize {
                                    let cell = kd.at(i).at(r, j);
                                    split_glwe(&cell, &mut o.mask, &mut o.body);
                                    o.cells.push(dump_glwe_ref(&cell));
                                }
                            }
                        }
                    }
                    "pk_diff" => {
                        // two public-key encryptions of the same plaintext with the same ephemeral secret stream and different
                        // error streams: their difference is exactly the difference of the fresh errors of every column
                        let mut pk = GLWEPublicKey::alloc(deg, Base2K(b), TorusPrecision(k), Rank(rank));
                        m.glwe_public_key_generate(&mut pk, &skp, &ni, &mut Source::new(seed32(0x9100 + sk_id)), &mut Source::new(seed32(0x9200 + sk_id)));
                        let mut pkp: GLWEPublicKeyPrepared<DeviceBuf<BE>, BE> = m.glwe_public_key_prepared_alloc_from_infos(&pk);
                        m.glwe_public_key_prepare(&mut pkp, &pk);
                        let mut c1 = GLWE::alloc(deg, Base2K(b), TorusPrecision(k), Rank(rank));
                        let mut c2 = GLWE::alloc(deg, Base2K(b), TorusPrecision(k), Rank(rank));
                        m.glwe_encrypt_pk(&mut c1, &pt, &pkp, &ni, &mut Source::new(seed_xa), &mut source_xe, scratch.borrow());
                        m.glwe_encrypt_pk(&mut c2, &pt, &pkp, &ni, &mut Source::new(seed_xa), &mut Source::new(seed32(0x6800 + xe_id)), scratch.borrow());
                        let mut diff = GLWE::alloc(deg, Base2K(b), TorusPrecision(k), Rank(rank));
                        for col in 0..rank as usize + 1 {
                            for j in 0..size as usize {
                                let (x, y) = (c1.data().at(col, j).to_vec(), c2.data().at(col, j).to_vec());
                                for (d, (p, q)) in diff.data_mut().at_mut(col, j).iter_mut().zip(x.iter().zip(y.iter())) {
                                    *d = p - q;
                                }
                            }
                        }
                        split_glwe(&c1.to_ref(), &mut o.mask, &mut o.body);
                        o.cells.push(dump_glwe_ref(&diff.to_ref()));
                    }
                    other => panic!("harness: unknown rand layout {other}"),
                }
                o
            })
        }
    };
}

rand_backend!(rand_fft64ref, FFT64Ref);
rand_backend!(rand_fft64avx, FFT64Avx);
rand_backend!(rand_ntt120ref, NTT120Ref);
rand_backend!(rand_ntt120avx, NTT120Avx);

// ---- key bundles (C06): the circuit-bootstrapping key is generated by its bundle routine with three DIFFERENT radices /
// precisions / noise levels for its sub-keys; the serialised bundle is cut back into stand-alone objects through the public
// readers (blind-rotation key = distribution tag, count, GGSWs; count, (Galois element, automorphism key)*; GGLWE-to-GGSW
// key) and the requested part is logged as ordinary "stat" events of the elementary layouts (ggsw / atk / tgk)
macro_rules! cbk_backend {
    ($fname:ident, $BE:ty) => {
        /// ids = (LWE secret, GLWE secret, mask seed, error seed); part = "brk" | "atk" | "tsk" (events of that sub-key) or "all"
        /// (no events: only the mask / body words of every cell of the three sub-keys, for the dependency experiments)
        pub fn $fname(c: &Value, rep: u64, ids: (u64, u64, u64, u64), part: &str) -> Result<(Vec<Value>, Vec<i64>, Vec<i64>), String> {
            use poulpy_bin_fhe::blind_rotation::{BlindRotationKey, BlindRotationKeyLayout, CGGI};
            use poulpy_bin_fhe::circuit_bootstrapping::*;
            type BE = $BE;
            let n = gu(c, "n", 8) as usize;
            let rank = gu(c, "rank", 2) as u32;
            let nlwe = gu(c, "nlwe", 4) as u32;
            let part = part.to_string();
            let lay = |k: &str| -> Vec<u32> { c[k].as_array().unwrap().iter().map(|v| v.as_u64().unwrap() as u32).collect() };
            let (lb, la, lt) = (lay("brk"), lay("atk"), lay("tsk")); // [b, size, dnum, dsize]
            let (sigma, bound) = (gu(c, "sigma10", 32) as f64 / 10.0, gu(c, "bound10", 192) as f64 / 10.0);
            guarded(|| {
                let m: Module<BE> = Module::<BE>::new(n as u64);
                let deg = Degree(n as u32);
                let brk_layout = BlindRotationKeyLayout { n_glwe: deg, n_lwe: Degree(nlwe), base2k: Base2K(lb[0]), k: TorusPrecision(lb[0] * lb[1]), dnum: Dnum(lb[2]), rank: Rank(rank) };
                let atk_layout = GLWEAutomorphismKeyLayout { n: deg, base2k: Base2K(la[0]), k: TorusPrecision(la[0] * la[1]), dnum: Dnum(la[2]), rank: Rank(rank), dsize: Dsize(la[3]) };
                let tsk_layout = GGLWEToGGSWKeyLayout { n: deg, base2k: Base2K(lt[0]), k: TorusPrecision(lt[0] * lt[1]), dnum: Dnum(lt[2]), dsize: Dsize(lt[3]), rank: Rank(rank) };
                let infos = CircuitBootstrappingKeyLayout { brk_layout, atk_layout, tsk_layout };
                let enc = CircuitBootstrappingEncryptionInfos {
                    brk: NoiseInfos::new((lb[0] * lb[1]) as usize, sigma, bound).unwrap(),
                    atk: NoiseInfos::new((la[0] * la[1]) as usize, sigma, bound).unwrap(),
                    tsk: NoiseInfos::new((lt[0] * lt[1]) as usize, sigma, bound).unwrap(),
                };
                let mut source_xe = Source::new(seed32(0xA100 + ids.3));
                let mut source_xa = Source::new(seed32(0xA200 + ids.2));
                let mut sk_lwe = LWESecret::alloc(Degree(nlwe));
                sk_lwe.fill_binary_block(2, &mut Source::new(seed32(0xA300 + ids.0)));
                let mut sk = GLWESecret::alloc(deg, Rank(rank));
                sk.fill_ternary_prob(0.5, &mut Source::new(seed32(0xA000 + ids.1)));
                let mut scratch = ScratchOwned::<BE>::alloc(1 << 20);
                let mut key: CircuitBootstrappingKey<Vec<u8>, CGGI> = CircuitBootstrappingKey::alloc_from_infos(&infos);
                key.encrypt_sk(&m, &sk_lwe, &sk, &enc, &mut source_xe, &mut source_xa, scratch.borrow());
                let mut blob: Vec<u8> = vec![];
                key.write_to(&mut blob).unwrap();
                let ser = |w: &dyn Fn(&mut Vec<u8>)| -> usize {
                    let mut v: Vec<u8> = vec![];
                    w(&mut v);
                    v.len()
                };
                let len_brk = ser(&|v| BlindRotationKey::<Vec<u8>, CGGI>::alloc(&brk_layout).write_to(v).unwrap());
                let len_ggsw = ser(&|v| GGSW::alloc_from_infos(&brk_layout).write_to(v).unwrap());
                let len_atk = ser(&|v| GLWEAutomorphismKey::alloc_from_infos(&atk_layout).write_to(v).unwrap());
                let len_tsk = ser(&|v| GGLWEToGGSWKey::alloc_from_infos(&tsk_layout).write_to(v).unwrap());
                let skd: Vec<Vec<i64>> = (0..rank as usize).map(|i| sk.verif_data().at(i, 0).to_vec()).collect();
                let mut out: Vec<Value> = vec![];
                let mut ev = |layout: &str, l: &Vec<u32>, aux: Value, cells: Vec<Value>| {
                    let mut e = c.clone();
                    e["ev"] = json!("stat");
                    e["layout"] = json!(layout);
                    e["b"] = json!(l[0]);
                    e["size"] = json!(l[1]);
                    e["dnum"] = json!(l[2]);
                    e["dsize"] = json!(l[3]);
                    e["rep"] = json!(rep);
                    e["aux"] = aux;
                    e["cells"] = json!(cells);
                    e["panic"] = json!("");
                    out.push(e);
                };
                let (mut mask, mut body): (Vec<i64>, Vec<i64>) = (vec![], vec![]);
                {
                    {
                        let head = len_brk - nlwe as usize * len_ggsw;
                        for i in 0..nlwe as usize {
                            let mut g = GGSW::alloc_from_infos(&brk_layout);
                            let sl = &blob[head + i * len_ggsw..head + (i + 1) * len_ggsw];
                            g.read_from(&mut &sl[..]).unwrap();
                            let mut spt = vec![0i64; n];
                            spt[0] = sk_lwe.raw()[i];
                            let mut cells = vec![];
                            for r in 0..lb[2] as usize {
                                for cc in 0..rank as usize + 1 {
                                    cells.push(dump_glwe_ref(&g.at(r, cc)));
                                    split_glwe(&g.at(r, cc), &mut mask, &mut body);
                                }
                            }
                            if part == "brk" {
                                ev("ggsw", &lb, json!({"sk": skd, "spt": spt}), cells);
                            }
                        }
                    }
                    {
                        let mut off = len_brk;
                        let cnt = u64::from_le_bytes(blob[off..off + 8].try_into().unwrap()) as usize;
                        off += 8;
                        for _ in 0..cnt {
                            let p = i64::from_le_bytes(blob[off..off + 8].try_into().unwrap());
                            off += 8;
                            let mut a = GLWEAutomorphismKey::alloc_from_infos(&atk_layout);
                            a.read_from(&mut &blob[off..off + len_atk]).unwrap();
                            off += len_atk;
                            let mut cells = vec![];
                            for r in 0..la[2] as usize {
                                for i in 0..rank as usize {
                                    cells.push(dump_glwe_ref(&a.at(r, i)));
                                    split_glwe(&a.at(r, i), &mut mask, &mut body);
                                }
                            }
                            if part == "atk" {
                                ev("atk", &la, json!({"sk": skd, "p": p}), cells);
                            }
                        }
                    }
                    {
                        let mut t = GGLWEToGGSWKey::alloc_from_infos(&tsk_layout);
                        t.read_from(&mut &blob[blob.len() - len_tsk..]).unwrap();
                        let mut cells = vec![];
                        for i in 0..rank as usize {
                            for r in 0..lt[2] as usize {
                                for j in 0..rank as usize {
                                    cells.push(dump_glwe_ref(&t.at(i).at(r, j)));
                                    split_glwe(&t.at(i).at(r, j), &mut mask, &mut body);
                                }
                            }
                        }
                        if part == "tsk" {
                            ev("tgk", &lt, json!({"sk": skd}), cells);
                        }
                    }
                }
                (out, mask, body)
            })
        }
    };
}
cbk_backend!(cbk_fft64ref, FFT64Ref);
cbk_backend!(cbk_fft64avx, FFT64Avx);
cbk_backend!(cbk_ntt120ref, NTT120Ref);
cbk_backend!(cbk_ntt120avx, NTT120Avx);

pub struct RMods {
    a: HashMap<usize, Module<FFT64Ref>>,
    b: HashMap<usize, Module<FFT64Avx>>,
    c: HashMap<usize, Module<NTT120Ref>>,
    d: HashMap<usize, Module<NTT120Avx>>,
}
impl RMods {
    pub fn new() -> Self {
        RMods { a: HashMap::new(), b: HashMap::new(), c: HashMap::new(), d: HashMap::new() }
    }
    fn exec(&mut self, be: usize, c: &Value, v: (u64, u64, u64, u64)) -> Result<Obj, String> {
        match be {
            0 => rand_fft64ref(&mut self.a, c, v.0, v.1, v.2, v.3),
            1 => rand_fft64avx(&mut self.b, c, v.0, v.1, v.2, v.3),
            2 => rand_ntt120ref(&mut self.c, c, v.0, v.1, v.2, v.3),
            _ => rand_ntt120avx(&mut self.d, c, v.0, v.1, v.2, v.3),
        }
    }
}

/// standard per-cell encryption under the stored seeds (C19 reference), FFT64Ref / any backend
fn reference_cells(mods: &mut RMods, be: usize, c: &Value, seeds: &[Vec<u8>], xe_id: u64, pt_id: u64, sk_id: u64) -> Vec<Value> {
    // Re-encrypts every cell with the PUBLIC standard GLWE encryption: mask stream = Source::new(stored seed of the cell),
    // one shared error stream consumed in the library's cell order.
    let mut c2 = c.clone();
    let layout = c["layout"].as_str().unwrap();
    let (b, size, rank) = (gu(c, "b", 3) as u32, gu(c, "size", 3) as u32, gu(c, "rank", 1) as u32);
    let (dnum, dsize) = (gu(c, "dnum", 2) as u32, gu(c, "dsize", 1) as u32);
    let _ = (&mut c2, size, rank);
    let n = gu(c, "n", 8) as usize;
    macro_rules! go {
        ($BE:ty, $mods:expr) => {{
            type BE = $BE;
            if !$mods.contains_key(&n) {
                $mods.insert(n, Module::<BE>::new(n as u64));
            }
            let m: &Module<BE> = &$mods[&n];
            let deg = Degree(n as u32);
            let koff = gu(c, "koff", 0) as u32;
            let k = size * b - koff;
            let ni = NoiseInfos::new(k as usize, gu(c, "sigma10", 32) as f64 / 10.0, gu(c, "bound10", 192) as f64 / 10.0).unwrap();
            let mut source_xs = Source::new(seed32(0x5000 + sk_id));
            let mut source_xe = Source::new(seed32(0x6000 + xe_id));
            let mut sk = GLWESecret::alloc(deg, Rank(rank));
            sk.fill_ternary_prob(0.5, &mut source_xs);
            let mut skp: GLWESecretPrepared<DeviceBuf<BE>, BE> = m.glwe_secret_prepared_alloc(Rank(rank));
            m.glwe_secret_prepare(&mut skp, &sk);
            let mut scratch = ScratchOwned::<BE>::alloc(1 << 20);
            let mut prng = Rng::new(0x8000 + pt_id);
            let half = 1i64 << (b - 1);
            let mut pt = GLWEPlaintext::alloc(deg, Base2K(b), TorusPrecision(size * b));
            for j in 0..pt.data.size() {
                for x in pt.data.at_mut(0, j).iter_mut() {
                    *x = prng.sym(half).clamp(-half, half - 1);
                }
            }
            let mut out: Vec<Value> = vec![];
            let mut tobytes = |s: &Vec<u8>| {
                let mut a = [0u8; 32];
                a.copy_from_slice(s);
                a
            };
            if layout == "glwe_c" {
                let mut ct = GLWE::alloc(deg, Base2K(b), TorusPrecision(k), Rank(rank));
                let mut xa = Source::new(tobytes(&seeds[0]));
                m.glwe_encrypt_sk(&mut ct, &pt, &skp, &ni, &mut source_xe, &mut xa, scratch.borrow());
                out.push(dump_glwe_ref(&ct.to_ref()));
            } else {
                // gglwe_c: the library encrypts column-of-the-input-secret outer, row inner (that is the order in which the
                // shared error stream is consumed); the cell (r, ci) is stored at r * rin + ci
                let rin = gu(c, "rin", 1) as usize;
                let mut spt = ScalarZnx::alloc(n, rin);
                let mut prng2 = Rng::new(0x8000 + pt_id);
                for j in 0..size as usize {
                    for _ in 0..n {
                        let _ = prng2.sym(half);
                        let _ = j;
                    }
                }
                for ci in 0..rin {
                    for x in spt.at_mut(ci, 0).iter_mut() {
                        *x = prng2.sym(gu(c, "smag", 1) as i64);
                    }
                }
                let mut cells: Vec<Value> = vec![Value::Null; dnum as usize * rin];
                for ci in 0..rin {
                    for r in 0..dnum as usize {
                        let mut cpt = GLWEPlaintext::alloc(deg, Base2K(b), TorusPrecision(k));
                        cpt.data.at_mut(0, (dsize as usize - 1) + r * dsize as usize).copy_from_slice(spt.at(ci, 0));
                        let mut ct = GLWE::alloc(deg, Base2K(b), TorusPrecision(k), Rank(rank));
                        let mut xa = Source::new(tobytes(&seeds[r * rin + ci]));
                        m.glwe_encrypt_sk(&mut ct, &cpt, &skp, &ni, &mut source_xe, &mut xa, scratch.borrow());
                        cells[r * rin + ci] = dump_glwe_ref(&ct.to_ref());
                    }
                }
                out = cells;
            }
            out
        }};
    }
    match be {
        0 => go!(FFT64Ref, mods.a),
        1 => go!(FFT64Avx, mods.b),
        2 => go!(NTT120Ref, mods.c),
        _ => go!(NTT120Avx, mods.d),
    }
}

pub fn run_rand(mods: &mut RMods, c: &Value, out: &mut dyn FnMut(Value)) {
    let kind = c["kind"].as_str().unwrap();
    match kind {
        "dep" => {
            // variants: (pt, sk, xa, xe)
            let vars: [(&str, (u64, u64, u64, u64)); 6] =
                [("base", (0, 0, 0, 0)), ("pt", (1, 0, 0, 0)), ("sk", (0, 1, 0, 0)), ("xa", (0, 0, 1, 0)), ("xe", (0, 0, 0, 1)), ("again", (0, 0, 0, 0))];
            let mut runs: Vec<Value> = vec![];
            for be in 0..4 {
                for (name, v) in vars.iter() {
                    // key bundles: the "plaintext" is the LWE secret; mask / body over every cell of the three sub-keys
                    let res = if c["layout"] == "cbk" {
                        (match be { 0 => cbk_fft64ref(c, 0, *v, "all"), 1 => cbk_fft64avx(c, 0, *v, "all"), 2 => cbk_ntt120ref(c, 0, *v, "all"), _ => cbk_ntt120avx(c, 0, *v, "all") })
                            .map(|(_, mask, body)| Obj { mask, body, cells: vec![], seeds: vec![], ser_same: true, refc: vec![], drawn: vec![] })
                    } else {
                        mods.exec(be, c, *v)
                    };
                    match res {
                        Ok(o) => runs.push(json!({"be": be, "v": name, "pt": v.0, "sk": v.1, "xa": v.2, "xe": v.3, "mask": fnv(&o.mask), "body": fnv(&o.body), "nmask": o.mask.len(), "nbody": o.body.len(), "panic": ""})),
                        Err(p) => runs.push(json!({"be": be, "v": name, "pt": v.0, "sk": v.1, "xa": v.2, "xe": v.3, "mask": "", "body": "", "nmask": 0, "nbody": 0, "panic": p})),
                    }
                }
            }
            let mut e = c.clone();
            e["ev"] = json!("dep");
            e["runs"] = json!(runs);
            out(e);
        }
        "stat" => {
            let reps = gu(c, "reps", 64);
            for r in 0..reps {
                let be = c.get("be").and_then(|v| v.as_u64()).map(|v| v as usize).unwrap_or((r % 4) as usize);
                let v = (r + 10, r / 7 + 10, r + 10, r + 10);
                if c["layout"] == "cbk" {
                    let part = c["part"].as_str().unwrap();
                    let ids = (r / 5, r / 5, r, r);
                    let res = match be {
                        0 => cbk_fft64ref(c, r, ids, part),
                        1 => cbk_fft64avx(c, r, ids, part),
                        2 => cbk_ntt120ref(c, r, ids, part),
                        _ => cbk_ntt120avx(c, r, ids, part),
                    };
                    match res {
                        Ok((evs, _, _)) => evs.into_iter().for_each(|mut e| {
                            e["be"] = json!(be);
                            out(e)
                        }),
                        Err(p) => {
                            let mut e = c.clone();
                            e["ev"] = json!("stat");
                            e["rep"] = json!(r);
                            e["be"] = json!(be);
                            e["aux"] = json!({});
                            e["cells"] = json!([]);
                            e["panic"] = json!(p);
                            out(e);
                        }
                    }
                    continue;
                }
                let mut e = c.clone();
                e["ev"] = json!("stat");
                e["rep"] = json!(r);
                e["be"] = json!(be);
                match mods.exec(be, c, v) {
                    Ok(o) => {
                        e["aux"] = o.cells[0].clone();
                        e["cells"] = json!(o.cells[1..].to_vec());
                        e["panic"] = json!("");
                    }
                    Err(p) => {
                        e["aux"] = json!({});
                        e["cells"] = json!([]);
                        e["panic"] = json!(p);
                    }
                }
                out(e);
            }
        }
        "c19" => {
            let xa_id = gu(c, "xa", 3);
            let xe_id = gu(c, "xe", 4);
            let mut groups: Vec<(Vec<usize>, Value)> = vec![];
            let mut first: Option<Value> = None;
            for be in 0..4 {
                let rec = match mods.exec(be, c, (2, 2, xa_id, xe_id)) {
                    Ok(o) => {
                        let wrapper = !o.refc.is_empty();
                        let refc = if wrapper { o.refc.clone() } else if c["layout"] == "ggsw_c" || c["layout"] == "brk_c" { vec![] } else { reference_cells(mods, be, c, &o.seeds, xe_id, 2, 2) };
                        // the seeds the master stream yields, in drawing order (public Source API)
                        let mut master = Source::new(seed32(0x7000 + xa_id));
                        let drawn: Vec<Vec<u8>> = if !o.drawn.is_empty() { o.drawn.clone() } else { (0..o.seeds.len()).map(|_| master.new_seed().to_vec()).collect() };
                        json!({"aux": o.cells[0], "cells": o.cells[1..].to_vec(), "ref": refc, "stored": o.seeds, "drawn": drawn,
                               "master": seed32(0x7000 + xa_id).to_vec(), "ser_same": o.ser_same, "panic": ""})
                    }
                    Err(p) => json!({"aux": {}, "cells": [], "ref": [], "stored": [], "drawn": [], "master": [], "ser_same": false, "panic": p}),
                };
                if first.is_none() {
                    first = Some(rec.clone());
                }
                if let Some(g) = groups.iter_mut().find(|g| g.1 == rec) {
                    g.0.push(be);
                } else {
                    groups.push((vec![be], rec));
                }
            }
            let mut e = c.clone();
            e["ev"] = json!("c19");
            e["outs"] = json!(groups.into_iter().map(|(who, rec)| json!({"who": who, "rec": rec})).collect::<Vec<_>>());
            out(e);
        }
        other => panic!("harness: unknown rand kind {other}"),
    }
}
