//! Matrix-level gadget operations (C03 / C04): GGSW key-switch and automorphism (key-switch of column 0 of
//! every row + row expansion through the tensor key), GGSW from GGLWE (row expansion alone), GGLWE external
//! product, automorphism of an automorphism key and GGSW rotation. One-shot behaviours logged with the raw
//! limbs of every cell of the input, of the keys and of the result, plus the clear secrets.
use crate::util::{Rng, guarded, scr_call};
use poulpy_core::api::*;
use poulpy_core::layouts::prepared::*;
use poulpy_core::layouts::*;
use poulpy_cpu_avx::{FFT64Avx, NTT120Avx};
use poulpy_cpu_ref::{FFT64Ref, NTT120Ref};
use poulpy_hal::api::*;
use poulpy_hal::layouts::*;
use poulpy_hal::source::Source;
use serde_json::{Value, json};
use std::collections::HashMap;

fn gu(c: &Value, k: &str, d: u64) -> u64 {
    c.get(k).and_then(|v| v.as_u64()).unwrap_or(d)
}
fn dump_glwe_ref(g: &GLWE<&[u8]>) -> Value {
    let v = g.data();
    let cols: Vec<Vec<Vec<i64>>> = (0..v.cols()).map(|c| (0..v.size()).map(|j| v.at(c, j).to_vec()).collect()).collect();
    json!({"rank": g.rank().0, "b": g.base2k().0, "size": v.size(), "d": cols})
}
fn dump_ggsw(g: &GGSW<Vec<u8>>) -> Value {
    let rank = g.rank().0 as usize;
    json!((0..g.dnum().0 as usize).map(|r| (0..rank + 1).map(|c| dump_glwe_ref(&g.at(r, c))).collect::<Vec<_>>()).collect::<Vec<_>>())
}
fn dump_gglwe(g: &GGLWE<Vec<u8>>) -> Value {
    let (dn, ri) = (g.dnum().0 as usize, g.rank_in().0 as usize);
    json!((0..dn).map(|r| (0..ri).map(|c| dump_glwe_ref(&g.at(r, c))).collect::<Vec<_>>()).collect::<Vec<_>>())
}

fn junk_glwe(cell: &mut GLWE<&mut [u8]>, gr: &mut Rng) {
    let v = cell.data_mut();
    for col in 0..v.cols() {
        for j in 0..v.size() {
            for x in v.at_mut(col, j).iter_mut() {
                *x = gr.next() as i64;
            }
        }
    }
}
fn junk_ggsw(g: &mut GGSW<Vec<u8>>, seed: u64) {
    let mut gr = Rng::new(seed);
    for r in 0..g.dnum().0 as usize {
        for c in 0..g.rank().0 as usize + 1 {
            junk_glwe(&mut g.at_mut(r, c), &mut gr);
        }
    }
}
fn junk_gglwe(g: &mut GGLWE<Vec<u8>>, seed: u64) {
    let mut gr = Rng::new(seed);
    for r in 0..g.dnum().0 as usize {
        for c in 0..g.rank_in().0 as usize {
            junk_glwe(&mut g.at_mut(r, c), &mut gr);
        }
    }
}

pub struct GOut {
    pub res: Value,
    pub a: Value,
    pub key: Value,
    pub tsk: Value,
    pub m: Value,
    pub sk_in: Value,
    pub sk_out: Value,
    pub scr: Vec<Value>,
    pub panic: String,
}

macro_rules! ggsw_backend {
    ($fname:ident, $BE:ty) => {
        pub fn $fname(mods: &mut HashMap<usize, Module<$BE>>, c: &Value, seed: u64, fill: u64) -> GOut {
            type BE = $BE;
            let n = gu(c, "n", 8) as usize;
            if !mods.contains_key(&n) {
                mods.insert(n, Module::<BE>::new(n as u64));
            }
            let m: &Module<BE> = &mods[&n];
            let id = gu(c, "id", 0);
            let op = c["op"].as_str().unwrap();
            let (bin, bkey) = (gu(c, "bin", 4) as u32, gu(c, "bkey", 4) as u32);
            let (sin, skey, sout) = (gu(c, "sin", 2) as u32, gu(c, "skey", 3) as u32, gu(c, "sout", 2) as u32);
            let rank = gu(c, "rin", 1) as u32;
            let (dnum, dsize) = (gu(c, "dnum", 2) as u32, gu(c, "dsize", 1) as u32);
            let (dnum_a, dnum_r) = (gu(c, "dnum_a", 2) as u32, gu(c, "dnum_r", 2) as u32);
            let exact = c.get("scr").and_then(|v| v.as_str()) == Some("exact");
            let mut rng = Rng::new(seed ^ id.wrapping_mul(0x9E3779B97F4A7C15) ^ 0x6657);
            let mkseed = |rng: &mut Rng| {
                let mut s = [0u8; 32];
                rng.fill(&mut s);
                s
            };
            let mut source_xs = Source::new(mkseed(&mut rng));
            let mut source_xe = Source::new(mkseed(&mut rng));
            let mut source_xa = Source::new(mkseed(&mut rng));
            let noise = |k: u32| NoiseInfos::new(k as usize, gu(c, "sigma10", 10) as f64 / 10.0, gu(c, "bound10", 10) as f64 / 10.0).unwrap();
            let f = fill.wrapping_mul(0x9E37).wrapping_add(id);
            let mut scr_log: Vec<Value> = vec![];
            let mut out = GOut {
                res: json!({"rows": []}),
                a: json!({"rows": []}),
                key: json!([]),
                tsk: json!([]),
                m: json!([]),
                sk_in: json!([]),
                sk_out: json!([]),
                scr: vec![],
                panic: String::new(),
            };
            let kkey = skey * bkey;
            let kin = sin * bin;
            let kout = sout * bin;
            let deg = Degree(n as u32);
            let r = guarded(|| {
                let dump_sk = |s: &GLWESecret<Vec<u8>>| json!((0..rank as usize).map(|i| s.verif_data().at(i, 0).to_vec()).collect::<Vec<_>>());
                let mut sk_in = GLWESecret::alloc(deg, Rank(rank));
                sk_in.fill_ternary_prob(0.5, &mut source_xs);
                let mut sk_out = GLWESecret::alloc(deg, Rank(rank));
                sk_out.fill_ternary_prob(0.5, &mut source_xs);
                if !op.starts_with("ggsw_ks") {
                    sk_out = sk_in.clone();
                }
                out.sk_in = dump_sk(&sk_in);
                out.sk_out = dump_sk(&sk_out);
                let mut skp_in: GLWESecretPrepared<DeviceBuf<BE>, BE> = m.glwe_secret_prepared_alloc(Rank(rank));
                m.glwe_secret_prepare(&mut skp_in, &sk_in);
                // the small plaintext polynomial of the input matrix
                let mut prng = Rng::new(seed ^ id ^ 0x3131);
                let m1: Vec<i64> = (0..n).map(|_| prng.sym(1)).collect();
                out.m = json!(m1);
                let mut spt = ScalarZnx::alloc(n, 1);
                spt.at_mut(0, 0).copy_from_slice(&m1);
                // tensor key under the output secret (operations that expand rows)
                let needs_tsk = op.starts_with("ggsw_ks") || op.starts_with("ggsw_auto") || op == "ggsw_from_gglwe";
                let mut tsk_p: Option<GGLWEToGGSWKeyPrepared<DeviceBuf<BE>, BE>> = None;
                if needs_tsk {
                    let mut tsk = GGLWEToGGSWKey::alloc(deg, Base2K(bkey), TorusPrecision(kkey), Rank(rank), Dnum(dnum), Dsize(dsize));
                    let decl = <Module<BE> as poulpy_core::api::GGLWEToGGSWKeyEncryptSk<BE>>::gglwe_to_ggsw_key_encrypt_sk_tmp_bytes(m, &tsk);
                    let ni = noise(kkey);
                    scr_call::<BE, _>(exact, decl, f ^ 25, "gglwe_to_ggsw_key_encrypt_sk", &mut scr_log, |s| {
                        <Module<BE> as poulpy_core::api::GGLWEToGGSWKeyEncryptSk<BE>>::gglwe_to_ggsw_key_encrypt_sk(m, &mut tsk, &sk_out, &ni, &mut source_xe, &mut source_xa, s)
                    });
                    out.tsk = json!((0..rank as usize).map(|i| dump_gglwe(tsk.at(i))).collect::<Vec<_>>());
                    let mut tp: GGLWEToGGSWKeyPrepared<DeviceBuf<BE>, BE> = m.gglwe_to_ggsw_key_prepared_alloc_from_infos(&tsk);
                    let decl = m.gglwe_to_ggsw_key_prepare_tmp_bytes(&tsk);
                    scr_call::<BE, _>(exact, decl, f ^ 26, "gglwe_to_ggsw_key_prepare", &mut scr_log, |s| m.gglwe_to_ggsw_key_prepare(&mut tp, &tsk, s));
                    tsk_p = Some(tp);
                }
                let mut enc_ggsw = |pt: &ScalarZnx<Vec<u8>>, b: u32, k: u32, dn: u32, ds: u32, tag: &str, ex: bool, log: &mut Vec<Value>, xe: &mut Source, xa: &mut Source| {
                    let mut g = GGSW::alloc(deg, Base2K(b), TorusPrecision(k), Rank(rank), Dnum(dn), Dsize(ds));
                    let decl = m.ggsw_encrypt_sk_tmp_bytes(&g);
                    let ni = noise(k);
                    scr_call::<BE, _>(ex, decl, f ^ 21, tag, log, |s| m.ggsw_encrypt_sk(&mut g, pt, &skp_in, &ni, xe, xa, s));
                    g
                };
                let mk_atk = |p: i64, b: u32, k: u32, dn: u32, ds: u32, ex: bool, log: &mut Vec<Value>, xe: &mut Source, xa: &mut Source| {
                    let mut atk = GLWEAutomorphismKey::alloc(deg, Base2K(b), TorusPrecision(k), Rank(rank), Dnum(dn), Dsize(ds));
                    let decl = m.glwe_automorphism_key_encrypt_sk_tmp_bytes(&atk);
                    let ni = noise(k);
                    scr_call::<BE, _>(ex, decl, f ^ 27, "glwe_automorphism_key_encrypt_sk", log, |s| m.glwe_automorphism_key_encrypt_sk(&mut atk, p, &sk_in, &ni, xe, xa, s));
                    atk
                };
                let dump_atk = |k: &GLWEAutomorphismKey<Vec<u8>>, dn: u32| -> Value {
                    json!((0..dn as usize).map(|r_| (0..rank as usize).map(|i| dump_glwe_ref(&k.at(r_, i))).collect::<Vec<_>>()).collect::<Vec<_>>())
                };
                let prep_atk = |atk: &GLWEAutomorphismKey<Vec<u8>>, log: &mut Vec<Value>| {
                    let mut atk_p: GLWEAutomorphismKeyPrepared<DeviceBuf<BE>, BE> = m.glwe_automorphism_key_prepared_alloc_from_infos(atk);
                    let decl = m.glwe_automorphism_key_prepare_tmp_bytes(atk);
                    scr_call::<BE, _>(exact, decl, f ^ 22, "glwe_automorphism_key_prepare", log, |s| m.glwe_automorphism_key_prepare(&mut atk_p, atk, s));
                    atk_p
                };
                match op {
                    "ggsw_ks" | "ggsw_ks_assign" => {
                        let mut ksk = GLWESwitchingKey::alloc(deg, Base2K(bkey), TorusPrecision(kkey), Rank(rank), Rank(rank), Dnum(dnum), Dsize(dsize));
                        {
                            let decl = m.glwe_switching_key_encrypt_sk_tmp_bytes(&ksk);
                            let ni = noise(kkey);
                            scr_call::<BE, _>(exact, decl, f ^ 28, "glwe_switching_key_encrypt_sk", &mut scr_log, |s| {
                                m.glwe_switching_key_encrypt_sk(&mut ksk, &sk_in, &sk_out, &ni, &mut source_xe, &mut source_xa, s)
                            });
                        }
                        out.key = json!((0..dnum as usize).map(|r_| (0..rank as usize).map(|i| dump_glwe_ref(&ksk.at(r_, i))).collect::<Vec<_>>()).collect::<Vec<_>>());
                        let mut ksk_p: GLWESwitchingKeyPrepared<DeviceBuf<BE>, BE> = m.glwe_switching_key_prepared_alloc_from_infos(&ksk);
                        {
                            let decl = m.glwe_switching_key_prepare_tmp_bytes(&ksk);
                            scr_call::<BE, _>(exact, decl, f ^ 22, "glwe_switching_key_prepare", &mut scr_log, |s| m.glwe_switching_key_prepare(&mut ksk_p, &ksk, s));
                        }
                        let a = enc_ggsw(&spt, bin, kin, dnum_a, 1, "ggsw_encrypt_sk", false, &mut scr_log, &mut source_xe, &mut source_xa);
                        out.a = json!({"rows": dump_ggsw(&a)});
                        let tp = tsk_p.as_ref().unwrap();
                        if op == "ggsw_ks" {
                            let mut res = GGSW::alloc(deg, Base2K(bin), TorusPrecision(kout), Rank(rank), Dnum(dnum_r), Dsize(1));
                            junk_ggsw(&mut res, f ^ 31);
                            let decl = m.ggsw_keyswitch_tmp_bytes(&res, &a, &ksk_p, tp);
                            scr_call::<BE, _>(exact, decl, f ^ 24, op, &mut scr_log, |s| m.ggsw_keyswitch(&mut res, &a, &ksk_p, tp, s));
                            out.res = json!({"rows": dump_ggsw(&res)});
                        } else {
                            let mut x = a.clone();
                            let decl = m.ggsw_keyswitch_tmp_bytes(&x, &x, &ksk_p, tp);
                            scr_call::<BE, _>(exact, decl, f ^ 24, op, &mut scr_log, |s| m.ggsw_keyswitch_assign(&mut x, &ksk_p, tp, s));
                            out.res = json!({"rows": dump_ggsw(&x)});
                        }
                    }
                    "ggsw_auto" | "ggsw_auto_assign" => {
                        let p = c["p"].as_i64().unwrap();
                        let atk = mk_atk(p, bkey, kkey, dnum, dsize, exact, &mut scr_log, &mut source_xe, &mut source_xa);
                        out.key = dump_atk(&atk, dnum);
                        let atk_p = prep_atk(&atk, &mut scr_log);
                        let a = enc_ggsw(&spt, bin, kin, dnum_a, 1, "ggsw_encrypt_sk", false, &mut scr_log, &mut source_xe, &mut source_xa);
                        out.a = json!({"rows": dump_ggsw(&a)});
                        let tp = tsk_p.as_ref().unwrap();
                        if op == "ggsw_auto" {
                            let mut res = GGSW::alloc(deg, Base2K(bin), TorusPrecision(kout), Rank(rank), Dnum(dnum_r), Dsize(1));
                            junk_ggsw(&mut res, f ^ 31);
                            let decl = m.ggsw_automorphism_tmp_bytes(&res, &a, &atk_p, tp);
                            scr_call::<BE, _>(exact, decl, f ^ 24, op, &mut scr_log, |s| m.ggsw_automorphism(&mut res, &a, &atk_p, tp, s));
                            out.res = json!({"rows": dump_ggsw(&res)});
                        } else {
                            let mut x = a.clone();
                            let decl = m.ggsw_automorphism_tmp_bytes(&x, &x, &atk_p, tp);
                            scr_call::<BE, _>(exact, decl, f ^ 24, op, &mut scr_log, |s| m.ggsw_automorphism_assign(&mut x, &atk_p, tp, s));
                            out.res = json!({"rows": dump_ggsw(&x)});
                        }
                    }
                    "ggsw_from_gglwe" => {
                        let mut a = GGLWE::alloc(deg, Base2K(bin), TorusPrecision(kin), Rank(1), Rank(rank), Dnum(dnum_a), Dsize(1));
                        {
                            let decl = m.gglwe_encrypt_sk_tmp_bytes(&a);
                            let ni = noise(kin);
                            scr_call::<BE, _>(false, decl, f ^ 23, "gglwe_encrypt_sk", &mut scr_log, |s| m.gglwe_encrypt_sk(&mut a, &spt, &skp_in, &ni, &mut source_xe, &mut source_xa, s));
                        }
                        out.a = json!({"rows": dump_gglwe(&a)});
                        let tp = tsk_p.as_ref().unwrap();
                        let mut res = GGSW::alloc(deg, Base2K(bin), TorusPrecision(kout), Rank(rank), Dnum(dnum_r), Dsize(1));
                        junk_ggsw(&mut res, f ^ 31);
                        let decl = m.ggsw_from_gglwe_tmp_bytes(&res, tp);
                        scr_call::<BE, _>(exact, decl, f ^ 24, op, &mut scr_log, |s| m.ggsw_from_gglwe(&mut res, &a, tp, s));
                        out.res = json!({"rows": dump_ggsw(&res)});
                    }
                    "gglwe_xp" | "gglwe_xp_assign" => {
                        let m2: Vec<i64> = c["m2"].as_array().unwrap().iter().map(|v| v.as_i64().unwrap()).collect();
                        let mut pt2 = ScalarZnx::alloc(n, 1);
                        pt2.at_mut(0, 0).copy_from_slice(&m2);
                        let g = enc_ggsw(&pt2, bkey, kkey, dnum, dsize, "ggsw_encrypt_sk", exact, &mut scr_log, &mut source_xe, &mut source_xa);
                        out.key = dump_ggsw(&g);
                        let mut gp: GGSWPrepared<DeviceBuf<BE>, BE> = m.ggsw_prepared_alloc_from_infos(&g);
                        {
                            let decl = m.ggsw_prepare_tmp_bytes(&g);
                            scr_call::<BE, _>(exact, decl, f ^ 22, "ggsw_prepare", &mut scr_log, |s| m.ggsw_prepare(&mut gp, &g, s));
                        }
                        let ra = gu(c, "ra", 1) as u32;
                        let mut a = GGLWE::alloc(deg, Base2K(bin), TorusPrecision(kin), Rank(ra), Rank(rank), Dnum(dnum_a), Dsize(1));
                        let mut sp = ScalarZnx::alloc(n, ra as usize);
                        let mut prng2 = Rng::new(seed ^ id ^ 0x5151);
                        for ci in 0..ra as usize {
                            for x in sp.at_mut(ci, 0).iter_mut() {
                                *x = prng2.sym(1);
                            }
                        }
                        out.m = json!((0..ra as usize).map(|ci| sp.at(ci, 0).to_vec()).collect::<Vec<_>>());
                        {
                            let decl = m.gglwe_encrypt_sk_tmp_bytes(&a);
                            let ni = noise(kin);
                            scr_call::<BE, _>(false, decl, f ^ 23, "gglwe_encrypt_sk", &mut scr_log, |s| m.gglwe_encrypt_sk(&mut a, &sp, &skp_in, &ni, &mut source_xe, &mut source_xa, s));
                        }
                        out.a = json!({"rows": dump_gglwe(&a)});
                        if op == "gglwe_xp" {
                            let mut res = GGLWE::alloc(deg, Base2K(bin), TorusPrecision(kout), Rank(ra), Rank(rank), Dnum(dnum_r), Dsize(1));
                            junk_gglwe(&mut res, f ^ 31);
                            let decl = m.gglwe_external_product_tmp_bytes(&res, &a, &gp);
                            scr_call::<BE, _>(exact, decl, f ^ 24, op, &mut scr_log, |s| m.gglwe_external_product(&mut res, &a, &gp, s));
                            out.res = json!({"rows": dump_gglwe(&res)});
                        } else {
                            let mut x = a.clone();
                            let decl = m.gglwe_external_product_tmp_bytes(&x, &x, &gp);
                            scr_call::<BE, _>(exact, decl, f ^ 24, op, &mut scr_log, |s| m.gglwe_external_product_assign(&mut x, &gp, s));
                            out.res = json!({"rows": dump_gglwe(&x)});
                        }
                    }
                    "atk_auto" | "atk_auto_assign" => {
                        let (p, p2) = (c["p"].as_i64().unwrap(), c["p2"].as_i64().unwrap());
                        let key = mk_atk(p, bkey, kkey, dnum, dsize, exact, &mut scr_log, &mut source_xe, &mut source_xa);
                        out.key = dump_atk(&key, dnum);
                        let key_p = prep_atk(&key, &mut scr_log);
                        let a = mk_atk(p2, bin, kin, dnum_a, 1, false, &mut scr_log, &mut source_xe, &mut source_xa);
                        out.a = json!({"rows": dump_atk(&a, dnum_a), "p": a.p()});
                        if op == "atk_auto" {
                            let mut res = GLWEAutomorphismKey::alloc(deg, Base2K(bin), TorusPrecision(kout), Rank(rank), Dnum(dnum_r), Dsize(1));
                            let decl = m.glwe_automorphism_key_automorphism_tmp_bytes(&res, &a, &key_p);
                            scr_call::<BE, _>(exact, decl, f ^ 24, op, &mut scr_log, |s| m.glwe_automorphism_key_automorphism(&mut res, &a, &key_p, s));
                            out.res = json!({"rows": dump_atk(&res, dnum_r), "p": res.p()});
                        } else {
                            let mut x = a.clone();
                            let decl = m.glwe_automorphism_key_automorphism_tmp_bytes(&x, &x, &key_p);
                            scr_call::<BE, _>(exact, decl, f ^ 24, op, &mut scr_log, |s| m.glwe_automorphism_key_automorphism_assign(&mut x, &key_p, s));
                            out.res = json!({"rows": dump_atk(&x, dnum_a), "p": x.p()});
                        }
                    }
                    "ggsw_rotate" | "ggsw_rotate_assign" => {
                        let k = c["k"].as_i64().unwrap();
                        let a = enc_ggsw(&spt, bin, kin, dnum_a, 1, "ggsw_encrypt_sk", false, &mut scr_log, &mut source_xe, &mut source_xa);
                        out.a = json!({"rows": dump_ggsw(&a)});
                        if op == "ggsw_rotate" {
                            let mut res = GGSW::alloc(deg, Base2K(bin), TorusPrecision(kout), Rank(rank), Dnum(dnum_r), Dsize(1));
                            junk_ggsw(&mut res, f ^ 31);
                            m.ggsw_rotate(k, &mut res, &a);
                            out.res = json!({"rows": dump_ggsw(&res)});
                        } else {
                            let mut x = a.clone();
                            let decl = m.ggsw_rotate_tmp_bytes();
                            scr_call::<BE, _>(exact, decl, f ^ 24, op, &mut scr_log, |s| m.ggsw_rotate_assign(k, &mut x, s));
                            out.res = json!({"rows": dump_ggsw(&x)});
                        }
                    }
                    other => panic!("harness: unknown ggsw op {other}"),
                }
            });
            out.scr = scr_log;
            out.panic = r.err().unwrap_or_default();
            out
        }
    };
}

ggsw_backend!(g_fft64ref, FFT64Ref);
ggsw_backend!(g_fft64avx, FFT64Avx);
ggsw_backend!(g_ntt120ref, NTT120Ref);
ggsw_backend!(g_ntt120avx, NTT120Avx);

pub struct GMods {
    a: HashMap<usize, Module<FFT64Ref>>,
    b: HashMap<usize, Module<FFT64Avx>>,
    c: HashMap<usize, Module<NTT120Ref>>,
    d: HashMap<usize, Module<NTT120Avx>>,
}
impl GMods {
    pub fn new() -> Self {
        GMods { a: HashMap::new(), b: HashMap::new(), c: HashMap::new(), d: HashMap::new() }
    }
    fn exec(&mut self, be: usize, c: &Value, seed: u64, fill: u64) -> GOut {
        match be {
            0 => g_fft64ref(&mut self.a, c, seed, fill),
            1 => g_fft64avx(&mut self.b, c, seed, fill),
            2 => g_ntt120ref(&mut self.c, c, seed, fill),
            _ => g_ntt120avx(&mut self.d, c, seed, fill),
        }
    }
}

pub fn run_ggsw(mods: &mut GMods, c: &Value, seed: u64) -> Value {
    let exact = c.get("scr").and_then(|v| v.as_str()) == Some("exact");
    let mut groups: Vec<(Vec<Value>, Value, String)> = vec![];
    let mut first: Option<GOut> = None;
    let mut inputs_same = true;
    let mut scr_all: Vec<Value> = vec![];
    for be in 0..4 {
        for fill in 0..2u64 {
            let o = mods.exec(be, c, seed, fill + 1);
            let who = json!({"b": be, "f": fill});
            if exact {
                scr_all.push(json!({"b": be, "f": fill, "calls": o.scr}));
            }
            if let Some(g) = groups.iter_mut().find(|g| g.1 == o.res && g.2 == o.panic) {
                g.0.push(who);
            } else {
                groups.push((vec![who], o.res.clone(), o.panic.clone()));
            }
            match &first {
                None => first = Some(o),
                Some(f0) => {
                    if f0.a != o.a || f0.key != o.key || f0.tsk != o.tsk || f0.sk_in != o.sk_in || f0.sk_out != o.sk_out {
                        inputs_same = false;
                    }
                }
            }
        }
    }
    let f0 = first.unwrap();
    let outs: Vec<Value> = groups.into_iter().map(|(who, res, panic)| json!({"who": who, "res": res, "panic": panic})).collect();
    let mut e = c.clone();
    e["ev"] = json!("ggsw");
    e["a"] = f0.a;
    e["key"] = f0.key;
    e["tsk"] = f0.tsk;
    e["m"] = f0.m;
    e["sk_in"] = f0.sk_in;
    e["sk_out"] = f0.sk_out;
    e["inputs_same"] = json!(inputs_same);
    e["outs"] = json!(outs);
    e["scr"] = json!(scr_all);
    e
}
