//! Gadget-product family (C03 / C04): one-shot behaviours  keygen -> encrypt -> operation, logged with the
//! raw limbs of the input ciphertext, of every key row and of the result, plus both secrets.
//! TLC recomputes the exact gadget product from the key rows and the phases from the secrets.
use crate::util::{Rng, guarded, scr_call};
use poulpy_core::api::*;
use poulpy_core::layouts::prepared::*;
use poulpy_core::layouts::*;
use poulpy_cpu_avx::{FFT64Avx, NTT120Avx};
use poulpy_cpu_ref::{FFT64Ref, NTT120Ref};
use poulpy_hal::api::*;
use poulpy_hal::layouts::*;
use poulpy_hal::source::Source;
use serde_json::{Value, json};
use std::collections::HashMap;

fn gu(c: &Value, k: &str, d: u64) -> u64 {
    c.get(k).and_then(|v| v.as_u64()).unwrap_or(d)
}

fn dump_glwe_ref(g: &GLWE<&[u8]>) -> Value {
    let v = g.data();
    let cols: Vec<Vec<Vec<i64>>> = (0..v.cols()).map(|c| (0..v.size()).map(|j| v.at(c, j).to_vec()).collect()).collect();
    json!({"rank": g.rank().0, "b": g.base2k().0, "size": v.size(), "d": cols})
}
fn dump_glwe(g: &GLWE<Vec<u8>>) -> Value {
    let v = g.data();
    let cols: Vec<Vec<Vec<i64>>> = (0..v.cols()).map(|c| (0..v.size()).map(|j| v.at(c, j).to_vec()).collect()).collect();
    json!({"rank": g.rank().0, "b": g.base2k().0, "size": v.size(), "d": cols})
}

fn dump_lwe(l: &LWE<Vec<u8>>) -> Value {
    let v = l.data();
    let limbs: Vec<Vec<i64>> = (0..v.size()).map(|j| v.at(0, j).to_vec()).collect();
    json!({"rank": 0, "lwe": 1, "b": l.base2k().0, "size": v.size(), "n": l.n().0, "d": [limbs]})
}

pub struct KsOut {
    pub res: Value,
    pub input: Value,
    pub key: Value,
    pub sk_in: Value,
    pub sk_out: Value,
    pub scr: Vec<Value>,
    pub panic: String,
}

macro_rules! ks_backend {
    ($fname:ident, $BE:ty) => {
        pub fn $fname(mods: &mut HashMap<usize, Module<$BE>>, c: &Value, seed: u64, fill: u64) -> KsOut {
            type BE = $BE;
            let n = gu(c, "n", 8) as usize;
            if !mods.contains_key(&n) {
                mods.insert(n, Module::<BE>::new(n as u64));
            }
            let m: &Module<BE> = &mods[&n];
            let id = gu(c, "id", 0);
            let op = c["op"].as_str().unwrap();
            let (bin, bkey, bout) = (gu(c, "bin", 4) as u32, gu(c, "bkey", 4) as u32, gu(c, "bout", 4) as u32);
            let (sin, skey, sout) = (gu(c, "sin", 2) as u32, gu(c, "skey", 3) as u32, gu(c, "sout", 2) as u32);
            let (rin, rout) = (gu(c, "rin", 1) as u32, gu(c, "rout", 1) as u32);
            let (dnum, dsize) = (gu(c, "dnum", 2) as u32, gu(c, "dsize", 1) as u32);
            let exact = c.get("scr").and_then(|v| v.as_str()) == Some("exact");
            let mut rng = Rng::new(seed ^ id.wrapping_mul(0x9E3779B97F4A7C15) ^ 0x5157);
            let mkseed = |rng: &mut Rng| {
                let mut s = [0u8; 32];
                rng.fill(&mut s);
                s
            };
            let mut source_xs = Source::new(mkseed(&mut rng));
            let mut source_xe = Source::new(mkseed(&mut rng));
            let mut source_xa = Source::new(mkseed(&mut rng));
            let noise = |k: u32| NoiseInfos::new(k as usize, gu(c, "sigma10", 10) as f64 / 10.0, gu(c, "bound10", 10) as f64 / 10.0).unwrap();
            let f = fill.wrapping_mul(0x9E37).wrapping_add(id);
            let mut scr_log: Vec<Value> = vec![];
            let mut out = KsOut { res: json!({"rank": -1}), input: json!({"rank": -1}), key: json!([]), sk_in: json!([]), sk_out: json!([]), scr: vec![], panic: String::new() };
            let kkey = skey * bkey;
            let kin = sin * bin;
            let pc = gu(c, "pc", 1);
            let half = 1i64 << (bin - 1);
            // a GLWE under `sk` (rank r) of a plaintext with seeded digits in the input radix
            macro_rules! fresh_glwe {
                ($sk:expr, $r:expr, $salt:expr, $log:expr) => {{
                    let mut skp: GLWESecretPrepared<DeviceBuf<BE>, BE> = m.glwe_secret_prepared_alloc(Rank($r));
                    m.glwe_secret_prepare(&mut skp, $sk);
                    let mut a = GLWE::alloc(Degree(n as u32), Base2K(bin), TorusPrecision(kin), Rank($r));
                    let mut pt = GLWEPlaintext::alloc(Degree(n as u32), Base2K(bin), TorusPrecision(kin));
                    let mut prng = Rng::new(seed ^ id ^ 0x99 ^ ($salt as u64).wrapping_mul(0x1234567));
                    for j in 0..pt.data.size() {
                        for i in 0..n {
                            pt.data.at_mut(0, j)[i] = if pc == 2 { if prng.below(2) == 0 { -half } else { half - 1 } } else { prng.sym(half).clamp(-half, half - 1) };
                        }
                    }
                    let decl = m.glwe_encrypt_sk_tmp_bytes(&a);
                    let ni = noise(kin);
                    scr_call::<BE, _>(false, decl, f ^ 23, "glwe_encrypt_sk", $log, |s| {
                        m.glwe_encrypt_sk(&mut a, &pt, &skp, &ni, &mut source_xe, &mut source_xa, s)
                    });
                    a
                }};
            }
            let r = guarded(|| {
                if op.starts_with("keyswitch") {
                    let mut sk_in = GLWESecret::alloc(Degree(n as u32), Rank(rin));
                    sk_in.fill_ternary_prob(0.5, &mut source_xs);
                    let mut sk_out = GLWESecret::alloc(Degree(n as u32), Rank(rout));
                    sk_out.fill_ternary_prob(0.5, &mut source_xs);
                    out.sk_in = json!((0..rin as usize).map(|i| sk_in.verif_data().at(i, 0).to_vec()).collect::<Vec<_>>());
                    out.sk_out = json!((0..rout as usize).map(|i| sk_out.verif_data().at(i, 0).to_vec()).collect::<Vec<_>>());
                    let mut ksk = GLWESwitchingKey::alloc(Degree(n as u32), Base2K(bkey), TorusPrecision(kkey), Rank(rin), Rank(rout), Dnum(dnum), Dsize(dsize));
                    {
                        let decl = m.glwe_switching_key_encrypt_sk_tmp_bytes(&ksk);
                        let ni = noise(kkey);
                        scr_call::<BE, _>(exact, decl, f ^ 21, "glwe_switching_key_encrypt_sk", &mut scr_log, |s| {
                            m.glwe_switching_key_encrypt_sk(&mut ksk, &sk_in, &sk_out, &ni, &mut source_xe, &mut source_xa, s)
                        });
                    }
                    let rows: Vec<Vec<Value>> = (0..dnum as usize).map(|r_| (0..rin as usize).map(|i| dump_glwe_ref(&ksk.at(r_, i))).collect()).collect();
                    out.key = json!(rows);
                    let mut ksk_p: GLWESwitchingKeyPrepared<DeviceBuf<BE>, BE> = m.glwe_switching_key_prepared_alloc_from_infos(&ksk);
                    {
                        let decl = m.glwe_switching_key_prepare_tmp_bytes(&ksk);
                        scr_call::<BE, _>(exact, decl, f ^ 22, "glwe_switching_key_prepare", &mut scr_log, |s| m.glwe_switching_key_prepare(&mut ksk_p, &ksk, s));
                    }
                    let a = fresh_glwe!(&sk_in, rin, 0, &mut scr_log);
                    out.input = dump_glwe(&a);
                    let mut res = GLWE::alloc(Degree(n as u32), Base2K(bout), TorusPrecision(sout * bout), Rank(rout));
                    Rng::new(f ^ 31).fill(res.data_mut().data.as_mut());
                    match op {
                        "keyswitch" => {
                            let decl = m.glwe_keyswitch_tmp_bytes(&res, &a, &ksk_p);
                            scr_call::<BE, _>(exact, decl, f ^ 24, op, &mut scr_log, |s| m.glwe_keyswitch(&mut res, &a, &ksk_p, s));
                            out.res = dump_glwe(&res);
                        }
                        "keyswitch_assign" => {
                            let mut x = a.clone();
                            let decl = m.glwe_keyswitch_tmp_bytes(&x, &x, &ksk_p);
                            scr_call::<BE, _>(exact, decl, f ^ 24, op, &mut scr_log, |s| m.glwe_keyswitch_assign(&mut x, &ksk_p, s));
                            out.res = dump_glwe(&x);
                        }
                        other => panic!("harness: unknown ks op {other}"),
                    }
                } else if op.starts_with("gglwe_ks") {
                    // every cell of a GGLWE under sk_in is key-switched to sk_out
                    let mut sk_in = GLWESecret::alloc(Degree(n as u32), Rank(rin));
                    sk_in.fill_ternary_prob(0.5, &mut source_xs);
                    let mut sk_out = GLWESecret::alloc(Degree(n as u32), Rank(rout));
                    sk_out.fill_ternary_prob(0.5, &mut source_xs);
                    out.sk_in = json!((0..rin as usize).map(|i| sk_in.verif_data().at(i, 0).to_vec()).collect::<Vec<_>>());
                    out.sk_out = json!((0..rout as usize).map(|i| sk_out.verif_data().at(i, 0).to_vec()).collect::<Vec<_>>());
                    let mut ksk = GLWESwitchingKey::alloc(Degree(n as u32), Base2K(bkey), TorusPrecision(kkey), Rank(rin), Rank(rout), Dnum(dnum), Dsize(dsize));
                    {
                        let decl = m.glwe_switching_key_encrypt_sk_tmp_bytes(&ksk);
                        let ni = noise(kkey);
                        scr_call::<BE, _>(false, decl, f ^ 21, "glwe_switching_key_encrypt_sk", &mut scr_log, |s| {
                            m.glwe_switching_key_encrypt_sk(&mut ksk, &sk_in, &sk_out, &ni, &mut source_xe, &mut source_xa, s)
                        });
                    }
                    let mut ksk_p: GLWESwitchingKeyPrepared<DeviceBuf<BE>, BE> = m.glwe_switching_key_prepared_alloc_from_infos(&ksk);
                    {
                        let decl = m.glwe_switching_key_prepare_tmp_bytes(&ksk);
                        scr_call::<BE, _>(false, decl, f ^ 22, "glwe_switching_key_prepare", &mut scr_log, |s| m.glwe_switching_key_prepare(&mut ksk_p, &ksk, s));
                    }
                    let (ra, dnum_a, dnum_r) = (gu(c, "ra", 2) as u32, gu(c, "dnum_a", 2) as u32, gu(c, "dnum_r", 2) as u32);
                    let mut skp: GLWESecretPrepared<DeviceBuf<BE>, BE> = m.glwe_secret_prepared_alloc(Rank(rin));
                    m.glwe_secret_prepare(&mut skp, &sk_in);
                    let mut a = GGLWE::alloc(Degree(n as u32), Base2K(bin), TorusPrecision(kin), Rank(ra), Rank(rin), Dnum(dnum_a), Dsize(1));
                    let mut spt = ScalarZnx::alloc(n, ra as usize);
                    let mut prng = Rng::new(seed ^ id ^ 0x55);
                    for ci in 0..ra as usize {
                        for x in spt.at_mut(ci, 0).iter_mut() {
                            *x = prng.sym(1);
                        }
                    }
                    {
                        let decl = m.gglwe_encrypt_sk_tmp_bytes(&a);
                        let ni = noise(kin);
                        scr_call::<BE, _>(false, decl, f ^ 23, "gglwe_encrypt_sk", &mut scr_log, |s| m.gglwe_encrypt_sk(&mut a, &spt, &skp, &ni, &mut source_xe, &mut source_xa, s));
                    }
                    let rows = |g: &GGLWE<Vec<u8>>, dn: u32| -> Value {
                        json!((0..dn as usize).map(|r_| (0..ra as usize).map(|i| dump_glwe_ref(&g.at(r_, i))).collect::<Vec<_>>()).collect::<Vec<_>>())
                    };
                    out.input = json!({"rank": -3, "rows": rows(&a, dnum_a)});
                    if op == "gglwe_ks" {
                        let mut res = GGLWE::alloc(Degree(n as u32), Base2K(bin), TorusPrecision(sout * bin), Rank(ra), Rank(rout), Dnum(dnum_r), Dsize(1));
                        let decl = m.gglwe_keyswitch_tmp_bytes(&res, &a, &ksk_p);
                        scr_call::<BE, _>(exact, decl, f ^ 24, op, &mut scr_log, |s| m.gglwe_keyswitch(&mut res, &a, &ksk_p, s));
                        out.res = json!({"rank": -3, "rows": rows(&res, dnum_r)});
                    } else {
                        // in place: needs rank_in == rank_out of the key
                        let decl = m.gglwe_keyswitch_tmp_bytes(&a, &a, &ksk_p);
                        scr_call::<BE, _>(exact, decl, f ^ 24, op, &mut scr_log, |s| m.gglwe_keyswitch_assign(&mut a, &ksk_p, s));
                        out.res = json!({"rank": -3, "rows": rows(&a, dnum_a)});
                    }
                } else if op.starts_with("auto") || op.starts_with("trace") || op == "pack" || op == "packer" {
                    // one secret of rank r; automorphism keys for the Galois elements the operation needs
                    let r_ = rin;
                    let mut sk = GLWESecret::alloc(Degree(n as u32), Rank(r_));
                    sk.fill_ternary_prob(0.5, &mut source_xs);
                    let skd = json!((0..r_ as usize).map(|i| sk.verif_data().at(i, 0).to_vec()).collect::<Vec<_>>());
                    out.sk_in = skd.clone();
                    out.sk_out = skd;
                    let gals: Vec<i64> = if op.starts_with("auto") {
                        vec![c["p"].as_i64().unwrap()]
                    } else if op == "pack" {
                        m.glwe_pack_galois_elements()
                    } else if op == "packer" {
                        poulpy_core::glwe_packer_galois_elements(m)
                    } else {
                        m.glwe_trace_galois_elements()
                    };
                    let mut keys: HashMap<i64, GLWEAutomorphismKeyPrepared<DeviceBuf<BE>, BE>> = HashMap::new();
                    for (gi, &g) in gals.iter().enumerate() {
                        let mut atk = GLWEAutomorphismKey::alloc(Degree(n as u32), Base2K(bkey), TorusPrecision(kkey), Rank(r_), Dnum(dnum), Dsize(dsize));
                        let decl = m.glwe_automorphism_key_encrypt_sk_tmp_bytes(&atk);
                        let ni = noise(kkey);
                        scr_call::<BE, _>(exact && gi == 0, decl, f ^ 21, "glwe_automorphism_key_encrypt_sk", &mut scr_log, |s| {
                            m.glwe_automorphism_key_encrypt_sk(&mut atk, g, &sk, &ni, &mut source_xe, &mut source_xa, s)
                        });
                        let mut atk_p: GLWEAutomorphismKeyPrepared<DeviceBuf<BE>, BE> = m.glwe_automorphism_key_prepared_alloc_from_infos(&atk);
                        let decl = m.glwe_automorphism_key_prepare_tmp_bytes(&atk);
                        scr_call::<BE, _>(exact && gi == 0, decl, f ^ 22, "glwe_automorphism_key_prepare", &mut scr_log, |s| m.glwe_automorphism_key_prepare(&mut atk_p, &atk, s));
                        keys.insert(g, atk_p);
                    }
                    let mut res = GLWE::alloc(Degree(n as u32), Base2K(bout), TorusPrecision(sout * bout), Rank(r_));
                    Rng::new(f ^ 31).fill(res.data_mut().data.as_mut());
                    if op == "packer" {
                        // streaming packer: rounds of N / 2^log_batch adds (Some / None by the presence pattern), each ended by a flush
                        let lb = gu(c, "log_batch", 0) as usize;
                        let rounds: Vec<Vec<u64>> = c["rounds"].as_array().unwrap().iter().map(|r| r.as_array().unwrap().iter().map(|v| v.as_u64().unwrap()).collect()).collect();
                        let acc_infos = GLWELayout { n: Degree(n as u32), base2k: Base2K(bin), k: TorusPrecision(kin), rank: Rank(r_) };
                        let mut packer = poulpy_core::GLWEPacker::alloc(&acc_infos, lb);
                        let infos = keys.automorphism_key_infos();
                        let decl = poulpy_core::glwe_packer_tmp_bytes(m, &acc_infos, &infos);
                        let mut ins_log: Vec<Value> = vec![];
                        let mut outs_log: Vec<Value> = vec![];
                        for (ri, pat) in rounds.iter().enumerate() {
                            let mut round_in: Vec<Value> = vec![];
                            for (j, &present) in pat.iter().enumerate() {
                                if present == 1 {
                                    let ct = fresh_glwe!(&sk, r_, 100 * ri + j + 1, &mut scr_log);
                                    round_in.push(dump_glwe(&ct));
                                    scr_call::<BE, _>(exact, decl, f ^ 24, "glwe_packer_add", &mut scr_log, |s| poulpy_core::glwe_packer_add(m, &mut packer, Some(&ct), &keys, s));
                                } else {
                                    round_in.push(json!({"rank": -9}));
                                    scr_call::<BE, _>(exact, decl, f ^ 24, "glwe_packer_add", &mut scr_log, |s| poulpy_core::glwe_packer_add(m, &mut packer, None::<&GLWE<Vec<u8>>>, &keys, s));
                                }
                            }
                            let mut r2 = GLWE::alloc(Degree(n as u32), Base2K(bout), TorusPrecision(sout * bout), Rank(r_));
                            Rng::new(f ^ 31 ^ ri as u64).fill(r2.data_mut().data.as_mut());
                            scr_call::<BE, _>(exact, decl, f ^ 25, "glwe_packer_flush", &mut scr_log, |s| poulpy_core::glwe_packer_flush(m, &mut packer, &mut r2, s));
                            ins_log.push(json!(round_in));
                            outs_log.push(dump_glwe(&r2));
                        }
                        out.input = json!({"rank": -5, "rounds": ins_log});
                        out.res = json!({"rank": -5, "rounds": outs_log});
                    } else if op == "pack" {
                        let slots: Vec<usize> = c["slots"].as_array().unwrap().iter().map(|v| v.as_u64().unwrap() as usize).collect();
                        let gap = gu(c, "gap", 0) as usize;
                        let mut cts: Vec<GLWE<Vec<u8>>> = slots.iter().map(|&j| fresh_glwe!(&sk, r_, j + 1, &mut scr_log)).collect();
                        out.input = json!({"rank": -2, "slots": slots, "cts": cts.iter().map(dump_glwe).collect::<Vec<_>>()});
                        let infos = keys.automorphism_key_infos();
                        let decl = m.glwe_pack_tmp_bytes(&res, &infos);
                        let mut map: HashMap<usize, &mut GLWE<Vec<u8>>> = HashMap::new();
                        for (ct, &j) in cts.iter_mut().zip(slots.iter()) {
                            map.insert(j, ct);
                        }
                        scr_call::<BE, _>(exact, decl, f ^ 24, op, &mut scr_log, |s| m.glwe_pack(&mut res, map, gap, &keys, s));
                        out.res = dump_glwe(&res);
                    } else {
                        let a = fresh_glwe!(&sk, r_, 0, &mut scr_log);
                        out.input = dump_glwe(&a);
                        let assign = op.ends_with("_assign");
                        let mut x = a.clone();
                        if op.starts_with("trace") {
                            let skip = gu(c, "skip", 0) as usize;
                            let infos = keys.automorphism_key_infos();
                            if assign {
                                let decl = m.glwe_trace_tmp_bytes(&x, &x, &infos);
                                scr_call::<BE, _>(exact, decl, f ^ 24, op, &mut scr_log, |s| m.glwe_trace_assign(&mut x, skip, &keys, s));
                            } else {
                                let decl = m.glwe_trace_tmp_bytes(&res, &a, &infos);
                                scr_call::<BE, _>(exact, decl, f ^ 24, op, &mut scr_log, |s| m.glwe_trace(&mut res, skip, &a, &keys, s));
                            }
                        } else {
                            let key = &keys[&gals[0]];
                            let decl = if assign { m.glwe_automorphism_tmp_bytes(&x, &x, key) } else { m.glwe_automorphism_tmp_bytes(&res, &a, key) };
                            scr_call::<BE, _>(exact, decl, f ^ 24, op, &mut scr_log, |s| match op {
                                "auto" => m.glwe_automorphism(&mut res, &a, key, s),
                                "auto_assign" => m.glwe_automorphism_assign(&mut x, key, s),
                                "auto_add" => m.glwe_automorphism_add(&mut res, &a, key, s),
                                "auto_add_assign" => m.glwe_automorphism_add_assign(&mut x, key, s),
                                "auto_sub" => m.glwe_automorphism_sub(&mut res, &a, key, s),
                                "auto_sub_assign" => m.glwe_automorphism_sub_assign(&mut x, key, s),
                                "auto_sub_negate" => m.glwe_automorphism_sub_negate(&mut res, &a, key, s),
                                "auto_sub_negate_assign" => m.glwe_automorphism_sub_negate_assign(&mut x, key, s),
                                other => panic!("harness: unknown auto op {other}"),
                            });
                        }
                        out.res = if assign { dump_glwe(&x) } else { dump_glwe(&res) };
                    }
                } else {
                    // LWE family: lwe_keyswitch, lwe_from_glwe, glwe_from_lwe, sample_extract
                    let nlwe = gu(c, "nlwe", 4) as u32;
                    let nlwe2 = gu(c, "nlwe2", nlwe as u64) as u32;
                    let lwe_dump_sk = |s: &LWESecret<Vec<u8>>| json!([s.verif_data().at(0, 0).to_vec()]);
                    let mut sk_lwe = LWESecret::alloc(Degree(nlwe));
                    sk_lwe.fill_ternary_prob(0.5, &mut source_xs);
                    let mut sk_glwe = GLWESecret::alloc(Degree(n as u32), Rank(rin));
                    sk_glwe.fill_ternary_prob(0.5, &mut source_xs);
                    let glwe_dump_sk = |s: &GLWESecret<Vec<u8>>, r: u32| json!((0..r as usize).map(|i| s.verif_data().at(i, 0).to_vec()).collect::<Vec<_>>());
                    let mut fresh_lwe = |sk: &LWESecret<Vec<u8>>, nl: u32, log: &mut Vec<Value>, xe: &mut Source, xa: &mut Source| {
                        let mut a = LWE::alloc(Degree(nl), Base2K(bin), TorusPrecision(kin));
                        let mut pt = LWEPlaintext::alloc(Base2K(bin), TorusPrecision(kin));
                        let mut prng = Rng::new(seed ^ id ^ 0x77);
                        for j in 0..pt.data().size() {
                            pt.data_mut().at_mut(0, j)[0] = if pc == 2 { if prng.below(2) == 0 { -half } else { half - 1 } } else { prng.sym(half).clamp(-half, half - 1) };
                        }
                        let decl = m.lwe_encrypt_sk_tmp_bytes(&a);
                        let ni = noise(kin);
                        scr_call::<BE, _>(false, decl, f ^ 23, "lwe_encrypt_sk", log, |s| m.lwe_encrypt_sk(&mut a, &pt, sk, &ni, xe, xa, s));
                        a
                    };
                    match op {
                        "lwe_keyswitch" => {
                            let mut sk_lwe2 = LWESecret::alloc(Degree(nlwe2));
                            sk_lwe2.fill_ternary_prob(0.5, &mut source_xs);
                            out.sk_in = lwe_dump_sk(&sk_lwe);
                            out.sk_out = lwe_dump_sk(&sk_lwe2);
                            let mut ksk = LWESwitchingKey::alloc(Degree(n as u32), Base2K(bkey), TorusPrecision(kkey), Dnum(dnum));
                            let decl = m.lwe_switching_key_encrypt_sk_tmp_bytes(&ksk);
                            let ni = noise(kkey);
                            scr_call::<BE, _>(exact, decl, f ^ 21, "lwe_switching_key_encrypt_sk", &mut scr_log, |s| {
                                m.lwe_switching_key_encrypt_sk(&mut ksk, &sk_lwe, &sk_lwe2, &ni, &mut source_xe, &mut source_xa, s)
                            });
                            let mut ksk_p: LWESwitchingKeyPrepared<DeviceBuf<BE>, BE> = m.lwe_switching_key_prepared_alloc_from_infos(&ksk);
                            let decl = m.lwe_switching_key_prepare_tmp_bytes(&ksk);
                            scr_call::<BE, _>(exact, decl, f ^ 22, "lwe_switching_key_prepare", &mut scr_log, |s| m.lwe_switching_key_prepare(&mut ksk_p, &ksk, s));
                            let a = fresh_lwe(&sk_lwe, nlwe, &mut scr_log, &mut source_xe, &mut source_xa);
                            out.input = dump_lwe(&a);
                            let mut res = LWE::alloc(Degree(nlwe2), Base2K(bout), TorusPrecision(sout * bout));
                            Rng::new(f ^ 31).fill(res.data_mut().data.as_mut());
                            let decl = m.lwe_keyswitch_tmp_bytes(&res, &a, &ksk_p);
                            scr_call::<BE, _>(exact, decl, f ^ 24, op, &mut scr_log, |s| m.lwe_keyswitch(&mut res, &a, &ksk_p, s));
                            out.res = dump_lwe(&res);
                        }
                        "lwe_from_glwe" => {
                            out.sk_in = glwe_dump_sk(&sk_glwe, rin);
                            out.sk_out = lwe_dump_sk(&sk_lwe);
                            let mut ksk = GLWEToLWEKey::alloc(Degree(n as u32), Base2K(bkey), TorusPrecision(kkey), Rank(rin), Dnum(dnum));
                            let decl = m.glwe_to_lwe_key_encrypt_sk_tmp_bytes(&ksk);
                            let ni = noise(kkey);
                            scr_call::<BE, _>(exact, decl, f ^ 21, "glwe_to_lwe_key_encrypt_sk", &mut scr_log, |s| {
                                m.glwe_to_lwe_key_encrypt_sk(&mut ksk, &sk_lwe, &sk_glwe, &ni, &mut source_xe, &mut source_xa, s)
                            });
                            let mut ksk_p: GLWEToLWEKeyPrepared<DeviceBuf<BE>, BE> = m.glwe_to_lwe_key_prepared_alloc_from_infos(&ksk);
                            let decl = m.glwe_to_lwe_key_prepare_tmp_bytes(&ksk);
                            scr_call::<BE, _>(exact, decl, f ^ 22, "glwe_to_lwe_key_prepare", &mut scr_log, |s| m.glwe_to_lwe_key_prepare(&mut ksk_p, &ksk, s));
                            let a = fresh_glwe!(&sk_glwe, rin, 0, &mut scr_log);
                            out.input = dump_glwe(&a);
                            let mut res = LWE::alloc(Degree(nlwe), Base2K(bout), TorusPrecision(sout * bout));
                            Rng::new(f ^ 31).fill(res.data_mut().data.as_mut());
                            let aidx = gu(c, "aidx", 0) as usize;
                            let decl = m.lwe_from_glwe_tmp_bytes(&res, &a, &ksk_p);
                            scr_call::<BE, _>(exact, decl, f ^ 24, op, &mut scr_log, |s| m.lwe_from_glwe(&mut res, &a, aidx, &ksk_p, s));
                            out.res = dump_lwe(&res);
                        }
                        "glwe_from_lwe" => {
                            out.sk_in = lwe_dump_sk(&sk_lwe);
                            out.sk_out = glwe_dump_sk(&sk_glwe, rin);
                            let mut skp: GLWESecretPrepared<DeviceBuf<BE>, BE> = m.glwe_secret_prepared_alloc(Rank(rin));
                            m.glwe_secret_prepare(&mut skp, &sk_glwe);
                            let mut ksk = LWEToGLWEKey::alloc(Degree(n as u32), Base2K(bkey), TorusPrecision(kkey), Rank(rin), Dnum(dnum));
                            let decl = m.lwe_to_glwe_key_encrypt_sk_tmp_bytes(&ksk);
                            let ni = noise(kkey);
                            scr_call::<BE, _>(exact, decl, f ^ 21, "lwe_to_glwe_key_encrypt_sk", &mut scr_log, |s| {
                                m.lwe_to_glwe_key_encrypt_sk(&mut ksk, &sk_lwe, &skp, &ni, &mut source_xe, &mut source_xa, s)
                            });
                            let mut ksk_p: LWEToGLWEKeyPrepared<DeviceBuf<BE>, BE> = m.lwe_to_glwe_key_prepared_alloc_from_infos(&ksk);
                            let decl = m.lwe_to_glwe_key_prepare_tmp_bytes(&ksk);
                            scr_call::<BE, _>(exact, decl, f ^ 22, "lwe_to_glwe_key_prepare", &mut scr_log, |s| m.lwe_to_glwe_key_prepare(&mut ksk_p, &ksk, s));
                            let a = fresh_lwe(&sk_lwe, nlwe, &mut scr_log, &mut source_xe, &mut source_xa);
                            out.input = dump_lwe(&a);
                            let mut res = GLWE::alloc(Degree(n as u32), Base2K(bout), TorusPrecision(sout * bout), Rank(rin));
                            Rng::new(f ^ 31).fill(res.data_mut().data.as_mut());
                            let decl = m.glwe_from_lwe_tmp_bytes(&res, &a, &ksk_p);
                            scr_call::<BE, _>(exact, decl, f ^ 24, op, &mut scr_log, |s| m.glwe_from_lwe(&mut res, &a, &ksk_p, s));
                            out.res = dump_glwe(&res);
                        }
                        "lwe_encdec" => {
                            // C01 for LWE: encrypt a plaintext of ps limbs (radix = the ciphertext's), decrypt into pdec limbs
                            let koff = gu(c, "koff", 0) as u32;
                            let (ps, pdec) = (gu(c, "ps", sin as u64) as u32, gu(c, "pdec", sin as u64) as u32);
                            // the radix of the plaintext decrypted into (the ciphertext's unless the descriptor says otherwise)
                            let bdec = gu(c, "bdec", bin as u64) as u32;
                            out.sk_in = lwe_dump_sk(&sk_lwe);
                            out.sk_out = lwe_dump_sk(&sk_lwe);
                            let k = sin * bin - koff;
                            let mut ct = LWE::alloc(Degree(nlwe), Base2K(bin), TorusPrecision(k));
                            let mut pt = LWEPlaintext::alloc(Base2K(bin), TorusPrecision(ps * bin));
                            let mut prng = Rng::new(seed ^ id ^ 0x71);
                            for j in 0..pt.data().size() {
                                pt.data_mut().at_mut(0, j)[0] = if pc == 2 { if prng.below(2) == 0 { -half } else { half - 1 } } else { prng.sym(half).clamp(-half, half - 1) };
                            }
                            let decl = m.lwe_encrypt_sk_tmp_bytes(&ct);
                            let ni = noise(k);
                            scr_call::<BE, _>(exact, decl, f ^ 23, "lwe_encrypt_sk", &mut scr_log, |s| m.lwe_encrypt_sk(&mut ct, &pt, &sk_lwe, &ni, &mut source_xe, &mut source_xa, s));
                            let mut dec = LWEPlaintext::alloc(Base2K(bdec), TorusPrecision(pdec * bdec));
                            Rng::new(f ^ 31).fill(dec.data_mut().data.as_mut());
                            let decl = m.lwe_decrypt_tmp_bytes(&ct);
                            scr_call::<BE, _>(exact, decl, f ^ 24, "lwe_decrypt", &mut scr_log, |s| m.lwe_decrypt(&ct, &mut dec, &sk_lwe, s));
                            let pd = |p: &LWEPlaintext<Vec<u8>>, b: u32| json!({"b": b, "size": p.data().size(), "d": (0..p.data().size()).map(|j| vec![p.data().at(0, j)[0]]).collect::<Vec<_>>()});
                            out.input = dump_lwe(&ct);
                            out.key = json!({"pt": pd(&pt, bin)});
                            out.res = json!({"rank": 0, "lwe": 2, "b": bdec, "size": dec.data().size(), "pt": pd(&dec, bdec)});
                        }
                        "sample_extract" => {
                            // purely structural: rank-1 GLWE -> LWE of dimension nlwe <= N, same radix
                            let mut sk1 = GLWESecret::alloc(Degree(n as u32), Rank(1));
                            sk1.fill_ternary_prob(0.5, &mut source_xs);
                            out.sk_in = glwe_dump_sk(&sk1, 1);
                            let a = fresh_glwe!(&sk1, 1, 0, &mut scr_log);
                            out.input = dump_glwe(&a);
                            let mut res = LWE::alloc(Degree(nlwe), Base2K(bin), TorusPrecision(sout * bin));
                            Rng::new(f ^ 31).fill(res.data_mut().data.as_mut());
                            m.lwe_sample_extract(&mut res, &a);
                            out.res = dump_lwe(&res);
                        }
                        other => panic!("harness: unknown ks op {other}"),
                    }
                }
            });
            out.scr = scr_log;
            out.panic = r.err().unwrap_or_default();
            out
        }
    };
}

ks_backend!(ks_fft64ref, FFT64Ref);
ks_backend!(ks_fft64avx, FFT64Avx);
ks_backend!(ks_ntt120ref, NTT120Ref);
ks_backend!(ks_ntt120avx, NTT120Avx);

pub struct KMods {
    a: HashMap<usize, Module<FFT64Ref>>,
    b: HashMap<usize, Module<FFT64Avx>>,
    c: HashMap<usize, Module<NTT120Ref>>,
    d: HashMap<usize, Module<NTT120Avx>>,
}
impl KMods {
    pub fn new() -> Self {
        KMods { a: HashMap::new(), b: HashMap::new(), c: HashMap::new(), d: HashMap::new() }
    }
    fn exec(&mut self, be: usize, c: &Value, seed: u64, fill: u64) -> KsOut {
        match be {
            0 => ks_fft64ref(&mut self.a, c, seed, fill),
            1 => ks_fft64avx(&mut self.b, c, seed, fill),
            2 => ks_ntt120ref(&mut self.c, c, seed, fill),
            _ => ks_ntt120avx(&mut self.d, c, seed, fill),
        }
    }
}

pub fn run_ks(mods: &mut KMods, c: &Value, seed: u64) -> Value {
    let exact = c.get("scr").and_then(|v| v.as_str()) == Some("exact");
    let mut groups: Vec<(Vec<Value>, Value, String)> = vec![];
    let mut first: Option<KsOut> = None;
    let mut inputs_same = true;
    let mut scr_all: Vec<Value> = vec![];
    for be in 0..4 {
        for fill in 0..2u64 {
            let o = mods.exec(be, c, seed, fill + 1);
            let who = json!({"b": be, "f": fill});
            if exact {
                scr_all.push(json!({"b": be, "f": fill, "calls": o.scr}));
            }
            if let Some(g) = groups.iter_mut().find(|g| g.1 == o.res && g.2 == o.panic) {
                g.0.push(who);
            } else {
                groups.push((vec![who], o.res.clone(), o.panic.clone()));
            }
            match &first {
                None => first = Some(o),
                Some(f0) => {
                    if f0.input != o.input || f0.key != o.key || f0.sk_in != o.sk_in || f0.sk_out != o.sk_out {
                        inputs_same = false;
                    }
                }
            }
        }
    }
    let f0 = first.unwrap();
    let outs: Vec<Value> = groups.into_iter().map(|(who, res, panic)| json!({"who": who, "res": res, "panic": panic})).collect();
    let mut e = c.clone();
    e["ev"] = json!("ks");
    e["a"] = f0.input;
    e["key"] = f0.key;
    e["sk_in"] = f0.sk_in;
    e["sk_out"] = f0.sk_out;
    e["inputs_same"] = json!(inputs_same);
    e["outs"] = json!(outs);
    e["scr"] = json!(scr_all);
    e
}
