//! C12 for poulpy-bin-fhe: key generation, key preparation, blind rotation and circuit bootstrapping, each run in a
//! canary-guarded window of exactly the bytes its companion size query returns (hook H4 logs the takes), once per scratch
//! fill; the serialised / raw result is digested so that ScrPairTrace can demand independence from the fill.
//! Correctness of the results is not the point here (C14 / C15): the shapes are small and the noise is irrelevant.
use crate::util::{guarded, scr_call};
use poulpy_bin_fhe::bdd_arithmetic::*;
use poulpy_bin_fhe::blind_rotation::*;
use poulpy_bin_fhe::circuit_bootstrapping::*;
use poulpy_core::api::*;
use poulpy_core::layouts::prepared::*;
use poulpy_core::layouts::*;
use poulpy_core::EncryptionLayout;
use poulpy_cpu_avx::{FFT64Avx, NTT120Avx};
use poulpy_cpu_ref::{FFT64Ref, NTT120Ref};
use poulpy_hal::api::*;
use poulpy_hal::layouts::*;
use poulpy_hal::source::Source;
use serde_json::{Value, json};

fn gu(c: &Value, k: &str, d: u64) -> u64 {
    c.get(k).and_then(|v| v.as_u64()).unwrap_or(d)
}
fn fnv_bytes(b: &[u8]) -> String {
    let mut h: u64 = 0xcbf29ce484222325;
    for x in b {
        h ^= *x as u64;
        h = h.wrapping_mul(0x100000001b3);
    }
    format!("{:016x}", h)
}
fn ser<T: WriterTo>(o: &T) -> String {
    let mut v: Vec<u8> = vec![];
    o.write_to(&mut v).unwrap();
    fnv_bytes(&v)
}

macro_rules! binscr_backend {
    ($fname:ident, $BE:ty) => {
        /// One run of the operation under one scratch fill: (call records, [status, digest])
        pub fn $fname(c: &Value, fill: u64) -> (Vec<Value>, Value) {
            type BE = $BE;
            let op = c["op"].as_str().unwrap().to_string();
            let n = gu(c, "n", 16) as u32;
            let nlwe = gu(c, "nlwe", 4) as u32;
            let rank = gu(c, "rank", 1) as u32;
            let ext = gu(c, "ext", 1) as usize;
            let block = gu(c, "block", 2) as usize;
            let lay = |k: &str, d: [u32; 4]| -> [u32; 4] {
                match c.get(k).and_then(|v| v.as_array()) {
                    Some(a) => [a[0].as_u64().unwrap() as u32, a[1].as_u64().unwrap() as u32, a[2].as_u64().unwrap() as u32, a[3].as_u64().unwrap() as u32],
                    None => d,
                }
            };
            // [base2k, limbs, dnum, dsize]
            let (lb, la, lt, lr) = (lay("brk", [5, 3, 2, 1]), lay("atk", [4, 4, 2, 1]), lay("tsk", [5, 3, 2, 1]), lay("res", [5, 2, 2, 1]));
            let mut log: Vec<Value> = vec![];
            let r = guarded(|| -> String {
                let m: Module<BE> = Module::<BE>::new(n as u64);
                let deg = Degree(n);
                let brk_l = BlindRotationKeyLayout { n_glwe: deg, n_lwe: Degree(nlwe), base2k: Base2K(lb[0]), k: TorusPrecision(lb[0] * lb[1]), dnum: Dnum(lb[2]), rank: Rank(rank) };
                let atk_l = GLWEAutomorphismKeyLayout { n: deg, base2k: Base2K(la[0]), k: TorusPrecision(la[0] * la[1]), dnum: Dnum(la[2]), rank: Rank(rank), dsize: Dsize(la[3]) };
                let tsk_l = GGLWEToGGSWKeyLayout { n: deg, base2k: Base2K(lt[0]), k: TorusPrecision(lt[0] * lt[1]), dnum: Dnum(lt[2]), dsize: Dsize(lt[3]), rank: Rank(rank) };
                let cbt_l = CircuitBootstrappingKeyLayout { brk_layout: brk_l, atk_layout: atk_l, tsk_layout: tsk_l };
                let ksglwe = gu(c, "ksglwe", 0) == 1;
                let lk = lay("ks", [4, 4, 2, 1]);
                let ks_lwe_l = GLWEToLWEKeyLayout { n: deg, base2k: Base2K(lk[0]), k: TorusPrecision(lk[0] * lk[1]), rank_in: if ksglwe { Rank(1) } else { Rank(rank) }, dnum: Dnum(lk[2]) };
                let lg = lay("ksg", [4, 5, 2, 2]);
                let ks_glwe_l = if ksglwe { Some(GLWESwitchingKeyLayout { n: deg, base2k: Base2K(lg[0]), k: TorusPrecision(lg[0] * lg[1]), rank_in: Rank(rank), rank_out: Rank(1), dnum: Dnum(lg[2]), dsize: Dsize(lg[3]) }) } else { None };
                let bdd_l = BDDKeyLayout { cbt_layout: cbt_l, ks_glwe_layout: ks_glwe_l, ks_lwe_layout: ks_lwe_l };
                let ni = |k: u32| NoiseInfos::new(k as usize, 3.2, 19.2).unwrap();
                let cbt_enc = || CircuitBootstrappingEncryptionInfos { brk: ni(lb[0] * lb[1]), atk: ni(la[0] * la[1]), tsk: ni(lt[0] * lt[1]) };
                let mut xs = Source::new([1u8; 32]);
                let mut xe = Source::new([2u8; 32]);
                let mut xa = Source::new([3u8; 32]);
                let mut big: ScratchOwned<BE> = ScratchOwned::alloc(1 << 22);
                let mut sk = GLWESecret::alloc(deg, Rank(rank));
                sk.fill_ternary_prob(0.5, &mut xs);
                let mut skp: GLWESecretPrepared<DeviceBuf<BE>, BE> = m.glwe_secret_prepared_alloc(Rank(rank));
                m.glwe_secret_prepare(&mut skp, &sk);
                let mut skl = LWESecret::alloc(Degree(nlwe));
                skl.fill_binary_block(block, &mut xs);
                let brk_enc = EncryptionLayout::new_from_default_sigma(brk_l).unwrap();
                match op.as_str() {
                    "brk_encrypt" => {
                        let mut brk: BlindRotationKey<Vec<u8>, CGGI> = BlindRotationKey::<Vec<u8>, CGGI>::alloc(&brk_l);
                        let decl = BlindRotationKey::encrypt_sk_tmp_bytes(&m, &brk_enc);
                        scr_call::<BE, _>(true, decl, fill, "blind_rotation_key_encrypt_sk", &mut log, |s| m.blind_rotation_key_encrypt_sk(&mut brk, &skp, &skl, &brk_enc, &mut xe, &mut xa, s));
                        ser(&brk)
                    }
                    "brk_c_encrypt" => {
                        let mut brk = BlindRotationKeyCompressed::<Vec<u8>, CGGI>::alloc(&brk_l);
                        let decl = m.blind_rotation_key_compressed_encrypt_sk_tmp_bytes(&brk_l);
                        scr_call::<BE, _>(true, decl, fill, "blind_rotation_key_compressed_encrypt_sk", &mut log, |s| m.blind_rotation_key_compressed_encrypt_sk(&mut brk, &skp, &skl, [9u8; 32], &brk_enc, &mut xe, s));
                        ser(&brk)
                    }
                    "brk_prepare" | "br_execute" => {
                        let mut brk: BlindRotationKey<Vec<u8>, CGGI> = BlindRotationKey::<Vec<u8>, CGGI>::alloc(&brk_l);
                        m.blind_rotation_key_encrypt_sk(&mut brk, &skp, &skl, &brk_enc, &mut xe, &mut xa, big.borrow());
                        let mut brk_p: BlindRotationKeyPrepared<DeviceBuf<BE>, CGGI, BE> = BlindRotationKeyPrepared::alloc(&m, &brk);
                        let glwe_l = GLWELayout { n: deg, base2k: Base2K(lr[0]), k: TorusPrecision(lr[0] * lr[1]), rank: Rank(rank) };
                        let lwe_l = LWELayout { n: Degree(nlwe), k: TorusPrecision(12), base2k: Base2K(4) };
                        let mut lwe = LWE::alloc_from_infos(&lwe_l);
                        let mut pt = LWEPlaintext::alloc_from_infos(&lwe_l);
                        pt.encode_i64(1, TorusPrecision(3));
                        m.lwe_encrypt_sk(&mut lwe, &pt, &skl, &EncryptionLayout::new_from_default_sigma(lwe_l).unwrap(), &mut xe, &mut xa, big.borrow());
                        let mut lut = LookupTable::alloc(&LookUpTableLayout { n: deg, extension_factor: ext, k: TorusPrecision(lr[0]), base2k: Base2K(lr[0]) });
                        lut.set(&m, &[0i64, 1, 2, 3], 3);
                        if op == "brk_prepare" {
                            let decl = BlindRotationKeyPrepared::<DeviceBuf<BE>, CGGI, BE>::prepare_tmp_bytes(&m, &brk_l);
                            scr_call::<BE, _>(true, decl, fill, "blind_rotation_key_prepare", &mut log, |s| brk_p.prepare(&m, &brk, s));
                        } else {
                            brk_p.prepare(&m, &brk, big.borrow());
                        }
                        // the prepared key is observed through a blind rotation (generous scratch unless it is the operation under test)
                        let mut res = GLWE::alloc_from_infos(&glwe_l);
                        if op == "br_execute" {
                            let decl = BlindRotationKeyPrepared::<DeviceBuf<BE>, CGGI, BE>::execute_tmp_bytes(&m, block, ext, &glwe_l, &brk_l);
                            scr_call::<BE, _>(true, decl, fill, "blind_rotation_execute", &mut log, |s| brk_p.execute(&m, &mut res, &lwe, &lut, s));
                        } else {
                            brk_p.execute(&m, &mut res, &lwe, &lut, big.borrow());
                        }
                        ser(&res)
                    }
                    "cbk_encrypt" => {
                        let mut key: CircuitBootstrappingKey<Vec<u8>, CGGI> = CircuitBootstrappingKey::alloc_from_infos(&cbt_l);
                        let decl = <Module<BE> as CircuitBootstrappingKeyEncryptSk<CGGI, BE>>::circuit_bootstrapping_key_encrypt_sk_tmp_bytes(&m, &cbt_l);
                        scr_call::<BE, _>(true, decl, fill, "circuit_bootstrapping_key_encrypt_sk", &mut log, |s| key.encrypt_sk(&m, &skl, &sk, &cbt_enc(), &mut xe, &mut xa, s));
                        ser(&key)
                    }
                    "cbk_prepare" | "cbt_constant" | "cbt_exponent" => {
                        let mut key: CircuitBootstrappingKey<Vec<u8>, CGGI> = CircuitBootstrappingKey::alloc_from_infos(&cbt_l);
                        key.encrypt_sk(&m, &skl, &sk, &cbt_enc(), &mut xe, &mut xa, big.borrow());
                        let mut keyp: CircuitBootstrappingKeyPrepared<DeviceBuf<BE>, CGGI, BE> = CircuitBootstrappingKeyPrepared::alloc_from_infos(&m, &cbt_l);
                        if op == "cbk_prepare" {
                            let decl = <Module<BE> as CircuitBootstrappingKeyPreparedFactory<CGGI, BE>>::circuit_bootstrapping_key_prepare_tmp_bytes(&m, &cbt_l);
                            scr_call::<BE, _>(true, decl, fill, "circuit_bootstrapping_key_prepare", &mut log, |s| keyp.prepare(&m, &key, s));
                        } else {
                            keyp.prepare(&m, &key, big.borrow());
                        }
                        let lwe_l = LWELayout { n: Degree(nlwe), k: TorusPrecision(12), base2k: Base2K(4) };
                        let mut lwe = LWE::alloc_from_infos(&lwe_l);
                        let mut pt = LWEPlaintext::alloc_from_infos(&lwe_l);
                        pt.encode_i64(1, TorusPrecision(2));
                        m.lwe_encrypt_sk(&mut lwe, &pt, &skl, &EncryptionLayout::new_from_default_sigma(lwe_l).unwrap(), &mut xe, &mut xa, big.borrow());
                        let ggsw_l = GGSWLayout { n: deg, base2k: Base2K(lr[0]), k: TorusPrecision(lr[0] * lr[1]), dnum: Dnum(lr[2]), dsize: Dsize(1), rank: Rank(rank) };
                        let mut res: GGSW<Vec<u8>> = GGSW::alloc_from_infos(&ggsw_l);
                        let decl = <Module<BE> as CircuitBootstrappingExecute<CGGI, BE>>::circuit_bootstrapping_execute_tmp_bytes(&m, block, ext, &ggsw_l, &cbt_l);
                        match op.as_str() {
                            "cbt_constant" => scr_call::<BE, _>(true, decl, fill, "circuit_bootstrapping_execute_to_constant", &mut log, |s| keyp.execute_to_constant(&m, &mut res, &lwe, 1, ext, s)),
                            "cbt_exponent" => scr_call::<BE, _>(true, decl, fill, "circuit_bootstrapping_execute_to_exponent", &mut log, |s| keyp.execute_to_exponent(&m, 1, &mut res, &lwe, 1, ext, s)),
                            _ => keyp.execute_to_constant(&m, &mut res, &lwe, 1, ext, big.borrow()),
                        }
                        ser(&res)
                    }
                    "bdd_encrypt" | "bdd_prepare" => {
                        let mut key: BDDKey<Vec<u8>, CGGI> = BDDKey::alloc_from_infos(&bdd_l);
                        let infos = BDDEncryptionInfos { cbt: cbt_enc(), ks_glwe: ks_glwe_l.map(|l| ni(l.k.0)), ks_lwe: ni(lk[0] * lk[1]) };
                        if op == "bdd_encrypt" {
                            let decl = <Module<BE> as BDDKeyEncryptSk<CGGI, BE>>::bdd_key_encrypt_sk_tmp_bytes(&m, &bdd_l);
                            scr_call::<BE, _>(true, decl, fill, "bdd_key_encrypt_sk", &mut log, |s| key.encrypt_sk(&m, &skl, &sk, &infos, &mut xe, &mut xa, s));
                            ser(&key)
                        } else {
                            key.encrypt_sk(&m, &skl, &sk, &infos, &mut xe, &mut xa, big.borrow());
                            let mut kp: BDDKeyPrepared<DeviceBuf<BE>, CGGI, BE> = BDDKeyPrepared::alloc_from_infos(&m, &bdd_l);
                            let decl = <Module<BE> as BDDKeyPreparedFactory<CGGI, BE>>::prepare_bdd_key_tmp_bytes(&m, &bdd_l);
                            scr_call::<BE, _>(true, decl, fill, "prepare_bdd_key", &mut log, |s| m.prepare_bdd_key(&mut kp, &key, s));
                            String::new()
                        }
                    }
                    other => panic!("harness: unknown binscr op {other}"),
                }
            });
            let d = match r {
                Ok(dg) => json!(["ok", dg]),
                Err(p) => json!([format!("panic:{}", p.chars().take(100).collect::<String>()), ""]),
            };
            (log, d)
        }
    };
}
binscr_backend!(binscr_fft64ref, FFT64Ref);
binscr_backend!(binscr_fft64avx, FFT64Avx);
binscr_backend!(binscr_ntt120ref, NTT120Ref);
binscr_backend!(binscr_ntt120avx, NTT120Avx);

pub fn run_binscr(c: &Value) -> Value {
    let be = gu(c, "be", 0);
    let run = |fill: u64| match be {
        0 => binscr_fft64ref(c, fill),
        1 => binscr_fft64avx(c, fill),
        2 => binscr_ntt120ref(c, fill),
        _ => binscr_ntt120avx(c, fill),
    };
    let runs: Vec<Value> = (1..=2u64).map(|f| { let (calls, d) = run(f * 0x9E37 + gu(c, "id", 1)); json!({"fill": f, "calls": calls, "digests": [d]}) }).collect();
    let mut e = c.clone();
    e["ev"] = json!("binscr");
    e["scr"] = json!(runs);
    e
}
