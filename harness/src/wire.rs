//! Serialisation driver (C18): materialises the streams the TLA+ generator describes (a valid object
//! serialised by the real `write_to`, header bytes overwritten, stream truncated), feeds them to the
//! real `read_from` of a receiver of the requested shape, and logs what happened.  The harness has no
//! knowledge of the wire grammar: header field offsets come from the specification (Wire.tla) and the
//! receiver's metadata is observed by re-serialising it (its own header bytes), parsed again by TLC.
use crate::util::{Rng, guarded};
use poulpy_core::layouts::*;
use poulpy_hal::layouts::{FillUniform, MatZnx, ReaderFrom, ScalarZnx, VecZnx, WriterTo};
use poulpy_hal::source::Source;
use serde_json::{Value, json};

trait Wire {
    fn ser(&self) -> Result<Vec<u8>, String>;
    fn de(&mut self, b: &[u8]) -> Result<(), String>;
}
impl<T: ReaderFrom + WriterTo> Wire for T {
    fn ser(&self) -> Result<Vec<u8>, String> {
        let mut v: Vec<u8> = Vec::new();
        self.write_to(&mut v).map_err(|e| e.to_string())?;
        Ok(v)
    }
    fn de(&mut self, b: &[u8]) -> Result<(), String> {
        let mut cur = std::io::Cursor::new(b);
        self.read_from(&mut cur).map_err(|e| e.to_string())
    }
}

fn g(sh: &Value, k: &str, d: u64) -> u64 {
    sh.get(k).and_then(|v| v.as_u64()).unwrap_or(d)
}

/// Builds an object of the named type and shape, filled with seeded random data.
/// Returns the object and the byte capacity of its inner buffer as allocated.
fn build(ty: &str, sh: &Value, seed: u64) -> (Box<dyn Wire>, u64) {
    let n = g(sh, "n", 8) as usize;
    let cols = g(sh, "cols", 2) as usize;
    let size = g(sh, "size", 2) as usize;
    let b = g(sh, "b", 4) as u32;
    let k = g(sh, "k", 8) as u32;
    let rank = g(sh, "rank", 1) as u32;
    let rank_in = g(sh, "rank_in", rank as u64) as u32;
    let dnum = g(sh, "dnum", 1) as u32;
    let dsize = g(sh, "dsize", 1) as u32;
    let rows = g(sh, "rows", 2) as usize;
    let cin = g(sh, "cin", 1) as usize;
    let cout = g(sh, "cout", 2) as usize;
    let mut seedb = [0u8; 32];
    Rng::new(seed).fill(&mut seedb);
    let mut src = Source::new(seedb);
    let ksz = k.div_ceil(b) as usize;
    match ty {
        "VecZnx" => {
            let mut o = VecZnx::alloc(n, cols, size);
            o.fill_uniform(10, &mut src);
            (Box::new(o), (n * cols * size * 8) as u64)
        }
        "ScalarZnx" => {
            let mut o = ScalarZnx::alloc(n, cols);
            o.fill_uniform(10, &mut src);
            (Box::new(o), (n * cols * 8) as u64)
        }
        "MatZnx" => {
            let mut o = MatZnx::alloc(n, rows, cin, cout, size);
            o.fill_uniform(10, &mut src);
            (Box::new(o), (n * rows * cin * cout * size * 8) as u64)
        }
        "LWE" => {
            let mut o = LWE::alloc(Degree(n as u32), Base2K(b), TorusPrecision(k));
            o.data_mut().fill_uniform(10, &mut src);
            let cap = o.data().data.len() as u64;
            (Box::new(o), cap)
        }
        "GLWE" => {
            let mut o = GLWE::alloc(Degree(n as u32), Base2K(b), TorusPrecision(k), Rank(rank));
            o.data_mut().fill_uniform(10, &mut src);
            let cap = o.data().data.len() as u64;
            (Box::new(o), cap)
        }
        "GLWECompressed" => {
            let o = GLWECompressed::alloc(Degree(n as u32), Base2K(b), TorusPrecision(k), Rank(rank));
            (Box::new(o), (n * ksz * 8) as u64)
        }
        "LWECompressed" => {
            let o = LWECompressed::alloc(Base2K(b), TorusPrecision(k));
            (Box::new(o), (ksz * 8) as u64)
        }
        "GGLWE" => {
            let mut o = GGLWE::alloc(Degree(n as u32), Base2K(b), TorusPrecision(k), Rank(rank_in), Rank(rank), Dnum(dnum), Dsize(dsize));
            o.data_mut().fill_uniform(10, &mut src);
            (Box::new(o), (n * dnum as usize * rank_in.max(1) as usize * (rank as usize + 1) * ksz * 8) as u64)
        }
        "GGSW" => {
            let o = GGSW::alloc(Degree(n as u32), Base2K(b), TorusPrecision(k), Rank(rank), Dnum(dnum), Dsize(dsize));
            (Box::new(o), (n * dnum as usize * (rank as usize + 1) * (rank as usize + 1) * ksz * 8) as u64)
        }
        "GGLWECompressed" => {
            let o = GGLWECompressed::alloc(Degree(n as u32), Base2K(b), TorusPrecision(k), Rank(rank_in), Rank(rank), Dnum(dnum), Dsize(dsize));
            (Box::new(o), (n * dnum as usize * rank_in.max(1) as usize * ksz * 8) as u64)
        }
        "GGSWCompressed" => {
            let o = GGSWCompressed::alloc(Degree(n as u32), Base2K(b), TorusPrecision(k), Rank(rank), Dnum(dnum), Dsize(dsize));
            (Box::new(o), (n * dnum as usize * (rank as usize + 1) * ksz * 8) as u64)
        }
        other => panic!("harness: unknown wire type {other}"),
    }
}

const HDR: usize = 256;

fn head(b: &[u8]) -> Vec<u8> {
    b[..b.len().min(HDR)].to_vec()
}

pub fn run_wire_case(c: &Value, seed: u64, dry: bool) -> Value {
    let id = c.get("id").and_then(|v| v.as_u64()).unwrap_or(0);
    let ty = c["type"].as_str().unwrap();
    let (src_obj, _) = build(ty, &c["sh"], seed ^ id);
    let full = src_obj.ser().expect("serialising a fresh object");
    let mut stream = full.clone();
    if let Some(muts) = c.get("muts").and_then(|v| v.as_array()) {
        for m in muts {
            let off = m["off"].as_u64().unwrap() as usize;
            let add = m.get("kind").and_then(|v| v.as_str()) == Some("add");
            let mut carry: u16 = 0;
            for (i, b) in m["val"].as_array().unwrap().iter().enumerate() {
                if off + i < stream.len() {
                    let v = b.as_u64().unwrap() as u16;
                    if add {
                        // little-endian addition modulo 2^(8w): pure byte arithmetic, no knowledge of the field
                        let s = stream[off + i] as u16 + v + carry;
                        stream[off + i] = (s & 0xff) as u8;
                        carry = s >> 8;
                    } else {
                        stream[off + i] = v as u8;
                    }
                }
            }
        }
    }
    let cut = c.get("cut").and_then(|v| v.as_i64()).unwrap_or(-1);
    if cut >= 0 && (cut as usize) < stream.len() {
        stream.truncate(cut as usize);
    }
    let (mut rcv, cap) = build(ty, &c["rsh"], seed ^ id ^ 0xABCDEF);
    // every layout allocates through alloc_aligned, which pads the buffer to a multiple of 64 bytes
    let cap = cap.next_multiple_of(64);
    let pre = rcv.ser();
    // dry = the case killed the process (abort, e.g. an allocation the stream asked for): describe it without re-running it
    let r = if dry { Err("process aborted".to_string()) } else { guarded(|| rcv.de(&stream)) };
    let (outcome, msg) = match &r {
        Err(p) if dry => ("abort", p.clone()),
        Ok(Ok(())) => ("ok", String::new()),
        Ok(Err(e)) => ("err", e.chars().take(120).collect()),
        Err(p) => ("panic", p.clone()),
    };
    let post = guarded(|| rcv.ser());
    let (post_hdr, post_ok, post_msg, post_full) = match post {
        Ok(Ok(b)) => (head(&b), true, String::new(), Some(b)),
        Ok(Err(e)) => (vec![], false, e.chars().take(120).collect::<String>(), None),
        Err(p) => (vec![], false, format!("panic: {p}"), None),
    };
    // round trip: after a successful read of an un-mutated complete stream the receiver re-serialises to it
    let same_as_stream = post_full.as_ref().map(|b| *b == full).unwrap_or(false);
    json!({
        "id": id, "type": ty, "sh": c["sh"], "rsh": c["rsh"],
        "hdr": head(&stream), "slen": stream.len(), "flen": full.len(),
        "pre": pre.as_ref().map(|b| head(b)).unwrap_or_default(), "cap": cap,
        "outcome": outcome, "msg": msg,
        "post": post_hdr, "post_ok": post_ok, "post_msg": post_msg, "roundtrip": same_as_stream,
        "mutated": c.get("muts").map(|m| !m.as_array().unwrap().is_empty()).unwrap_or(false), "cut": cut,
    })
}
