//! Serialisation driver (C18): materialises the streams the TLA+ generator describes (a valid object
//! serialised by the real `write_to`, header bytes overwritten, stream truncated), feeds them to the
//! real `read_from` of a receiver of the requested shape, and logs what happened.  The harness has no
//! knowledge of the wire grammar: header field offsets come from the specification (Wire.tla) and the
//! receiver's metadata is observed by re-serialising it (its own header bytes), parsed again by TLC.
use crate::util::{Rng, guarded};
use poulpy_core::layouts::*;
use poulpy_hal::layouts::{FillUniform, MatZnx, ReaderFrom, ScalarZnx, VecZnx, WriterTo};
use poulpy_hal::source::Source;
use serde_json::{Value, json};

trait Wire {
    fn ser(&self) -> Result<Vec<u8>, String>;
    fn de(&mut self, b: &[u8]) -> Result<(), String>;
}
impl<T: ReaderFrom + WriterTo> Wire for T {
    fn ser(&self) -> Result<Vec<u8>, String> {
        let mut v: Vec<u8> = Vec::new();
        self.write_to(&mut v).map_err(|e| e.to_string())?;
        Ok(v)
    }
    fn de(&mut self, b: &[u8]) -> Result<(), String> {
        let mut cur = std::io::Cursor::new(b);
        self.read_from(&mut cur).map_err(|e| e.to_string())
    }
}

fn g(sh: &Value, k: &str, d: u64) -> u64 {
    sh.get(k).and_then(|v| v.as_u64()).unwrap_or(d)
}

/// Builds an object of the named type and shape, filled with seeded random data.
/// Returns the object and the byte capacity of its inner buffer as allocated.
fn build(ty: &str, sh: &Value, seed: u64) -> (Box<dyn Wire>, u64) {
    let n = g(sh, "n", 8) as usize;
    let cols = g(sh, "cols", 2) as usize;
    let size = g(sh, "size", 2) as usize;
    let b = g(sh, "b", 4) as u32;
    let k = g(sh, "k", 8) as u32;
    let rank = g(sh, "rank", 1) as u32;
    let rank_in = g(sh, "rank_in", rank as u64) as u32;
    let dnum = g(sh, "dnum", 1) as u32;
    let dsize = g(sh, "dsize", 1) as u32;
    let rows = g(sh, "rows", 2) as usize;
    let cin = g(sh, "cin", 1) as usize;
    let cout = g(sh, "cout", 2) as usize;
    let mut seedb = [0u8; 32];
    Rng::new(seed).fill(&mut seedb);
    let mut src = Source::new(seedb);
    let ksz = k.div_ceil(b) as usize;
    match ty {
        "VecZnx" => {
            let mut o = VecZnx::alloc(n, cols, size);
            o.fill_uniform(10, &mut src);
            (Box::new(o), (n * cols * size * 8) as u64)
        }
        "ScalarZnx" => {
            let mut o = ScalarZnx::alloc(n, cols);
            o.fill_uniform(10, &mut src);
            (Box::new(o), (n * cols * 8) as u64)
        }
        "MatZnx" => {
            let mut o = MatZnx::alloc(n, rows, cin, cout, size);
            o.fill_uniform(10, &mut src);
            (Box::new(o), (n * rows * cin * cout * size * 8) as u64)
        }
        "LWE" => {
            let mut o = LWE::alloc(Degree(n as u32), Base2K(b), TorusPrecision(k));
            o.data_mut().fill_uniform(10, &mut src);
            let cap = o.data().data.len() as u64;
            (Box::new(o), cap)
        }
        "GLWE" => {
            let mut o = GLWE::alloc(Degree(n as u32), Base2K(b), TorusPrecision(k), Rank(rank));
            o.data_mut().fill_uniform(10, &mut src);
            let cap = o.data().data.len() as u64;
            (Box::new(o), cap)
        }
        "GLWECompressed" => {
            let o = GLWECompressed::alloc(Degree(n as u32), Base2K(b), TorusPrecision(k), Rank(rank));
            (Box::new(o), (n * ksz * 8) as u64)
        }
        "LWECompressed" => {
            let o = LWECompressed::alloc(Base2K(b), TorusPrecision(k));
            (Box::new(o), (ksz * 8) as u64)
        }
        "GGLWE" => {
            let mut o = GGLWE::alloc(Degree(n as u32), Base2K(b), TorusPrecision(k), Rank(rank_in), Rank(rank), Dnum(dnum), Dsize(dsize));
            o.data_mut().fill_uniform(10, &mut src);
            (Box::new(o), (n * dnum as usize * rank_in.max(1) as usize * (rank as usize + 1) * ksz * 8) as u64)
        }
        "GGSW" => {
            let o = GGSW::alloc(Degree(n as u32), Base2K(b), TorusPrecision(k), Rank(rank), Dnum(dnum), Dsize(dsize));
            (Box::new(o), (n * dnum as usize * (rank as usize + 1) * (rank as usize + 1) * ksz * 8) as u64)
        }
        "GGLWECompressed" => {
            let o = GGLWECompressed::alloc(Degree(n as u32), Base2K(b), TorusPrecision(k), Rank(rank_in), Rank(rank), Dnum(dnum), Dsize(dsize));
            (Box::new(o), (n * dnum as usize * rank_in.max(1) as usize * ksz * 8) as u64)
        }
        "GGSWCompressed" => {
            let o = GGSWCompressed::alloc(Degree(n as u32), Base2K(b), TorusPrecision(k), Rank(rank), Dnum(dnum), Dsize(dsize));
            (Box::new(o), (n * dnum as usize * (rank as usize + 1) * ksz * 8) as u64)
        }
        other => panic!("harness: unknown wire type {other}"),
    }
}

/// Wrapper and composite keys (switching / automorphism / tensor / GGLWE-to-GGSW / LWE-related keys, their compressed forms,
/// the public key, blind-rotation keys, circuit-bootstrapping and BDD key bundles), filled with seeded random data.  No grammar
/// is known for them here: they are judged on grammar-free consequences of the contract (Wire.CompOK).
fn build_comp(ty: &str, sh: &Value, seed: u64) -> Box<dyn Wire> {
    use poulpy_bin_fhe::bdd_arithmetic::{BDDKey, BDDKeyLayout};
    use poulpy_bin_fhe::blind_rotation::{BlindRotationKey, BlindRotationKeyCompressed, BlindRotationKeyLayout, CGGI};
    use poulpy_bin_fhe::circuit_bootstrapping::{CircuitBootstrappingKey, CircuitBootstrappingKeyLayout};
    use poulpy_core::layouts::compressed::*;
    let deg = Degree(g(sh, "n", 8) as u32);
    let b = Base2K(g(sh, "b", 4) as u32);
    let k = TorusPrecision(g(sh, "k", 12) as u32);
    let rank = Rank(g(sh, "rank", 1) as u32);
    let dnum = Dnum(g(sh, "dnum", 2) as u32);
    let dsize = Dsize(g(sh, "dsize", 1) as u32);
    let nlwe = Degree(g(sh, "nlwe", 2) as u32);
    let mut seedb = [0u8; 32];
    Rng::new(seed).fill(&mut seedb);
    let mut src = Source::new(seedb);
    macro_rules! filled {
        ($e:expr) => {{
            let mut o = $e;
            o.fill_uniform(10, &mut src);
            Box::new(o) as Box<dyn Wire>
        }};
    }
    let brk = BlindRotationKeyLayout { n_glwe: deg, n_lwe: nlwe, base2k: b, k, dnum, rank };
    let atk = GLWEAutomorphismKeyLayout { n: deg, base2k: b, k, dnum, rank, dsize };
    let tsk = GGLWEToGGSWKeyLayout { n: deg, base2k: b, k, dnum, dsize, rank };
    let cbt = CircuitBootstrappingKeyLayout { brk_layout: brk, atk_layout: atk, tsk_layout: tsk };
    // bundles and the public key have no fill routine: they are generated by the library's own key generation (FFT64Ref)
    let keygen = |which: &str| -> Box<dyn Wire> {
        use poulpy_bin_fhe::bdd_arithmetic::BDDEncryptionInfos;
        use poulpy_bin_fhe::circuit_bootstrapping::CircuitBootstrappingEncryptionInfos;
        use poulpy_core::api::*;
        use poulpy_core::layouts::prepared::GLWESecretPrepared;
        use poulpy_cpu_ref::FFT64Ref;
        use poulpy_hal::api::*;
        use poulpy_hal::layouts::{DeviceBuf, Module, NoiseInfos, ScratchOwned};
        type BE = FFT64Ref;
        let m: Module<BE> = Module::<BE>::new(deg.0 as u64);
        let mut xs = Source::new(seedb);
        let mut xe = Source::new([7u8; 32]);
        let mut xa = Source::new([9u8; 32]);
        let mut sk = GLWESecret::alloc(deg, rank);
        sk.fill_ternary_prob(0.5, &mut xs);
        let mut skl = LWESecret::alloc(nlwe);
        skl.fill_binary_block(2, &mut xs);
        let mut scratch = ScratchOwned::<BE>::alloc(1 << 20);
        let ni = NoiseInfos::new(k.0 as usize, 3.2, 19.2).unwrap();
        let enc = || CircuitBootstrappingEncryptionInfos { brk: NoiseInfos::new(k.0 as usize, 3.2, 19.2).unwrap(), atk: NoiseInfos::new(k.0 as usize, 3.2, 19.2).unwrap(), tsk: NoiseInfos::new(k.0 as usize, 3.2, 19.2).unwrap() };
        match which {
            "pk" => {
                let mut skp: GLWESecretPrepared<DeviceBuf<BE>, BE> = m.glwe_secret_prepared_alloc(rank);
                m.glwe_secret_prepare(&mut skp, &sk);
                let mut o = GLWEPublicKey::alloc(deg, b, k, rank);
                m.glwe_public_key_generate(&mut o, &skp, &ni, &mut xe, &mut xa);
                Box::new(o)
            }
            "cbt" => {
                let mut o: CircuitBootstrappingKey<Vec<u8>, CGGI> = CircuitBootstrappingKey::alloc_from_infos(&cbt);
                o.encrypt_sk(&m, &skl, &sk, &enc(), &mut xe, &mut xa, scratch.borrow());
                Box::new(o)
            }
            _ => {
                // with an intermediate GLWE switch (rank -> 1) the LWE key starts from rank 1
                let ks_lwe = GLWEToLWEKeyLayout { n: deg, base2k: b, k, rank_in: if g(sh, "ksglwe", 0) == 1 { Rank(1) } else { rank }, dnum };
                let ks_glwe = if g(sh, "ksglwe", 0) == 1 { Some(GLWESwitchingKeyLayout { n: deg, base2k: b, k, rank_in: rank, rank_out: Rank(1), dnum, dsize }) } else { None };
                let lay = BDDKeyLayout { cbt_layout: cbt, ks_glwe_layout: ks_glwe, ks_lwe_layout: ks_lwe };
                let mut o: BDDKey<Vec<u8>, CGGI> = BDDKey::alloc_from_infos(&lay);
                let infos = BDDEncryptionInfos { cbt: enc(), ks_glwe: ks_glwe.map(|_| NoiseInfos::new(k.0 as usize, 3.2, 19.2).unwrap()), ks_lwe: NoiseInfos::new(k.0 as usize, 3.2, 19.2).unwrap() };
                o.encrypt_sk(&m, &skl, &sk, &infos, &mut xe, &mut xa, scratch.borrow());
                Box::new(o)
            }
        }
    };
    match ty {
        "GLWESwitchingKey" => filled!(GLWESwitchingKey::alloc(deg, b, k, rank, rank, dnum, dsize)),
        "GLWEAutomorphismKey" => filled!(GLWEAutomorphismKey::alloc(deg, b, k, rank, dnum, dsize)),
        "GLWETensorKey" => filled!(GLWETensorKey::alloc(deg, b, k, rank, dnum, dsize)),
        "GGLWEToGGSWKey" => filled!(GGLWEToGGSWKey::alloc(deg, b, k, rank, dnum, dsize)),
        "GLWEToLWEKey" => filled!(GLWEToLWEKey::alloc(deg, b, k, rank, dnum)),
        "LWEToGLWEKey" => filled!(LWEToGLWEKey::alloc(deg, b, k, rank, dnum)),
        "LWESwitchingKey" => filled!(LWESwitchingKey::alloc(deg, b, k, dnum)),
        "GLWESwitchingKeyCompressed" => filled!(GLWESwitchingKeyCompressed::alloc(deg, b, k, rank, rank, dnum, dsize)),
        "GLWEAutomorphismKeyCompressed" => filled!(GLWEAutomorphismKeyCompressed::alloc(deg, b, k, rank, dnum, dsize)),
        "GLWETensorKeyCompressed" => filled!(GLWETensorKeyCompressed::alloc(deg, b, k, rank, dnum, dsize)),
        "GGLWEToGGSWKeyCompressed" => filled!(GGLWEToGGSWKeyCompressed::alloc(deg, b, k, rank, dnum, dsize)),
        "GLWEToLWESwitchingKeyCompressed" => filled!(GLWEToLWESwitchingKeyCompressed::alloc(deg, b, k, rank, dnum)),
        "LWEToGLWEKeyCompressed" => filled!(LWEToGLWEKeyCompressed::alloc(deg, b, k, rank, dnum)),
        "LWESwitchingKeyCompressed" => filled!(LWESwitchingKeyCompressed::alloc(deg, b, k, dnum)),
        "BlindRotationKey" => filled!(BlindRotationKey::<Vec<u8>, CGGI>::alloc(&brk)),
        "BlindRotationKeyCompressed" => filled!(BlindRotationKeyCompressed::<Vec<u8>, CGGI>::alloc(&brk)),
        "GLWEPublicKey" => keygen("pk"),
        "CircuitBootstrappingKey" => keygen("cbt"),
        "BDDKey" => keygen("bdd"),
        other => panic!("harness: unknown composite wire type {other}"),
    }
}

/// One composite case: the clean stream into the receiver, EVERY truncation point, and every 8-byte word of the first 512
/// bytes replaced by each value of the boundary dictionary.
fn run_comp_case(c: &Value, seed: u64, dry: bool) -> Value {
    let id = c.get("id").and_then(|v| v.as_u64()).unwrap_or(0);
    let ty = c["type"].as_str().unwrap();
    let src_obj = build_comp(ty, &c["sh"], seed ^ id);
    let full = src_obj.ser().expect("serialising a fresh object");
    let mut e = json!({"id": id, "kind": "comp", "type": ty, "sh": c["sh"], "rsh": c["rsh"], "rel": c["rel"], "flen": full.len()});
    if dry {
        e["clean"] = json!({"outcome": "abort", "roundtrip": false, "post_ok": false, "msg": "process aborted"});
        e["cuts"] = json!({"total": 0, "err": 0, "bad": []});
        e["muts"] = json!({"total": 0, "ok": 0, "err": 0, "bad": []});
        return e;
    }
    // reads `stream` into a fresh receiver; returns (outcome, re-serialisation)
    let attempt = |stream: &[u8]| -> (String, Option<Vec<u8>>, String) {
        let mut rcv = build_comp(ty, &c["rsh"], seed ^ id ^ 0xABCDEF);
        let r = guarded(|| rcv.de(stream));
        let (outcome, msg) = match &r {
            Ok(Ok(())) => ("ok".to_string(), String::new()),
            Ok(Err(m)) => ("err".to_string(), m.chars().take(100).collect()),
            Err(p) => ("panic".to_string(), p.chars().take(100).collect()),
        };
        let post = guarded(|| rcv.ser());
        match post {
            Ok(Ok(b)) => (outcome, Some(b), msg),
            Ok(Err(m)) => (outcome, None, format!("{msg} / post: {m}")),
            Err(p) => (outcome, None, format!("{msg} / post panic: {p}")),
        }
    };
    let pre_len = build_comp(ty, &c["rsh"], seed ^ id ^ 0xABCDEF).ser().map(|b| b.len()).unwrap_or(0);
    let (o, post, msg) = attempt(&full);
    e["clean"] = json!({"outcome": o, "roundtrip": post.as_ref().map(|b| *b == full).unwrap_or(false), "post_ok": post.is_some(), "post_len": post.as_ref().map(|b| b.len()).unwrap_or(0), "msg": msg});
    // every truncation point (a stride keeps the very large bundles affordable; all points below 1024 bytes and the last 64)
    let stride = g(c, "stride", 1) as usize;
    let (mut total, mut nerr, mut bad) = (0usize, 0usize, Vec::<Value>::new());
    let same = c["rel"] == "same";
    for p in 0..full.len() {
        if !(p < 1024 || p + 64 >= full.len() || p % stride == 0) {
            continue;
        }
        total += 1;
        let (o, post, msg) = attempt(&full[..p]);
        // a failed read leaves a receiver that still serialises, with its dimensions (stream length) unchanged when it had the sender's shape
        let sane = post.as_ref().map(|b| !same || b.len() == pre_len).unwrap_or(false);
        if o == "err" && sane {
            nerr += 1;
        } else if bad.len() < 4 {
            bad.push(json!([p, o, sane, msg]));
        }
    }
    e["cuts"] = json!({"total": total, "err": nerr, "bad": bad});
    let dict: [u64; 7] = [0, 1, 1 << 31, 1 << 61, u64::MAX, 0, 0];
    let (mut mt, mut mok, mut merr, mut mbad) = (0usize, 0usize, 0usize, Vec::<Value>::new());
    for w in 0..(full.len().min(512) / 8) {
        let cur = u64::from_le_bytes(full[w * 8..w * 8 + 8].try_into().unwrap());
        for (di, dv) in dict.iter().enumerate() {
            let v = match di { 5 => cur.wrapping_add(1), 6 => cur.wrapping_sub(1), _ => *dv };
            if v == cur {
                continue;
            }
            let mut s2 = full.clone();
            s2[w * 8..w * 8 + 8].copy_from_slice(&v.to_le_bytes());
            mt += 1;
            let (o, post, msg) = attempt(&s2);
            match (o.as_str(), post.is_some()) {
                ("ok", true) => mok += 1,
                ("err", true) => merr += 1,
                _ => if mbad.len() < 4 { mbad.push(json!([w * 8, v.to_string(), o, msg])) },
            }
        }
    }
    e["muts"] = json!({"total": mt, "ok": mok, "err": merr, "bad": mbad});
    e
}

const HDR: usize = 256;

fn head(b: &[u8]) -> Vec<u8> {
    b[..b.len().min(HDR)].to_vec()
}

pub fn run_wire_case(c: &Value, seed: u64, dry: bool) -> Value {
    if c.get("kind").and_then(|v| v.as_str()) == Some("comp") {
        return run_comp_case(c, seed, dry);
    }
    let id = c.get("id").and_then(|v| v.as_u64()).unwrap_or(0);
    let ty = c["type"].as_str().unwrap();
    let (src_obj, _) = build(ty, &c["sh"], seed ^ id);
    let full = src_obj.ser().expect("serialising a fresh object");
    let mut stream = full.clone();
    if let Some(muts) = c.get("muts").and_then(|v| v.as_array()) {
        for m in muts {
            let off = m["off"].as_u64().unwrap() as usize;
            let add = m.get("kind").and_then(|v| v.as_str()) == Some("add");
            let mut carry: u16 = 0;
            for (i, b) in m["val"].as_array().unwrap().iter().enumerate() {
                if off + i < stream.len() {
                    let v = b.as_u64().unwrap() as u16;
                    if add {
                        // little-endian addition modulo 2^(8w): pure byte arithmetic, no knowledge of the field
                        let s = stream[off + i] as u16 + v + carry;
                        stream[off + i] = (s & 0xff) as u8;
                        carry = s >> 8;
                    } else {
                        stream[off + i] = v as u8;
                    }
                }
            }
        }
    }
    let cut = c.get("cut").and_then(|v| v.as_i64()).unwrap_or(-1);
    if cut >= 0 && (cut as usize) < stream.len() {
        stream.truncate(cut as usize);
    }
    let (mut rcv, cap) = build(ty, &c["rsh"], seed ^ id ^ 0xABCDEF);
    // every layout allocates through alloc_aligned, which pads the buffer to a multiple of 64 bytes
    let cap = cap.next_multiple_of(64);
    let pre = rcv.ser();
    // dry = the case killed the process (abort, e.g. an allocation the stream asked for): describe it without re-running it
    let r = if dry { Err("process aborted".to_string()) } else { guarded(|| rcv.de(&stream)) };
    let (outcome, msg) = match &r {
        Err(p) if dry => ("abort", p.clone()),
        Ok(Ok(())) => ("ok", String::new()),
        Ok(Err(e)) => ("err", e.chars().take(120).collect()),
        Err(p) => ("panic", p.clone()),
    };
    let post = guarded(|| rcv.ser());
    let (post_hdr, post_ok, post_msg, post_full) = match post {
        Ok(Ok(b)) => (head(&b), true, String::new(), Some(b)),
        Ok(Err(e)) => (vec![], false, e.chars().take(120).collect::<String>(), None),
        Err(p) => (vec![], false, format!("panic: {p}"), None),
    };
    // round trip: after a successful read of an un-mutated complete stream the receiver re-serialises to it
    let same_as_stream = post_full.as_ref().map(|b| *b == full).unwrap_or(false);
    json!({
        "id": id, "type": ty, "sh": c["sh"], "rsh": c["rsh"],
        "hdr": head(&stream), "slen": stream.len(), "flen": full.len(),
        "pre": pre.as_ref().map(|b| head(b)).unwrap_or_default(), "cap": cap,
        "outcome": outcome, "msg": msg,
        "post": post_hdr, "post_ok": post_ok, "post_msg": post_msg, "roundtrip": same_as_stream,
        "mutated": c.get("muts").map(|m| !m.as_array().unwrap().is_empty()).unwrap_or(false), "cut": cut,
    })
}
