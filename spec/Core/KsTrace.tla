------------------------------- MODULE KsTrace -------------------------------
(* Validates logged key-switching behaviours (keygen -> encrypt -> operation) against        *)
(* KeySwitch.tla: one state per event, rejected events are collected.                         *)
EXTENDS Integers, Sequences, TLC, Json, IOUtils, Xp, Scratch

Rec == ndJsonDeserialize(IOEnv.TRACE)
VARIABLES i, bad
vars == <<i, bad>>
Who(e, o) == {e.outs[o].who[w] : w \in 1..Len(e.outs[o].who)}
SemOK(e) == \A o \in 1..Len(e.outs) : e.outs[o].panic = "" /\ (IF IsXp(e) THEN XpAllOK(e, e.outs[o].res) ELSE AllOK(e, e.outs[o].res))
VacOK(e) == \A o \in 1..Len(e.outs) : e.outs[o].panic # "" \/ (IF IsXp(e) THEN XpMeaningful(e, e.outs[o].res) ELSE Meaningful(e, e.outs[o].res))
BeOK(e) == e.inputs_same /\ \A o1, o2 \in 1..Len(e.outs) : o1 # o2 => \A x \in Who(e, o1), y \in Who(e, o2) : x.f # y.f
FillOK(e) == \A o1, o2 \in 1..Len(e.outs) : o1 # o2 => \A x \in Who(e, o1), y \in Who(e, o2) : x.b # y.b
ScrOK(e) == \A r \in 1..Len(e.scr) : \A c \in 1..Len(e.scr[r].calls) : CallOK(e.scr[r].calls[c])
ScrMemOK(e) == \A r \in 1..Len(e.scr) : \A c \in 1..Len(e.scr[r].calls) : CallMemOK(e.scr[r].calls[c])
\* a behaviour that panicked before its inputs existed (key generation / encryption) has nothing to evaluate
Ran(e) == e.a.rank # -1 /\ \A o \in 1..Len(e.outs) : e.outs[o].panic # "" \/ e.outs[o].res.rank # -1
Verdict(e, k) ==
  IF ~Ran(e) THEN << <<k, "sem">> >> \o (IF ScrOK(e) THEN <<>> ELSE << <<k, "scr">> >>)
  ELSE
     (IF (IF IsXp(e) THEN KeyGgswOK(e) ELSE (Fam(e) # "ks" \/ KeyOK(e))) THEN <<>> ELSE << <<k, "key">> >>)
  \o (IF SemOK(e) THEN <<>> ELSE << <<k, "sem">> >>)
  \o (IF VacOK(e) THEN <<>> ELSE << <<k, "vacuous">> >>)
  \o (IF BeOK(e) THEN <<>> ELSE << <<k, "be">> >>)
  \o (IF FillOK(e) THEN <<>> ELSE << <<k, "fill">> >>)
  \o (IF ScrOK(e) THEN <<>> ELSE << <<k, "scr">> >>)
  \o (IF ScrMemOK(e) THEN <<>> ELSE << <<k, "scrmem">> >>)
Init == i = 1 /\ bad = <<>>
Next == /\ i <= Len(Rec) /\ i' = i + 1 /\ bad' = bad \o Verdict(Rec[i], i)
Spec == Init /\ [][Next]_vars
Report == (i = Len(Rec) + 1) => PrintT(<<"VERDICT", Len(Rec), ToJson(bad)>>)
=============================================================================
