CONSTANTS
  Bs = {3, 4}
  MaxSIn = 4
  MaxSKey = 5
  MaxDsize = 3
  Ranks = {1, 2}
  PCs = {2}
  MaxKeyBits = 24
  MinKeyBits = 15
  NX = 8
  Quick = TRUE
INIT Init
NEXT Next
INVARIANT Emit
CHECK_DEADLOCK FALSE
