------------------------------- MODULE Gen_C01 -------------------------------
(* Behaviour generator for C01: fresh encryption followed by decryption over the           *)
(* configuration grid -- ring degree, radix, torus precision k not a multiple of the radix,  *)
(* plaintext precision below / equal / above the ciphertext's, plaintext radix equal or       *)
(* different, rank, secret distribution, message class, noise parameters, and the four        *)
(* encryption paths (secret key, zero, public key, seed-compressed).                          *)
(* Each behaviour is the two-step program  enc ; dec  (plus a second decryption at another    *)
(* plaintext precision).                                                                      *)
EXTENDS C01Grid, TLC, Json, IOUtils, SequencesExt

Progs == UNION { UNION { { Prog(n, b, rank, dist, noise, path, sz, koff, pl[1], pl[2], pc, dl[1], dl[2]) :
                             n \in Ns, rank \in Ranks, dist \in Dists, noise \in Noises, path \in Paths, koff \in {0, 1, b - 1},
                             pl \in PtLayouts(b, sz), pc \in Classes, dl \in (PtLayouts(b, sz) \cup OtherRadix(b, sz)) }
                         : sz \in 1..MaxS } : b \in Bs }
\* a plaintext in ANOTHER radix than the ciphertext (secret-key and compressed paths; the public-key path asserts equal radices)
ProgsX == UNION { { Prog(n, b, rank, "ternary_prob", NoiseTable[1], path, sz, 0, pl[1], pl[2], pc, b, sz) :
                      n \in Ns, rank \in {1}, path \in (Paths \cap {"enc_sk", "enc_c"}), sz \in 2..MaxS, pl \in OtherRadix(b, 1), pc \in Classes } : b \in Bs }
\* plaintexts much shorter than the ciphertext at a ring large relative to the radix: the limbs of the mask beyond
\* the plaintext's precision times the secret still reach the plaintext's last limb (N * 2^-b is not small)
ProgsDeep == { Prog(n, 2, rank, "ternary_prob", NoiseTable[1], path, sz, 0, 2, 1, pc, 2, 2) :
                 n \in DeepNs, rank \in {2, 3}, path \in (Paths \cap {"enc_sk", "enc_pk"}), sz \in {3, 4, 5}, pc \in {2, 3} }
\* the zero-encryption path carries no message; the compressed / public-key paths are secret-key-independent of dist variety
Progs1 == { p \in Progs : (p.prog[1].op = "enc_zero_sk" => p.prog[1].pc = 0) } \cup ProgsX \cup ProgsDeep

ASSUME ndJsonSerialize(IOEnv.OUT, SetToSeq(Progs1))
ASSUME PrintT(<<"GENERATED", Cardinality(Progs1)>>)
VARIABLE c
Init == c \in Progs1
Next == UNCHANGED c
=============================================================================
