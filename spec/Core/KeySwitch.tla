------------------------------ MODULE KeySwitch ------------------------------
(* The gadget product behind key-switching (C03) -- and, with GGSW rows, behind external      *)
(* products (C04).                                                                            *)
(*                                                                                            *)
(* A switching key from s_in to s_out, radix 2^bk, S_k limbs, digit size dsize, dnum rows:     *)
(*   row (r, i) is a GLWE under s_out whose phase is  s_in[i] * 2^-((r+1)*dsize*bk) + e,       *)
(*   |e| <= the configured bound at the key's precision                         (KeyOK).       *)
(* GadgetProduct(a, key): column co of the (key-precision) accumulator is                      *)
(*   [co = body] a_body  +  SUM_{i < rank_in, r < R}  Block(a_i, r) * Row(r, i)[co]             *)
(* where Block(a_i, r) is the r-th group of dsize limbs of a_i read as one integer and          *)
(* R = min(dnum, ceil(size(a)/dsize)) ("largest valid sub-shape").  This is an EXACT integer    *)
(* identity; the library then normalises the accumulator into the output's radix / size        *)
(* (one unit of the output's last limb; two across radices).  From KeyOK and the identity it    *)
(* follows that the output decrypts under s_out to what the input decrypts to under s_in, up    *)
(* to  rank_in * R * N * 2^(dsize*bk - 1) * bound * 2^-k_key  plus the truncation terms         *)
(* (PhaseBound).                                                                               *)
EXTENDS Integers, Sequences, Pow2, Poly, Limbs, Glwe, HalNorm

\* e: the logged event (configuration, a, key rows, secrets); res: one observed result
KeyBits(e) == e.skey * e.bkey
InBits(e) == e.a.size * e.a.b
OutBits(res) == res.size * res.b
NN(e) == e.n
Bk(e) == (e.bound10 + 9) \div 10                       \* ceil(bound): key noise in units of the key's last limb
RUsed(e) == Min(e.dnum, DivCeil(e.a.size, e.dsize))

\* ---- the key is a valid switching key from sk_in to sk_out
KeyOK(e) ==
  LET M == Pow2(KeyBits(e)) IN
  \A r \in 1..e.dnum : \A i \in 1..e.rin :
     LET ph == PhaseVec(e.key[r][i], e.sk_out)
         sh == KeyBits(e) - r * e.dsize * e.bkey
     IN /\ sh >= 0
        /\ \A c \in 1..NN(e) : CycDist(ph[c], e.sk_in[i][c] * Pow2(sh), M) <= Bk(e)

\* ---- exact gadget product (input already in the key's radix)
NegacyclicMulMod(p, q, M) ==
  LET N == Len(p)
      RECURSIVE S(_, _)
      S(k, i) == IF i = N THEN 0
                 ELSE LET j == (k - i) % N
                          sg == IF i + j = k THEN 1 ELSE -1
                      IN sg * p[i + 1] * q[j + 1] + S(k, i + 1)
  IN [k \in 1..N |-> S(k - 1, 0) % M]
Block(e, i, r) ==      \* r-th digit block (0-based r) of mask column i (1-based) of a, as integer polynomial
  LET col == e.a.d[i + 1]
      RECURSIVE B(_)
      B(t) == IF t = e.dsize \/ r * e.dsize + t >= e.a.size THEN PZero(NN(e))
              ELSE PAdd(PScale(col[r * e.dsize + t + 1], Pow2((e.dsize - 1 - t) * e.bkey)), B(t + 1))
  IN B(0)
RowCol(e, r, i, co) == LET ct == e.key[r][i] IN [c \in 1..NN(e) |-> TorusInt(ct.d[co], e.bkey, c) % Pow2(KeyBits(e))]
BodyCut(e) == LET col == [j \in 1..e.skey |-> IF j <= e.a.size THEN e.a.d[1][j] ELSE PZero(NN(e))]
              IN [c \in 1..NN(e) |-> TorusInt(col, e.bkey, c) % Pow2(KeyBits(e))]
\* bc: the column the (cut) body of the input is added to -- 1 for a key-switch, j+1 for the row expansion of a GGSW
ExpBigAt(e, co, bc) ==
  LET M == Pow2(KeyBits(e))
      RECURSIVE Sum(_, _)
      Sum(i, r) == IF i > e.rin THEN PZero(NN(e))
                   ELSE IF r >= RUsed(e) THEN Sum(i + 1, 0)
                   ELSE PAdd(NegacyclicMulMod(Block(e, i, r), RowCol(e, r + 1, i, co), M), Sum(i, r + 1))
      g == Sum(1, 0)
  IN [c \in 1..NN(e) |-> ((IF co = bc THEN BodyCut(e)[c] ELSE 0) + g[c]) % M]
ExpBig(e, co) == ExpBigAt(e, co, 1)

\* slack of the "ignore the last dsize-2 limbs of the partial products" optimisation, in units of the key's last limb
DropSlackKey(e) ==
  LET T == e.rin * e.dnum * NN(e)        \* dnum >= the rows actually used
      RECURSIVE D(_)
      D(di) == IF di > e.dsize - 3 THEN 0 ELSE T * Pow2(2 * e.bkey - 2 + (e.dsize - di - 3) * e.bkey + 1) + D(di + 1)
  IN IF e.dsize >= 3 THEN D(0) ELSE 0
\* saturating at 2^27 (native 32-bit integers; every precision here is <= 24 bits so a saturated bound is "meaningless" anyway)
Sat == Pow2(27)
ToOutUlps(x, fromBits, toBits) ==
  IF toBits >= fromBits THEN (IF toBits - fromBits >= 27 \/ x >= Pow2(27 - (toBits - fromBits)) THEN Sat ELSE x * Pow2(toBits - fromBits))
  ELSE Min(Sat, DivCeil(x, Pow2(fromBits - toBits)))

\* comparison of an output coefficient D (output precision ob) with the accumulator value A (key precision):
\* when the output is at least as precise (E >= 0) no rounding takes place and only the drop slack is allowed
NearOK(D, A, E, ob, base, slack) ==
  IF E >= 0 THEN (IF E >= ob THEN CycDist(D, 0, Pow2(ob)) <= slack ELSE CycDist(D, (A * Pow2(E)) % Pow2(ob), Pow2(ob)) <= slack)
  ELSE TorusShiftOK(D, A, E, ob, base + slack)
ExactAtOK(e, res, bc) ==
  LET ob == OutBits(res)
      base == IF res.b = e.bkey THEN 1 ELSE 2
      slack == ToOutUlps(DropSlackKey(e), KeyBits(e), ob)
  IN /\ res.rank = e.rout
     /\ \A co \in 1..(e.rout + 1) :
          LET want == ExpBigAt(e, co, bc) IN
          \A c \in 1..NN(e) :
            NearOK(TorusInt(res.d[co], res.b, c), CMod(want[c], Pow2(KeyBits(e))), ob - KeyBits(e), ob, base, slack)
ExactOK(e, res) == ExactAtOK(e, res, 1)

\* ---- the user-level statement: same plaintext under the new key, noise within the gadget-product bound
\* noise of ONE gadget product whose (key-radix) input has asz limbs, in units of 2^-ob
KsCore(e, asz, ob) ==
  LET n1in == SkNorm1(e.sk_in)
      noise == ToOutUlps(e.rin * Min(e.dnum, DivCeil(asz, e.dsize)) * NN(e) * Pow2(e.dsize * e.bkey - 1) * Bk(e), KeyBits(e), ob)
      t2 == IF asz > e.dnum * e.dsize THEN ToOutUlps(n1in, e.dnum * e.dsize * e.bkey, ob) ELSE 0
      t3 == IF asz > e.skey THEN ToOutUlps(1, KeyBits(e), ob) ELSE 0
      drop == ToOutUlps(DropSlackKey(e), KeyBits(e), ob)
  IN Min(Sat, noise + t2 + t3 + drop)
AConvSize(e) == DivCeil(InBits(e), e.bkey)
\* input conversion to the key radix (two units of its last limb on every column) and output normalisation
ConvIn(e, ob) == IF e.a.b = e.bkey THEN 0 ELSE ToOutUlps(2 * (1 + SkNorm1(e.sk_in)), AConvSize(e) * e.bkey, ob)
ConvOut(e, res) == (IF res.b = e.bkey THEN 1 ELSE 2) * (1 + SkNorm1(e.sk_out))
PhaseBound(e, res) == LET ob == OutBits(res) IN 1 + KsCore(e, AConvSize(e), ob) + ConvIn(e, ob) + ConvOut(e, res)
PhaseOK(e, res) ==
  LET pin == PhaseVec(e.a, e.sk_in)
      pout == PhaseVec(res, e.sk_out)
      ob == OutBits(res)
      B == PhaseBound(e, res)
  IN \A c \in 1..NN(e) : CycDist(pout[c], Rescale(pin[c], InBits(e), ob), Pow2(ob)) <= B
\* the bound must mean something: below 1/16 of the torus (generator enabling condition, re-checked here)
BoundMeaningful(e, res) == PhaseBound(e, res) <= Pow2(OutBits(res)) \div 16

\* the exact product is formed in native integers: key precision up to 16 bits
KsOK(e, res) == /\ PhaseOK(e, res)
                /\ (e.a.b = e.bkey /\ KeyBits(e) <= 16) => ExactOK(e, res)
=============================================================================
