------------------------------- MODULE C01Grid -------------------------------
(* The configuration grid of C01 (shared by the enumerating generator Gen_C01 and the        *)
(* sampling generator Gen_C01S): one behaviour is the program  enc ; dec ; dec.              *)
EXTENDS Integers, Sequences, FiniteSets

CONSTANTS DeepNs, Ns, Bs, MaxS, Ranks, Dists, Classes, NoiseIdx, Paths
\* (10*sigma, 10*bound): smallest legal noise, wider bounds, and the library default (3.2, 19.2)
NoiseTable == << <<10, 10>>, <<10, 20>>, <<10, 60>>, <<32, 192>> >>
Noises == {NoiseTable[k] : k \in NoiseIdx}

Step(op, r, a, sz, koff, rk, pb, ps, pc) ==
  [op |-> op, r |-> r, a |-> a, b |-> 0, k |-> 0, sz |-> sz, koff |-> koff, rk |-> rk, pb |-> pb, ps |-> ps, pc |-> pc]

Prog(n, b, rank, dist, noise, path, sz, koff, pb, ps, pc, pb2, ps2) ==
  [n |-> n, b |-> b, rank |-> rank, dist |-> dist, hw |-> n \div 2, sigma10 |-> noise[1], bound10 |-> noise[2], nregs |-> 2,
   prog |-> << Step(path, 0, 0, sz, koff, rank, pb, ps, pc),
               Step("dec", 0, 0, sz, koff, rank, pb, ps, pc),
               Step("dec", 0, 0, sz, koff, rank, pb2, ps2, pc) >>]

\* plaintext layouts relative to the ciphertext (b, sz): same radix with fewer / equal / more limbs, and another radix
PtLayouts(b, sz) == { <<b, ps>> : ps \in {1, sz, sz + 1} \cap (1..(MaxS + 1)) }
OtherRadix(b, sz) == { <<pb, ps>> : pb \in (Bs \ {b}), ps \in {sz} }

\* enabling conditions beyond the grid: the zero-encryption path carries no message
Admissible(path, pc) == path = "enc_zero_sk" => pc = 0
=============================================================================
