--------------------------------- MODULE Xp ---------------------------------
(* External products (C04).  A GGSW of the small polynomial m under s is a (dnum x (rank+1))     *)
(* matrix of GLWE: cell (r, c) has phase  m * G_r * (1 if c is the body column else s_c) + e,     *)
(* G_r = 2^-(r*dsize*b)  (GgswOK).  The external product of a GLWE a with it is the gadget        *)
(* product over ALL rank+1 columns of a (no separate body term) and decrypts to m * phase(a)      *)
(* within the gadget bound; CMux(t, f, bit) = (t - f) x GGSW(bit) + f selects t or f; the GGSW     *)
(* external product applies the GLWE one to every cell.                                          *)
EXTENDS KsFamily

IsXp(e) == e.ev = "xp"
M2(e) == e.m2
N2(e) == Norm1(e.m2)
Rk(e) == e.rin

\* ---- a GGSW (rows[r][c], radix b, S limbs, digit size ds) encrypts m under sk within B units of its last limb
GgswOK(rows, m, sk, b, S, ds, B) ==
  LET K == S * b
      M == Pow2(K)
      N == Len(m)
  IN \A r \in 1..Len(rows) : \A c \in 1..Len(rows[r]) :
       LET ph == PhaseVec(rows[r][c], sk)
           sh == K - r * ds * b
           ms == IF c = 1 THEN m ELSE NegacyclicMul(m, sk[c - 1])
       IN /\ sh >= 0
          /\ \A i \in 1..N : CycDist(ph[i], (ms[i] % Pow2(K - sh)) * Pow2(sh), M) <= B
KeyGgswOK(e) == GgswOK(e.key, M2(e), e.sk_in, e.bkey, e.skey, e.dsize, Bk(e))

\* ---- exact gadget product over all columns
XpBig(e, co) ==
  LET M == Pow2(KeyBits(e))
      RECURSIVE Sum(_, _)
      Sum(i, r) == IF i > Rk(e) THEN PZero(NN(e))
                   ELSE IF r >= RUsed(e) THEN Sum(i + 1, 0)
                   ELSE PAdd(NegacyclicMulMod(Block(e, i, r), RowCol(e, r + 1, i + 1, co), M), Sum(i, r + 1))
      g == Sum(0, 0)
  IN [c \in 1..NN(e) |-> g[c] % M]
XpExactOK(e, res) ==
  LET ob == OutBits(res)
      e1 == [e EXCEPT !.rin = e.rin + 1]
      base == IF res.b = e.bkey THEN 1 ELSE 2
      slack == ToOutUlps(DropSlackKey(e1), KeyBits(e), ob)
  IN /\ res.rank = Rk(e)
     /\ \A co \in 1..(Rk(e) + 1) :
          LET want == XpBig(e, co) IN
          \A c \in 1..NN(e) :
            NearOK(TorusInt(res.d[co], res.b, c), CMod(want[c], Pow2(KeyBits(e))), ob - KeyBits(e), ob, base, slack)

\* ---- bound of one external product of a ciphertext laid out like a into a result laid out like res (units of 2^-ob)
XpCore(e, asz, ob, dbl) ==
  LET n1 == SkNorm1(e.sk_in)
      e1 == [e EXCEPT !.rin = e.rin + 1]
      noise == ToOutUlps(dbl * (Rk(e) + 1) * Min(e.dnum, DivCeil(asz, e.dsize)) * NN(e) * Pow2(e.dsize * e.bkey - 1) * Bk(e), KeyBits(e), ob)
      t2 == IF asz > e.dnum * e.dsize THEN ToOutUlps(dbl * N2(e) * (1 + n1), e.dnum * e.dsize * e.bkey, ob) ELSE 0
      t3 == IF asz > e.skey THEN ToOutUlps(dbl * N2(e) * (1 + n1), KeyBits(e), ob) ELSE 0
      drop == ToOutUlps(dbl * DropSlackKey(e1), KeyBits(e), ob)
  IN Min(Sat, noise + t2 + t3 + drop)
XpBound(e, a, res, dbl) ==
  LET ob == OutBits(res)
      ea == [e EXCEPT !.a = a]
  IN 1 + N2(e) + XpCore(e, AConvSize(ea), ob, dbl) + N2(e) * ConvIn(ea, ob) + ConvOut(e, res)
XpPhaseOK(e, a, res) ==
  LET ob == OutBits(res)
      pin == Resc(PhaseVec(a, e.sk_in), Bits(a), ob)
      want == NegacyclicMul(M2(e), pin)
      pout == PhaseVec(res, e.sk_in)
      B == XpBound(e, a, res, 1)
  IN \A c \in 1..NN(e) : CycDist(pout[c], want[c] % Pow2(ob), Pow2(ob)) <= B
CmuxOK(e, res) ==
  LET ob == OutBits(res)
      pt == Resc(PhaseVec(e.a, e.sk_in), Bits(e.a), ob)
      pf == Resc(PhaseVec(e.b, e.sk_in), Bits(e.b), ob)
      want == PAdd(NegacyclicMul(M2(e), PSub(pt, pf)), pf)
      pout == PhaseVec(res, e.sk_in)
      B == XpBound(e, e.a, res, 2) + 2 * (1 + N2(e)) * (1 + SkNorm1(e.sk_in))
  IN \A c \in 1..NN(e) : CycDist(pout[c], want[c] % Pow2(ob), Pow2(ob)) <= B
\* exact form of the CMux when the branches and the result have one layout in the selector's radix:
\* accumulator = gadget product of the limb-wise difference t - f, plus f aligned on the top limb
CmuxExactOK(e, res) ==
  LET ob == OutBits(res)
      diff == [e.a EXCEPT !.d = [co \in 1..Len(e.a.d) |-> [j \in 1..e.a.size |-> PSub(e.a.d[co][j], e.b.d[co][j])]]]
      ed == [e EXCEPT !.a = diff]
      e1 == [e EXCEPT !.rin = e.rin + 1]
      M == Pow2(KeyBits(e))
      slack == ToOutUlps(2 * DropSlackKey(e1), KeyBits(e), ob)
      FCut(co) == LET col == [j \in 1..e.skey |-> IF j <= e.b.size THEN e.b.d[co][j] ELSE PZero(NN(e))]
                  IN [c \in 1..NN(e) |-> TorusInt(col, e.bkey, c) % M]
  IN \A co \in 1..(Rk(e) + 1) :
       LET want == XpBig(ed, co)
           f == FCut(co)
       IN \A c \in 1..NN(e) :
            NearOK(TorusInt(res.d[co], res.b, c), CMod((want[c] + f[c]) % M, M), ob - KeyBits(e), ob, 1, slack)
AllZero(ct) == \A c \in 1..Len(ct.d) : \A j \in 1..Len(ct.d[c]) : \A i \in 1..Len(ct.d[c][j]) : ct.d[c][j][i] = 0
GgswXpOK(e, res) ==
  LET ra == e.a.rows
      rr == res.rows
      mn == Min(Len(ra), Len(rr))
  IN \A r \in 1..Len(rr) : \A c \in 1..Len(rr[r]) :
       IF r <= mn THEN XpPhaseOK(e, ra[r][c], rr[r][c]) ELSE AllZero(rr[r][c])

XpFam(e) == IF e.op \in {"xp", "xp_assign"} THEN "xp" ELSE IF e.op \in {"ggsw_xp", "ggsw_xp_assign"} THEN "ggsw" ELSE "cmux"
XpAllOK(e, res) ==
  CASE XpFam(e) = "xp" -> /\ XpPhaseOK(e, e.a, res)
                          /\ (e.a.b = e.bkey /\ KeyBits(e) <= 16) => XpExactOK(e, res)
    [] XpFam(e) = "cmux" -> /\ CmuxOK(e, res)
                            /\ (KeyBits(e) <= 16 /\ res.size = e.a.size /\ e.b.size = e.a.size) => CmuxExactOK(e, res)
    [] OTHER -> GgswXpOK(e, res)
XpMeaningful(e, res) ==
  CASE XpFam(e) = "xp" -> XpBound(e, e.a, res, 1) <= Pow2(OutBits(res)) \div 16
    [] XpFam(e) = "cmux" -> XpBound(e, e.a, res, 2) + 2 * (1 + N2(e)) * (1 + SkNorm1(e.sk_in)) <= Pow2(OutBits(res)) \div 16
    [] OTHER -> LET c == res.rows[1][1] IN XpBound(e, e.a.rows[1][1], c, 1) <= Pow2(OutBits(c)) \div 16
=============================================================================
