CONSTANTS
  Bs = {3, 4, 6}
  SA = {1, 2, 3}
  SB = {1, 2}
  Ranks = {1, 2}
  PCs = {2}
  MaxProdBits = 20
  MaxTensorBits = 18
  MaxSKey = 6
  MaxDsize = 3
INIT Init
NEXT Next
INVARIANT Emit
CHECK_DEADLOCK FALSE
