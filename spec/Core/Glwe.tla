-------------------------------- MODULE Glwe --------------------------------
(* GLWE ciphertexts over the torus and their decryption phase (poulpy-core).               *)
(* A ciphertext of rank r is r+1 columns of S limbs in radix 2^b: column 1 is the body,     *)
(* columns 2..r+1 the mask.  Under the secret s = (s_1..s_r) (small polynomials) its phase   *)
(* is   body + SUM_c mask_c * s_c   in Z[X]/(X^N+1), limb by limb; as a torus element it is   *)
(* PhaseInt / 2^(S*b) (mod 1).  The specification computes phases itself with schoolbook     *)
(* negacyclic products: it shares nothing with the library's FFT / NTT.                     *)
EXTENDS Integers, Sequences, Pow2, Poly, Limbs

\* ct = [rank, b, size, d]  with d[col][limb] a polynomial
PhaseLimb(ct, sk, j) ==
  LET N == Len(ct.d[1][j])
      RECURSIVE PhAcc(_)
      PhAcc(c) == IF c > ct.rank THEN ct.d[1][j] ELSE PAdd(NegacyclicMul(ct.d[c + 1][j], sk[c]), PhAcc(c + 1))
  IN PhAcc(1)
PhaseCol(ct, sk) == [j \in 1..ct.size |-> PhaseLimb(ct, sk, j)]
Modulus(ct) == Pow2(ct.size * ct.b)
\* phase of coefficient i as an integer in [0, 2^(S*b)): torus value PhaseVec[i] / 2^(S*b)
PhaseVec(ct, sk) == LET pc == PhaseCol(ct, sk) N == Len(ct.d[1][1]) IN [i \in 1..N |-> TorusInt(pc, ct.b, i) % Modulus(ct)]

\* a plaintext pt = [b, size, d] (one column) as integers modulo 2^(size*b)
PtVec(pt) == LET N == Len(pt.d[1]) IN [i \in 1..N |-> TorusInt(pt.d, pt.b, i) % Pow2(pt.size * pt.b)]

\* Rescaling a torus numerator x / 2^from to denominator 2^to:  exact when to >= from, else floor
Rescale(x, from, to) == IF to >= from THEN x * Pow2(to - from) ELSE x \div Pow2(from - to)
IsExactRescale(x, from, to) == to >= from \/ x % Pow2(from - to) = 0

\* |a - b| <= t on the cycle Z/M, allowing for the floor taken by `inexact` rescaled operands:
\* true value of each inexact operand lies in [floor, floor+1)
Within(d, want, M, t, inexact) == \E u \in (-t)..(t + inexact) : (d - want - u) % M = 0

\* 1-norm of the secret (for the public-key bound)
SkNorm1(sk) == LET RECURSIVE S(_) S(c) == IF c > Len(sk) THEN 0 ELSE Norm1(sk[c]) + S(c + 1) IN S(1)
=============================================================================
