------------------------------ MODULE MC_Packer ------------------------------
(* Design-level check of Packer.tla: for every presence pattern of the inputs and every          *)
(* log_batch, the code-shaped carry chain produces exactly the user-level packing (bit-reversed     *)
(* positions, every non-packed coefficient of the inputs vanishes), all halvings are exact, and a   *)
(* second round on the same packer is not contaminated by the first.                               *)
EXTENDS Packer, TLC

VARIABLES st, ins, lb, round, ok
vars == <<st, ins, lb, round, ok>>
\* input j of a round: the packed coefficients carry distinguishable multiples of 2^LogN, every other coefficient junk
Input(j, l, rnd) == [c \in 1..NP |-> IF (c - 1) % Stride(l) = 0 THEN (100 * rnd + 10 * j + (c - 1) \div Stride(l) + 1) * NP ELSE (7 * j + c) * NP]
NIn(l) == 2 ^ (LogN - l)
Init == /\ lb \in 0..(LogN - 1) /\ st = PInit(lb) /\ ins = <<>> /\ round = 1 /\ ok = TRUE
Add == /\ round <= 2 /\ PAddEnabled(st) /\ Len(ins) < NIn(lb)
       /\ \E present \in BOOLEAN :
            LET j == Len(ins)
                a == IF present THEN Input(j, lb, round) ELSE Absent
            IN st' = PAdd1(st, a) /\ ins' = Append(ins, a)
       /\ UNCHANGED <<lb, round, ok>>
Flush == /\ PFlushEnabled(st) /\ round <= 2
         /\ ok' = (ok /\ (PFlushDefined(st) => PFlushValue(st) = PackerSpec(ins, lb)))
         /\ st' = PReset(st) /\ ins' = <<>> /\ round' = round + 1
         /\ UNCHANGED lb
Next == Add \/ Flush
Spec == Init /\ [][Next]_vars
AllOK == ok
PosId(j, l) == j        \* negative control: without the bit reversal the statement must fail
\* the output is written whenever at least one input was present
WrittenIfAny == (PFlushEnabled(st) /\ \E j \in 1..Len(ins) : IsSome(ins[j])) => PFlushDefined(st)
=============================================================================
