------------------------------ MODULE KsFamily ------------------------------
(* The whole key-switching family (C03) as one relation between the decryption phases of the   *)
(* inputs (under the source key) and of the result (under the target key):                      *)
(*      phase_out  =  Image_op(phase_in)   up to  Bound_op(gadget parameters)                   *)
(* Image_op is an exact map of Z[X]/(X^N+1) (identity, X -> X^p and its sums/differences,       *)
(* partial trace, slot packing, coefficient extraction); Bound_op is the worst-case gadget      *)
(* product bound (KeySwitch.tla: KsCore) times the number of gadget products the operation      *)
(* performs, plus one unit per rounding.  The specification computes every phase itself from    *)
(* the raw limbs and the clear secrets; nothing of the library's decryption is used.            *)
EXTENDS KeySwitch, TLC

IsLwe(ct) == "lwe" \in DOMAIN ct
\* LWE: one column of vectors (b, a_1..a_n); phase = b + <a, s>
LwePhase(ct, s) ==
  LET n == ct.n
      RECURSIVE Dot(_, _)
      Dot(j, i) == IF i > n THEN 0 ELSE ct.d[1][j][i + 1] * s[1][i] + Dot(j, i + 1)
      col == [j \in 1..ct.size |-> << ct.d[1][j][1] + Dot(j, 1) >>]
  IN << TorusInt(col, ct.b, 1) % Pow2(ct.size * ct.b) >>
Phases(ct, s) == IF IsLwe(ct) THEN LwePhase(ct, s) ELSE PhaseVec(ct, s)
Bits(ct) == ct.size * ct.b
Resc(v, from, to) == [c \in 1..Len(v) |-> Rescale(v[c], from, to)]

RECURSIVE Log2f(_)
Log2f(x) == IF x <= 1 THEN 0 ELSE 1 + Log2f(x \div 2)
LogN(e) == Log2f(NN(e))
\* ---- trace: steps skip..logN-1, each  p <- (p + sigma_g(p)) / 2  with g = -1, 5, 5^2, 5^4, ...
TraceGal(e, i) == IF i = 0 THEN -1 ELSE PowMod(5, Pow2(i - 1), 2 * NN(e))
TraceSum(e, p, skip) ==       \* 2^steps times the trace (exact integers)
  LET RECURSIVE T(_, _)
      T(q, i) == IF i >= LogN(e) THEN q ELSE T(PAdd(q, Auto(q, TraceGal(e, i))), i + 1)
  IN T(p, skip)
TraceImg(e, p, skip) == LET t == TraceSum(e, p, skip) d == Pow2(LogN(e) - skip) IN [c \in 1..NN(e) |-> t[c] \div d]
TraceDivides(e, p, skip) == LET t == TraceSum(e, p, skip) d == Pow2(LogN(e) - skip) IN \A c \in 1..NN(e) : t[c] % d = 0

Op(e) == e.op
Fam(e) == IF Op(e) \in {"keyswitch", "keyswitch_assign"} THEN "ks"
          ELSE IF Op(e) \in {"gglwe_ks", "gglwe_ks_assign"} THEN "gglwe"
          ELSE IF Op(e) \in {"trace", "trace_assign"} THEN "trace"
          ELSE IF Op(e) = "pack" THEN "pack"
          ELSE IF Op(e) = "packer" THEN "packer"
          ELSE IF Op(e) \in {"lwe_keyswitch", "lwe_from_glwe", "glwe_from_lwe"} THEN "lwe"
          ELSE IF Op(e) = "sample_extract" THEN "extract"
          ELSE IF Op(e) = "lwe_encdec" THEN "lweenc"
          ELSE "auto"
\* representative input (layout only) for the bound
Rep(e) == IF Op(e) = "pack" THEN [e EXCEPT !.a = e.a.cts[1]] ELSE e

\* ---- expected phases at the output precision; Checked = the coefficients the operation defines
Image(e, ob) ==
  IF Fam(e) = "pack" THEN    \* input j (a multiple of 2^gap) lands on coefficient j; every other coefficient is cleared
     LET K == Len(e.a.slots)
         ph == [k \in 1..K |-> Rescale(PhaseVec(e.a.cts[k], e.sk_in)[1], Bits(e.a.cts[k]), ob)]
     IN [c \in 1..NN(e) |-> LET hit == {k \in 1..K : e.a.slots[k] = c - 1} IN
                             IF hit = {} THEN 0 ELSE ph[CHOOSE k \in hit : TRUE]]
  ELSE
  LET pin == Resc(Phases(e.a, e.sk_in), Bits(e.a), ob) IN
  CASE Fam(e) = "ks" -> pin
    [] Fam(e) = "trace" -> TraceImg(e, pin, e.skip)
    [] Op(e) = "lwe_keyswitch" -> pin
    [] Op(e) = "glwe_from_lwe" -> pin
    [] Op(e) = "lwe_from_glwe" -> << pin[e.aidx + 1] >>
    [] Op(e) \in {"auto", "auto_assign"} -> Auto(pin, e.p)
    [] Op(e) \in {"auto_add", "auto_add_assign"} -> PAdd(Auto(pin, e.p), pin)
    [] Op(e) \in {"auto_sub", "auto_sub_assign"} -> PSub(Auto(pin, e.p), pin)
    [] OTHER -> PSub(pin, Auto(pin, e.p))
Checked(e) == IF Op(e) \in {"lwe_keyswitch", "lwe_from_glwe", "glwe_from_lwe"} THEN {1} ELSE 1..NN(e)

\* ---- bounds (units of 2^-ob)
N1(e) == SkNorm1(e.sk_out)
\* one automorphism / key-switch call on a ciphertext laid out like x, result laid out like y
CallBound(e, x, y) == PhaseBound([e EXCEPT !.a = x], y)
TraceBound(e, a, res, skip) ==
  LET ob == OutBits(res)
      kt == Max(Bits(a), OutBits(res))
      sz == DivCeil(kt, e.bkey)
      P == sz * e.bkey
      steps == LogN(e) - skip
      per == KsCore(e, sz, P) + 3 * (1 + N1(e)) + 1
  IN 2 + ConvIn([e EXCEPT !.a = a], ob) + ConvOut(e, res) + (1 + N1(e)) + ToOutUlps(Min(Sat, steps * per), P, ob)
Bound(e, res) ==
  LET ob == OutBits(res) IN
  CASE Fam(e) \in {"ks", "lwe"} -> PhaseBound(e, res)
    [] Fam(e) = "auto" -> PhaseBound(e, res) + 2 + 2 * (1 + N1(e))
    [] Fam(e) = "trace" -> TraceBound(e, e.a, res, e.skip)
    [] Fam(e) = "pack" ->
         LET x == e.a.cts[1]
             nodes == NN(e) * LogN(e)
             per == CallBound(e, x, x) + 6 * (1 + N1(e)) + 2
         IN ToOutUlps(Min(Sat, nodes * per), Bits(x), ob) + TraceBound(e, x, res, LogN(e) - e.gap) + 1
    [] OTHER -> 0
\* ---- the streaming packer (Packer.tla: MC_Packer checks the carry chain against this statement): after the
\* N / 2^log_batch inputs of a round, coefficient BitRev(j) + u * N / 2^log_batch of the output is coefficient
\* u * N / 2^log_batch of input j (zero for an absent input); every other coefficient of the inputs vanishes
RECURSIVE BitRevK(_, _)
BitRevK(j, bits) == IF bits = 0 THEN 0 ELSE (j % 2) * Pow2(bits - 1) + BitRevK(j \div 2, bits - 1)
PackerImage(e, ins, ob) ==
  LET lb == e.log_batch
      stride == NN(e) \div Pow2(lb)
      ph == [k \in 1..Len(ins) |-> IF ins[k].rank < 0 THEN PZero(NN(e)) ELSE Resc(PhaseVec(ins[k], e.sk_in), Bits(ins[k]), ob)]
  IN [c \in 1..NN(e) |->
        LET u == (c - 1) \div stride
            r == (c - 1) % stride
            J == {j \in 0..(Len(ins) - 1) : BitRevK(j, LogN(e) - lb) = r}
        IN IF J = {} THEN 0 ELSE ph[(CHOOSE x \in J : TRUE) + 1][u * stride + 1]]
PackerBound(e, out) ==
  LET x == [b |-> e.bin, size |-> e.sin]
      ob == OutBits(out)
      \* one level maps errors (ea, eb) to (ea + eb + phi(ea - eb)) / 2 + r <= 2 max(ea, eb) + r, r = one automorphism call
      \* plus the roundings of the halvings / normalisations: after LogN levels at most (N - 1) r
      nodes == NN(e) - 1
      per == CallBound(e, x, x) + 6 * (1 + N1(e)) + 2
  IN ToOutUlps(Min(Sat, nodes * per), Bits(x), ob) + 2 * (1 + N1(e)) + 1
PackerOK(e, res) ==
  /\ Len(res.rounds) = Len(e.a.rounds)
  /\ \A ri \in 1..Len(res.rounds) :
       LET out == res.rounds[ri]
           ob == OutBits(out)
           want == PackerImage(e, e.a.rounds[ri], ob)
           pout == PhaseVec(out, e.sk_out)
           B == PackerBound(e, out)
       IN \A c \in 1..NN(e) : CycDist(pout[c], want[c] % Pow2(ob), Pow2(ob)) <= B
Meaningful(e, res) ==
  IF Fam(e) = "packer" THEN PackerBound(e, res.rounds[1]) <= Pow2(OutBits(res.rounds[1])) \div 16 ELSE
  IF Fam(e) = "gglwe" THEN LET c == res.rows[1][1] IN PhaseBound([e EXCEPT !.a = e.a.rows[1][1]], c) <= Pow2(OutBits(c)) \div 16
  ELSE Fam(e) \in {"extract", "lweenc"} \/ Bound(e, res) <= Pow2(OutBits(res)) \div 16

\* ---- sample extraction is structural: body coefficient 0 and the first n mask coefficients, limb by limb
ExtractOK(e, res) ==
  LET m == Min(res.size, e.a.size) IN
  /\ res.b = e.a.b
  /\ \A j \in 1..res.size :
       IF j <= m THEN /\ res.d[1][j][1] = e.a.d[1][j][1]
                      /\ \A i \in 1..res.n : res.d[1][j][i + 1] = e.a.d[2][j][i]
       ELSE \A i \in 1..(res.n + 1) : res.d[1][j][i] = 0

\* ---- C01 for LWE: fresh encryption within the configured bound, decryption = phase rounded to the plaintext's precision
LweEncDecOK(e, res) ==
  LET ct == e.a
      K == Bits(ct)
      M == Pow2(K)
      ph == LwePhase(ct, e.sk_in)[1]
      pt == e.key.pt
      pv == TorusInt(pt.d, pt.b, 1) % Pow2(pt.size * pt.b)
      want == Rescale(pv, pt.size * pt.b, K)
      nb == ((e.bound10 * Pow2(e.koff)) + 9) \div 10
      inexact == IF IsExactRescale(pv, pt.size * pt.b, K) THEN 0 ELSE 1
      dec == res.pt
      DK == dec.size * dec.b
      D == TorusInt(dec.d, dec.b, 1)
  IN /\ Within(ph, want, M, nb, inexact)
     /\ TorusShiftOK(D, CMod(ph, M), DK - K, DK, 1)
\* GGLWE key-switch: the plain key-switch relation on every cell (rows beyond the result's are not produced)
GglweKsOK(e, res) ==
  /\ Len(res.rows) <= Len(e.a.rows)
  /\ \A r \in 1..Len(res.rows) : \A c \in 1..Len(res.rows[r]) : PhaseOK([e EXCEPT !.a = e.a.rows[r][c]], res.rows[r][c])
FamOK(e, res) ==
  IF Fam(e) = "packer" THEN PackerOK(e, res) ELSE
  IF Fam(e) = "gglwe" THEN GglweKsOK(e, res) ELSE
  IF Fam(e) = "lweenc" THEN LweEncDecOK(e, res) ELSE
  IF Fam(e) = "extract" THEN ExtractOK(e, res)
  ELSE LET ob == OutBits(res)
           want == Image(e, ob)
           pout == Phases(res, e.sk_out)
           B == Bound(e, res)
       IN /\ (Fam(e) = "trace" => TraceDivides(e, Resc(Phases(e.a, e.sk_in), Bits(e.a), ob), e.skip))
          /\ \A c \in Checked(e) : CycDist(pout[c], want[c] % Pow2(ob), Pow2(ob)) <= B
\* the exact gadget identity and the key check apply to the plain key-switch (its key rows are logged)
AllOK(e, res) == /\ FamOK(e, res)
                 /\ (Fam(e) = "ks" /\ e.a.b = e.bkey /\ KeyBits(e) <= 16) => ExactOK(e, res)
=============================================================================
