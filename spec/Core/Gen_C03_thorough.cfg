CONSTANTS
  Bs = {2, 3, 4}
  MaxSIn = 4
  MaxSKey = 8
  MaxDsize = 4
  Ranks = {1, 2, 3}
  PCs = {1, 2}
  MaxKeyBits = 24
  NFam = 8
  FamSIn = {4, 5}
  BoundIdx = {1, 3}
INIT Init
NEXT Next
INVARIANT Emit
CHECK_DEADLOCK FALSE
