------------------------------ MODULE CoreTrace ------------------------------
(* Trace specification for scheme-level programs (poulpy-core) over a register file of GLWE *)
(* ciphertexts: C01 (fresh encryption / decryption), C02 (noise-free operations commute      *)
(* exactly with decryption), C10 / C11 / C12 at the scheme level.                            *)
(* State: the register file as written by the program so far, each register with its phase   *)
(* under the program's secret (computed here from the logged limbs).  One action per logged   *)
(* step; a step is accepted iff every observed outcome satisfies the action's post-condition. *)
(* Rejected steps are collected (verdict list) and the replay continues with the observed      *)
(* state, so the rest of the log is still examined.                                           *)
EXTENDS Integers, Sequences, TLC, Json, IOUtils, Glwe, HalNorm, Scratch

Rec == ndJsonDeserialize(IOEnv.TRACE)

VARIABLES i, bad, cfg, regs
vars == <<i, bad, cfg, regs>>
Null == [rank |-> -1]
IsNull(r) == r.rank = -1

Ph(r) == PhaseVec(r, cfg.sk)
N0 == cfg.n

\* ---- C01: fresh encryption. noise bound in units of the ciphertext's last limb: ceil(bound * 2^koff)
NoiseBound(e) == ((cfg.bound10 * Pow2(e.koff)) + 9) \div 10
PkFactor == 1 + N0 + SkNorm1(cfg.sk)
EncOK(e, ct, pt, factor) ==
  LET S == ct.size  b == ct.b  M == Modulus(ct)
      ph == Ph(ct)
      want(x) == Rescale(x, pt.size * pt.b, S * b)
      pv == PtVec(pt)
  IN /\ ct.rank = e.rk /\ ct.size = e.sz /\ ct.b = cfg.b
     /\ \A c \in 1..N0 :
          Within(ph[c], want(pv[c]), M, factor * NoiseBound(e), IF IsExactRescale(pv[c], pt.size * pt.b, S * b) THEN 0 ELSE 1)
EncZeroOK(e, ct) ==
  LET M == Modulus(ct) ph == Ph(ct) IN
  /\ ct.rank = e.rk /\ ct.size = e.sz
  /\ \A c \in 1..N0 : Within(ph[c], 0, M, NoiseBound(e), 0)

\* ---- decryption: the plaintext is the phase rounded into the plaintext's precision (one unit of its last limb)
DecOK(e, a, pt) ==
  LET ph == Ph(a) IN
  /\ pt.b = e.pb /\ pt.size = e.ps
  /\ \A c \in 1..N0 :
       LET A == CMod(ph[c], Modulus(a))
           D == TorusInt(pt.d, pt.b, c)
       IN TorusShiftOK(D, A, pt.size * pt.b - a.size * a.b, pt.size * pt.b, IF pt.b = a.b THEN 1 ELSE 1)

\* ---- C02: linear, noise-free operations act on phases as on plaintexts
\* The linear operations work limb by limb: an operand with more limbs than the result is truncated (its extra limbs
\* are ignored), one with fewer is zero-extended.  So the phase of the result equals the operation applied to the
\* phases of the operands *cut to the result's limb count*, EXACTLY; "one unit of the last limb per truncated operand"
\* is what that cut costs when the operand's digits are normalised.
CutCt(a, S) == [rank |-> a.rank, b |-> a.b, size |-> S,
                d |-> [c \in 1..(a.rank + 1) |-> [j \in 1..S |-> IF j <= a.size THEN a.d[c][j] ELSE PZero(N0)]]]
Resc(a, res) == Ph(CutCt(a, res.size))
Trunc(a, res) == 0
LinOK(res, want, t) == LET ph == Ph(res) M == Modulus(res) IN \A c \in 1..N0 : (ph[c] - want[c]) % M = 0

NegV(v) == [c \in 1..Len(v) |-> -v[c]]
AddV(v, w) == [c \in 1..Len(v) |-> v[c] + w[c]]
SubV(v, w) == [c \in 1..Len(v) |-> v[c] - w[c]]

\* Shifts and re-normalisation round: they are relational.  They act column by column and need no key, so the
\* statement that can hold for EVERY secret is the column-wise one -- each column of the result represents the
\* corresponding column of the operand times 2^off within one unit of the result's last limb (exactly when enough
\* limbs) -- from which the phase relation follows with the key-dependent factor (1 + |s|_1).  Accumulating forms
\* state it about (new column - old column).  Columns the operand lacks count as zero.
ColOf(ct, c) == IF c <= ct.rank + 1 THEN ct.d[c] ELSE [j \in 1..ct.size |-> PZero(N0)]
ShiftOK(res, a, old, off, sign) ==
  LET E == off + res.size * res.b - a.size * a.b
      mb == res.size * res.b
  IN \A col \in 1..(res.rank + 1) : \A c \in 1..N0 :
       LET Dn == TorusInt(ColOf(res, col), res.b, c)
           D0 == IF IsNull(old) THEN 0 ELSE TorusInt(ColOf(old, col), old.b, c)
           A == TorusInt(ColOf(a, col), a.b, c)
       IN TorusShiftOK(sign * (Dn - D0), A, E, mb, 1)

StepOK(e, o) ==
  LET res == o.res
      A == regs[e.a + 1]
      B == regs[e.b + 1]
      R0 == regs[e.r + 1]
  IN CASE e.op = "enc_sk" -> EncOK(e, res, o.pt, 1)
       [] e.op = "enc_c" -> EncOK(e, res, o.pt, 1)
       [] e.op = "enc_pk" -> EncOK(e, res, o.pt, PkFactor)
       [] e.op = "enc_zero_sk" -> EncZeroOK(e, res)
       [] e.op = "dec" -> DecOK(e, A, o.pt)
       [] e.op = "add" -> LinOK(res, AddV(Resc(A, res), Resc(B, res)), Trunc(A, res) + Trunc(B, res))
       [] e.op = "sub" -> LinOK(res, SubV(Resc(A, res), Resc(B, res)), Trunc(A, res) + Trunc(B, res))
       [] e.op = "add_assign" -> LinOK(res, AddV(Resc(R0, res), Resc(A, res)), Trunc(A, res))
       [] e.op = "sub_assign" -> LinOK(res, SubV(Resc(R0, res), Resc(A, res)), Trunc(A, res))
       [] e.op = "sub_negate_assign" -> LinOK(res, SubV(Resc(A, res), Resc(R0, res)), Trunc(A, res))
       [] e.op = "negate" -> LinOK(res, NegV(Resc(A, res)), Trunc(A, res))
       [] e.op = "negate_assign" -> LinOK(res, NegV(Resc(R0, res)), 0)
       [] e.op = "copy" -> LinOK(res, Resc(A, res), Trunc(A, res))
       [] e.op = "rotate" -> LinOK(res, MulXk(Resc(A, res), e.k), Trunc(A, res))
       [] e.op = "rotate_assign" -> LinOK(res, MulXk(Resc(R0, res), e.k), 0)
       [] e.op = "mul_xp_minus_one" -> LinOK(res, MulXkMinusOne(Resc(A, res), e.k), 2 * Trunc(A, res))
       [] e.op = "mul_xp_minus_one_assign" -> LinOK(res, MulXkMinusOne(Resc(R0, res), e.k), 0)
       [] e.op = "lsh" -> ShiftOK(res, A, Null, e.k, 1)
       [] e.op = "lsh_assign" -> ShiftOK(res, R0, Null, e.k, 1)
       [] e.op = "rsh" -> ShiftOK(res, R0, Null, -e.k, 1)
       [] e.op = "lsh_add" -> ShiftOK(res, A, R0, e.k, 1)
       [] e.op = "lsh_sub" -> ShiftOK(res, A, R0, e.k, -1)
       [] e.op = "normalize" -> ShiftOK(res, A, Null, 0, 1) /\ res.b = e.pb
       [] e.op = "normalize_assign" -> ShiftOK(res, R0, Null, 0, 1)

Who(e, o) == {e.outs[o].who[w] : w \in 1..Len(e.outs[o].who)}
SemOK(e) == \A o \in 1..Len(e.outs) : e.outs[o].panic = "" /\ StepOK(e, e.outs[o])
BeOK(e) == \A o1, o2 \in 1..Len(e.outs) : o1 # o2 => \A x \in Who(e, o1), y \in Who(e, o2) : x.f # y.f
FillOK(e) == \A o1, o2 \in 1..Len(e.outs) : o1 # o2 => \A x \in Who(e, o1), y \in Who(e, o2) : x.b # y.b
ScrOK(e) == \A r \in 1..Len(e.scr) : \A c \in 1..Len(e.scr[r].calls) : CallOK(e.scr[r].calls[c])

Verdict(e, k) ==
     (IF SemOK(e) THEN <<>> ELSE << <<k, "sem">> >>)
  \o (IF BeOK(e) THEN <<>> ELSE << <<k, "be">> >>)
  \o (IF FillOK(e) THEN <<>> ELSE << <<k, "fill">> >>)
  \o (IF ScrOK(e) THEN <<>> ELSE << <<k, "scr">> >>)

Init == i = 1 /\ bad = <<>> /\ cfg = [n |-> 0] /\ regs = <<>>
Setup(e) == /\ cfg' = [n |-> e.n, b |-> e.b, rank |-> e.rank, sk |-> e.sk, bound10 |-> e.bound10, sigma10 |-> e.sigma10]
            /\ regs' = [r \in 1..e.nregs |-> Null]
            /\ bad' = IF e.sk_same THEN bad ELSE Append(bad, <<i, "be">>)
\* a step whose every run stopped before it (an earlier panic) is not judged again
Reached(e) == \E o \in 1..Len(e.outs) : e.outs[o].panic # "not reached (an earlier step panicked)"
Step(e) == /\ bad' = IF Reached(e) THEN bad \o Verdict(e, i) ELSE bad
           /\ regs' = IF IsNull(e.outs[1].res) \/ e.op = "dec" THEN regs ELSE [regs EXCEPT ![e.r + 1] = e.outs[1].res]
           /\ UNCHANGED cfg
Next == /\ i <= Len(Rec) /\ i' = i + 1
        /\ IF Rec[i].ev = "setup" THEN Setup(Rec[i]) ELSE Step(Rec[i])
Spec == Init /\ [][Next]_vars
Report == (i = Len(Rec) + 1) => PrintT(<<"VERDICT", Len(Rec), ToJson(bad)>>)
=============================================================================
