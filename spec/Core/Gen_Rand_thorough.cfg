CONSTANTS
  Bs = {2, 3, 4, 6}
  Sizes = {2, 3, 4, 5}
  Ranks = {1, 2, 3}
  StatBs = {2, 3, 4}
  Seeds = {3, 4, 5}
  Reps = 16384
  CbkVariants = {1, 2}
INIT Init
NEXT Next
INVARIANT Emit
CHECK_DEADLOCK FALSE
