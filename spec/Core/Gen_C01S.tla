------------------------------- MODULE Gen_C01S -------------------------------
(* Sampling generator for C01's thorough tier: the full grid of C01Grid has millions of       *)
(* points, so TLC's simulator draws behaviours from it.  The choice is split over four steps  *)
(* (each with a small fan-out) so that a simulated behaviour costs a few dozen successor      *)
(* evaluations; the fifth step prints the program.                                            *)
EXTENDS C01Grid, TLC, Json

VARIABLES st, f
vars == <<st, f>>
Init == st = 0 /\ f = <<>>
S1 == st = 0 /\ st' = 1 /\ \E n \in Ns, b \in Bs, rank \in Ranks : f' = [n |-> n, b |-> b, rank |-> rank]
S2 == st = 1 /\ st' = 2 /\ \E dist \in Dists, noise \in Noises, path \in Paths :
         f' = [n |-> f.n, b |-> f.b, rank |-> f.rank, dist |-> dist, noise |-> noise, path |-> path]
S3 == st = 2 /\ st' = 3 /\ \E sz \in 1..MaxS : \E koff \in {0, 1, f.b - 1}, pl \in PtLayouts(f.b, sz) :
         f' = [n |-> f.n, b |-> f.b, rank |-> f.rank, dist |-> f.dist, noise |-> f.noise, path |-> f.path, sz |-> sz, koff |-> koff, pl |-> pl]
S4 == st = 3 /\ st' = 4 /\ \E pc \in Classes, dl \in (PtLayouts(f.b, f.sz) \cup OtherRadix(f.b, f.sz)) :
         /\ Admissible(f.path, pc)
         /\ f' = Prog(f.n, f.b, f.rank, f.dist, f.noise, f.path, f.sz, f.koff, f.pl[1], f.pl[2], pc, dl[1], dl[2])
Finish == st = 4 /\ st' = 5 /\ UNCHANGED f /\ PrintT(<<"PROG", ToJson(f)>>)
Next == S1 \/ S2 \/ S3 \/ S4 \/ Finish
Spec == Init /\ [][Next]_vars
=============================================================================
