------------------------------ MODULE GgswTrace ------------------------------
(* Validates logged matrix-level behaviours (keys -> encrypt -> operation) against Ggsw.tla:   *)
(* one state per event, rejected events are collected with the kind of the rejection.          *)
EXTENDS Integers, Sequences, TLC, Json, IOUtils, Ggsw, Scratch

Rec == ndJsonDeserialize(IOEnv.TRACE)
VARIABLES i, bad
vars == <<i, bad>>
Who(e, o) == {e.outs[o].who[w] : w \in 1..Len(e.outs[o].who)}
\* a behaviour that panicked before its inputs existed has nothing to evaluate
Ran(e) == Len(e.a.rows) > 0 /\ \A o \in 1..Len(e.outs) : e.outs[o].panic # "" \/ Len(e.outs[o].res.rows) > 0
SemOK(e) == \A o \in 1..Len(e.outs) : e.outs[o].panic = "" /\ GAllOK(e, e.outs[o].res)
VacOK(e) == \A o \in 1..Len(e.outs) : e.outs[o].panic # "" \/ GMeaningful(e, e.outs[o].res)
BeOK(e) == e.inputs_same /\ \A o1, o2 \in 1..Len(e.outs) : o1 # o2 => \A x \in Who(e, o1), y \in Who(e, o2) : x.f # y.f
FillOK(e) == \A o1, o2 \in 1..Len(e.outs) : o1 # o2 => \A x \in Who(e, o1), y \in Who(e, o2) : x.b # y.b
ScrOK(e) == \A r \in 1..Len(e.scr) : \A c \in 1..Len(e.scr[r].calls) : CallOK(e.scr[r].calls[c])
ScrMemOK(e) == \A r \in 1..Len(e.scr) : \A c \in 1..Len(e.scr[r].calls) : CallMemOK(e.scr[r].calls[c])
Verdict(e, k) ==
  IF ~Ran(e) THEN << <<k, "sem">> >> \o (IF ScrOK(e) THEN <<>> ELSE << <<k, "scr">> >>)
  ELSE
     (IF GKeyOK(e) THEN <<>> ELSE << <<k, "key">> >>)
  \o (IF SemOK(e) THEN <<>> ELSE << <<k, "sem">> >>)
  \o (IF VacOK(e) THEN <<>> ELSE << <<k, "vacuous">> >>)
  \o (IF BeOK(e) THEN <<>> ELSE << <<k, "be">> >>)
  \o (IF FillOK(e) THEN <<>> ELSE << <<k, "fill">> >>)
  \o (IF ScrOK(e) THEN <<>> ELSE << <<k, "scr">> >>)
  \o (IF ScrMemOK(e) THEN <<>> ELSE << <<k, "scrmem">> >>)
Init == i = 1 /\ bad = <<>>
Next == /\ i <= Len(Rec) /\ i' = i + 1 /\ bad' = bad \o Verdict(Rec[i], i)
Spec == Init /\ [][Next]_vars
Report == (i = Len(Rec) + 1) => PrintT(<<"VERDICT", Len(Rec), ToJson(bad)>>)
=============================================================================
