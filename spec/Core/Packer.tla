------------------------------- MODULE Packer -------------------------------
(* The streaming ring packer of poulpy-core (GLWEPacker: add* ; flush) as a state machine on     *)
(* plaintext polynomials (C03: ring packing).  LogN - log_batch accumulators hold partial          *)
(* packings; add(Some(m) | None) pushes one input through the carry chain (pack_core / combine),    *)
(* flush returns the last accumulator after N / 2^log_batch adds.                                   *)
(*                                                                                            *)
(* combine at level i (t = N / 2^(i+1), g = -1 for i = 0, else 5^(2^(i-1))):                       *)
(*     both present:   a <- X^t * ( (X^-t a + b)/2 - phi_g( (X^-t a - b)/2 ) )  =  (a + X^t b + phi_g(a - X^t b)) / 2   *)
(*     only a:         a <- a/2 + phi_g(a/2)                                                        *)
(*     only b:         a <- X^t b / 2 - phi_g(X^t b / 2)                                            *)
(* The halving is exact on the coefficients that survive (they come back doubled); plaintexts here  *)
(* are multiples of 2^LogN so that every intermediate value is an integer.                          *)
(*                                                                                            *)
(* USER-LEVEL statement (PackerSpec): after the N / 2^log_batch inputs m_0, m_1, ..., the output has,*)
(* for every j and every u < 2^log_batch, coefficient Pos(j) + u * N / 2^log_batch  equal to          *)
(* coefficient u * N / 2^log_batch of m_j (0 for an absent input); Pos is the bit reversal of j on    *)
(* LogN - log_batch bits.  Every other coefficient of the inputs vanishes.                            *)
EXTENDS Integers, Sequences, Poly

CONSTANT LogN
NP == 2 ^ LogN
Gal(i) == IF i = 0 THEN -1 ELSE PowMod(5, 2 ^ (i - 1), 2 * NP)
Half(p) == [c \in 1..Len(p) |-> p[c] \div 2]
Even(p) == \A c \in 1..Len(p) : p[c] % 2 = 0
Absent == <<>>                                    \* None
IsSome(x) == x # Absent

Acc0 == [data |-> PZero(NP), value |-> FALSE, control |-> FALSE]
PInit(lb) == [acc |-> [l \in 1..(LogN - lb) |-> Acc0], lb |-> lb, counter |-> 0]

\* combine(acc, b, i): returns the accumulator (data, value); exactness of the halvings is reported in `exact`
Combine(acc, b, i) ==
  LET t == 2 ^ (LogN - i - 1)
      g == Gal(i)
      a == acc.data
  IN IF acc.value /\ IsSome(b) THEN
          LET a1 == MulXk(a, -t)
              d == PSub(a1, b)
              s == PAdd(a1, b)
              r == PSub(Half(s), Auto(Half(d), g))
          IN [data |-> MulXk(r, t), value |-> TRUE, exact |-> Even(d) /\ Even(s)]
     ELSE IF acc.value THEN
          LET h == Half(a) IN [data |-> PAdd(h, Auto(h, g)), value |-> TRUE, exact |-> Even(a)]
     ELSE IF IsSome(b) THEN
          LET tb == MulXk(b, t)
              h == Half(tb)
          IN [data |-> PSub(h, Auto(h, g)), value |-> TRUE, exact |-> Even(tb)]
     ELSE [data |-> a, value |-> FALSE, exact |-> TRUE]

\* pack_core(a, accumulators[l..], i): l = position in the accumulator vector (1-based), i = level
RECURSIVE PackCore(_, _, _, _)
PackCore(acc, a, l, i) ==
  IF i = LogN THEN acc
  ELSE IF ~acc[l].control THEN
         [acc EXCEPT ![l] = [data |-> IF IsSome(a) THEN a ELSE acc[l].data, value |-> IsSome(a), control |-> TRUE]]
       ELSE LET c == Combine(acc[l], a, i)
                acc1 == [acc EXCEPT ![l] = [data |-> c.data, value |-> c.value, control |-> FALSE]]
            IN PackCore(acc1, IF c.value THEN c.data ELSE Absent, l + 1, i + 1)
PAddEnabled(st) == st.counter < NP
PAdd1(st, a) == [st EXCEPT !.acc = PackCore(st.acc, a, 1, st.lb), !.counter = st.counter + 2 ^ st.lb]
PFlushEnabled(st) == st.counter = NP
PFlushValue(st) == st.acc[LogN - st.lb].data
PFlushDefined(st) == st.acc[LogN - st.lb].value           \* FALSE: the output was never written in this round
PReset(st) == [st EXCEPT !.acc = [l \in 1..Len(st.acc) |-> [st.acc[l] EXCEPT !.value = FALSE, !.control = FALSE]], !.counter = 0]

\* ---- user level
RECURSIVE BitRev(_, _)
BitRev(j, bits) == IF bits = 0 THEN 0 ELSE (j % 2) * 2 ^ (bits - 1) + BitRev(j \div 2, bits - 1)
Pos(j, lb) == BitRev(j, LogN - lb)
Stride(lb) == NP \div (2 ^ lb)
PackerSpec(ins, lb) ==      \* ins: sequence of N / 2^lb inputs (polynomials or Absent)
  [c \in 1..NP |->
     LET u == (c - 1) \div Stride(lb)
         r == (c - 1) % Stride(lb)
         J == {j \in 0..(Len(ins) - 1) : Pos(j, lb) = r}
     IN IF J = {} THEN 0
        ELSE LET j == CHOOSE x \in J : TRUE IN IF IsSome(ins[j + 1]) THEN ins[j + 1][u * Stride(lb) + 1] ELSE 0]
=============================================================================
