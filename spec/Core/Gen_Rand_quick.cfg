CONSTANTS
  Bs = {3, 4}
  Sizes = {3, 4}
  Ranks = {1, 2}
  StatBs = {3}
  Seeds = {3, 4}
  Reps = 16384
  CbkVariants = {1}
INIT Init
NEXT Next
INVARIANT Emit
CHECK_DEADLOCK FALSE
