------------------------------- MODULE Gen_C04 -------------------------------
(* Behaviour generator for external products (C04): every gadget shape of the bounded scope    *)
(* (input / GGSW / output radix, input limbs not a multiple of dsize, dnum smaller / equal /     *)
(* larger than needed, GGSW precision below / above the GLWE's, ranks, result with fewer / more   *)
(* limbs, in-place forms) x GGSW plaintexts {0, 1, -1, X^k, -X^k, small dense}; the three CMux     *)
(* forms for both selector bits; GGSW x GGSW products with fewer / equal / more result rows.       *)
EXTENDS Integers, Sequences, FiniteSets, TLC, Json

CONSTANTS Bs, MaxSIn, MaxSKey, MaxDsize, Ranks, PCs, MaxKeyBits, MinKeyBits, NX, Quick

Unit(k, s) == [i \in 1..NX |-> IF i = k + 1 THEN s ELSE 0]
Zero == [i \in 1..NX |-> 0]
Dense1 == [i \in 1..NX |-> IF i = 1 THEN 1 ELSE IF i = 3 THEN -1 ELSE IF i = NX THEN 1 ELSE 0]
Dense2 == [i \in 1..NX |-> IF i = 2 THEN -1 ELSE IF i = 5 THEN -1 ELSE 0]
M2s == {Zero, Dense1, Dense2} \cup { Unit(k, s) : k \in 0..(NX - 1), s \in {1, -1} }
M2Lite == {Zero, Unit(0, 1), Unit(0, -1), Unit(3, 1), Unit(NX - 1, -1), Dense1}
M2Out == IF Quick THEN {Unit(3, 1), Dense1} ELSE M2Lite

D(op, m2, bin, bkey, bout, sin, skey, sout, r, dnum, dsize, pc) ==
  [op |-> op, n |-> NX, m2 |-> m2, bin |-> bin, bkey |-> bkey, bout |-> bout, sin |-> sin, skey |-> skey, sout |-> sout,
   rin |-> r, rout |-> r, dnum |-> dnum, dsize |-> dsize, pc |-> pc, sigma10 |-> 10, bound10 |-> 10]
With(s, f) == [x \in DOMAIN s \cup DOMAIN f |-> IF x \in DOMAIN f THEN f[x] ELSE s[x]]

KeyShapes == { <<skey, dnum, dsize>> \in (2..MaxSKey) \X (1..MaxSKey) \X (1..MaxDsize) : skey > dsize /\ dnum * dsize <= skey }
Keys(bkey) == { k \in KeyShapes : k[1] * bkey <= MaxKeyBits /\ k[1] * bkey >= MinKeyBits }

\* ---- one TLC state per descriptor (printed by the invariant Emit): the families are quantified, never built as sets
Bit(b) == Unit(0, b)
LightKeys(bkey) == { k \in Keys(bkey) : k[1] * bkey >= 18 /\ k[3] <= 2 }
GgswKeys(bkey) == { k \in LightKeys(bkey) : k[2] * k[3] >= k[1] - 1 }
VARIABLE c
Init == c = [op |-> "none"]
Next ==
  /\ c.op = "none"
  /\ \/ \E m2 \in M2Out, bin \in Bs, bkey \in Bs, bout \in Bs, sin \in 1..MaxSIn, r \in Ranks, pc \in PCs : \E ks \in Keys(bkey) :
          \E sout \in ({1, ks[1] - 1, ks[1], ks[1] + 1} \cap (1..(MaxSKey + 1))) :
            c' = D("xp", m2, bin, bkey, bout, sin, ks[1], sout, r, ks[2], ks[3], pc)
     \/ \* every GGSW plaintext on a lighter shape set
        \E m2 \in M2s, bin \in Bs, bkey \in Bs, r \in Ranks : \E ks \in LightKeys(bkey) :
            c' = D("xp", m2, bin, bkey, bin, 4, ks[1], 4, r, ks[2], ks[3], 1)
     \/ \E m2 \in M2Out, bin \in Bs, bkey \in Bs, sin \in 1..MaxSIn, r \in Ranks, pc \in PCs : \E ks \in Keys(bkey) :
            c' = D("xp_assign", m2, bin, bkey, bin, sin, ks[1], sin, r, ks[2], ks[3], pc)
     \/ \* output radix a multiple of the GGSW's: the product is accumulated in the GGSW radix while the result counts its limbs in
        \* its own, so a GGSW of many narrow limbs feeds a result of few wide ones (precision must not be lost on the way)
        \E op \in {"xp", "xp_assign"}, m2 \in {Unit(3, 1), Dense1}, bout \in {4, 6}, sout \in 2..3, skey \in {9, 12}, dsize \in 1..2, r \in Ranks, pc \in PCs :
            /\ sout * bout <= 16
            /\ c' = D(op, m2, IF op = "xp" THEN 2 ELSE bout, 2, bout, IF op = "xp" THEN 6 ELSE sout, skey, sout, r, skey \div dsize, dsize, pc)
     \/ \* CMux: the library requires one radix for branches, result and selector
        \E bit \in {0, 1}, b \in Bs, sin \in 1..MaxSIn, ds \in {-1, 0, 1}, r \in Ranks, pc \in PCs : \E ks \in Keys(b) :
            /\ sin + ds >= 1
            /\ c' = D("cmux", Bit(bit), b, b, b, sin, ks[1], sin + ds, r, ks[2], ks[3], pc)
     \/ \E op \in {"cmux_assign", "cmux_assign_neg"}, bit \in {0, 1}, b \in Bs, sin \in 1..MaxSIn, r \in Ranks, pc \in PCs : \E ks \in Keys(b) :
            c' = D(op, Bit(bit), b, b, b, sin, ks[1], sin, r, ks[2], ks[3], pc)
     \/ \* GGSW x GGSW: a has dnum_a rows of digit size 1 in the input radix
        \E m2 \in {Unit(2, 1), Unit(0, -1), Zero}, m1 \in {Unit(1, 1), Dense2}, bin \in Bs, bkey \in Bs, sout \in {5, 6}, r \in Ranks, da \in {2, 4}, dr \in {2, 4, 5} : \E ks \in GgswKeys(bkey) :
            c' = With(D("ggsw_xp", m2, bin, bkey, bin, 5, ks[1], sout, r, ks[2], ks[3], 1), [m1 |-> m1, dnum_a |-> da, dnum_r |-> dr])
     \/ \E m2 \in {Unit(2, 1), Unit(0, -1)}, m1 \in {Unit(1, 1), Dense2}, bin \in Bs, bkey \in Bs, r \in Ranks, da \in {2, 4} : \E ks \in GgswKeys(bkey) :
            c' = With(D("ggsw_xp_assign", m2, bin, bkey, bin, 5, ks[1], 5, r, ks[2], ks[3], 1), [m1 |-> m1, dnum_a |-> da])
Emit == c.op # "none" => PrintT(<<"DESC", ToJson(c)>>)
=============================================================================
