------------------------------ MODULE Gen_Rand ------------------------------
(* Experiment generator for C06 (dependency experiments and statistics per encryptable layout)  *)
(* and C19 (seed-compressed layouts over ranks, input ranks, dnum/dsize grids and seeds).        *)
(* One state per descriptor (printed by the invariant Emit).                                    *)
EXTENDS Integers, Sequences, TLC, Json

CONSTANTS Bs, Sizes, Ranks, StatBs, Seeds, Reps, CbkVariants

GlweLike == {"glwe", "glwe_c", "lwe"}
KeyLike == {"ksk", "atk", "tsk", "tgk", "ggsw", "ggsw_c", "gglwe_c"}
Stat == {"glwe", "glwe_c", "lwe", "ksk", "atk", "tsk", "tgk", "ggsw", "ggsw_c", "gglwe_c", "pk_diff"}
Base(kind, layout, b, size, rank) == [kind |-> kind, layout |-> layout, n |-> 8, b |-> b, size |-> size, rank |-> rank, sigma10 |-> 32, bound10 |-> 192]
With(s, f) == [x \in DOMAIN s \cup DOMAIN f |-> IF x \in DOMAIN f THEN f[x] ELSE s[x]]
\* coefficients per object, to size the number of repetitions (>= 2^14 coefficients per layout)
Coefs(layout, rank, rin, dnum) == CASE layout = "lwe" -> 1 [] layout \in {"glwe", "glwe_c"} -> 8 [] layout = "pk_diff" -> 8 * (rank + 1) [] layout \in {"ksk", "atk"} -> 8 * dnum * rank
                                   [] layout = "tsk" -> 8 * dnum * ((rank * (rank + 1)) \div 2) [] layout = "tgk" -> 8 * dnum * rank * rank
                                   [] layout = "gglwe_c" -> 8 * dnum * rin [] OTHER -> 8 * dnum * (rank + 1)
RepsFor(layout, rank, rin, dnum) == (Reps + Coefs(layout, rank, rin, dnum) - 1) \div Coefs(layout, rank, rin, dnum)

VARIABLE c
Init == c = [kind |-> "none"]
Next == /\ c.kind = "none"
        /\ \/ \E l \in GlweLike, b \in Bs, s \in Sizes, r \in Ranks, ko \in {0, 1} :
                /\ s * b <= 24 /\ (l = "lwe" => r = 1)
                /\ c' = With(Base("dep", l, b, s, r), [koff |-> ko, nlwe |-> 5])
           \/ \E l \in KeyLike, b \in Bs, s \in Sizes, r \in Ranks, dn \in 1..3, ds \in 1..2, ri \in 1..3 :
                /\ s * b <= 24 /\ s > ds /\ dn * ds <= s /\ (l # "gglwe_c" => ri = 1)
                /\ c' = With(Base("dep", l, b, s, r), [dnum |-> dn, dsize |-> ds, rin |-> ri])
           \/ \E l \in Stat, b \in StatBs, r \in {1, 2}, be \in 0..3 :
                LET s == IF l \in GlweLike THEN 3 ELSE 4
                    dn == 2
                    ri == IF l = "gglwe_c" THEN 2 ELSE 1
                IN /\ (l = "lwe" => r = 1)
                   /\ c' = With(Base("stat", l, b, s, r), [dnum |-> dn, dsize |-> 1, rin |-> ri, nlwe |-> 6, koff |-> 0, be |-> be, reps |-> RepsFor(l, r, ri, dn)])
           \* key bundles: the circuit-bootstrapping key built by its bundle routine, with a different radix / precision (hence noise
           \* level) for each sub-key; one experiment per (sub-key, back-end, shape variant); 3 Galois elements at N = 8, 4 LWE coefficients
           \/ \E part \in {"brk", "atk", "tsk"}, be \in 0..3, v \in CbkVariants :
                LET shapes == IF v = 1 THEN [brk |-> <<3, 4, 2, 1>>, atk |-> <<3, 5, 2, 1>>, tsk |-> <<4, 4, 2, 1>>]
                                       ELSE [brk |-> <<4, 3, 3, 1>>, atk |-> <<4, 4, 2, 2>>, tsk |-> <<3, 5, 2, 2>>]
                    coefs == CASE part = "brk" -> 4 * 8 * shapes.brk[3] * 3 [] part = "atk" -> 3 * 8 * shapes.atk[3] * 2 [] OTHER -> 8 * shapes.tsk[3] * 4
                IN c' = With(Base("stat", "cbk", shapes[part][1], shapes[part][2], 2), [part |-> part, variant |-> v, be |-> be, nlwe |-> 4, brk |-> shapes.brk, atk |-> shapes.atk,
                                                                                         tsk |-> shapes.tsk, reps |-> (Reps + coefs - 1) \div coefs])
           \* dependency structure of the bundle: mask words of all three sub-keys = f(mask seed); bodies depend on both secrets and both seeds
           \/ \E v \in CbkVariants, r \in {1, 2} :
                LET shapes == IF v = 1 THEN [brk |-> <<3, 4, 2, 1>>, atk |-> <<3, 5, 2, 1>>, tsk |-> <<4, 4, 2, 1>>]
                                       ELSE [brk |-> <<4, 3, 3, 1>>, atk |-> <<4, 4, 2, 2>>, tsk |-> <<3, 5, 2, 2>>]
                IN c' = With(Base("dep", "cbk", 3, 4, r), [variant |-> v, nlwe |-> 4, brk |-> shapes.brk, atk |-> shapes.atk, tsk |-> shapes.tsk])
           \/ \E l \in {"glwe_c", "gglwe_c", "ggsw_c"}, b \in Bs, s \in Sizes, r \in Ranks, dn \in 1..3, ds \in 1..2, ri \in 1..3, xa \in Seeds, xe \in Seeds, ko \in {0, 1}, sm \in {0, 1} :
                /\ s * b <= 24 /\ (l # "glwe_c" => (s > ds /\ dn * ds <= s /\ ko = 0)) /\ (l = "glwe_c" => (dn = 1 /\ ds = 1 /\ sm = 0))
                /\ (l # "gglwe_c" => ri = 1)
                \* scalar plaintexts: ternary, or coefficients spanning more than one digit (they spill into the limbs above their own)
                /\ c' = With(Base("c19", l, b, s, r), [dnum |-> dn, dsize |-> ds, rin |-> ri, xa |-> xa, xe |-> xe, koff |-> ko, smag |-> IF sm = 0 THEN 1 ELSE 2 ^ (b + 1) + 1])
           \* compressed key wrappers (switching, automorphism, tensor, GGLWE-to-GGSW): ranks up to 3 (the packed triangle of s_i s_j)
           \/ \E l \in {"ksk_c", "atk_c", "tsk_c", "tgk_c"}, b \in Bs, s \in Sizes, r \in 1..3, dn \in 1..3, ds \in 1..2, xa \in Seeds, xe \in Seeds, pid \in 0..3 :
                /\ s * b <= 24 /\ s > ds /\ dn * ds <= s /\ (l # "atk_c" => pid = 0)
                /\ c' = With(Base("c19", l, b, s, r), [dnum |-> dn, dsize |-> ds, rin |-> 1, xa |-> xa, xe |-> xe, koff |-> 0, pid |-> pid])
           \* compressed blind-rotation keys (one compressed GGSW per LWE coefficient, one branch seed each)
           \/ \E b \in Bs, s \in Sizes, r \in Ranks, dn \in 1..3, nl \in {1, 2, 4}, xa \in Seeds, xe \in Seeds :
                /\ s * b <= 24 /\ s > 1 /\ dn <= s
                /\ c' = With(Base("c19", "brk_c", b, s, r), [dnum |-> dn, dsize |-> 1, rin |-> 1, nlwe |-> nl, xa |-> xa, xe |-> xe, koff |-> 0])
Emit == c.kind # "none" => PrintT(<<"DESC", ToJson(c)>>)
=============================================================================
