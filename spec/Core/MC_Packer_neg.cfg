CONSTANTS
  Pos <- PosId
  LogN = 3
SPECIFICATION Spec
INVARIANT AllOK
INVARIANT WrittenIfAny
CHECK_DEADLOCK FALSE
