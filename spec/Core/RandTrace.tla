------------------------------ MODULE RandTrace ------------------------------
(* Validates the randomness / compression log against Rand.tla.  "stat" events are accumulated *)
(* (count, sum, sum of squares, max, mask histogram) and judged at the end of the trace.        *)
EXTENDS Integers, Sequences, TLC, Json, IOUtils, Rand

Rec == ndJsonDeserialize(IOEnv.TRACE)
VARIABLES i, bad, acc
vars == <<i, bad, acc>>
Zero == [n |-> 0, s1 |-> 0, s2 |-> 0, mx |-> 0, nm |-> 0, h |-> <<>>, b |-> 0, sig2 |-> 0, bound10 |-> 0, inrange |-> TRUE]
AddStat(a, e) ==
  IF e.panic # "" THEN a ELSE
  LET errs == Flat(e)
      md == IF e.layout = "pk_diff" THEN <<>> ELSE MaskDigits(e)
      hh == Hist(md, e.b)
      h0 == IF a.n = 0 THEN [v \in DOMAIN hh |-> 0] ELSE a.h
  IN [n |-> a.n + Len(errs), s1 |-> a.s1 + SumInts(errs), s2 |-> a.s2 + SumSq(errs),
      mx |-> IF MaxSeq(errs) > a.mx THEN MaxSeq(errs) ELSE a.mx, nm |-> a.nm + Len(md), h |-> [v \in DOMAIN hh |-> h0[v] + hh[v]],
      b |-> e.b, sig2 |-> (IF e.layout = "pk_diff" THEN 2 ELSE 1) * e.sigma10 * e.sigma10, bound10 |-> (IF e.layout = "pk_diff" THEN 2 ELSE 1) * e.bound10, inrange |-> a.inrange /\ InRange(md, e.b)]
Judge(a) ==
  IF a.n = 0 THEN <<>> ELSE
     (IF VarOK(a.n, a.s2, a.sig2) THEN <<>> ELSE << <<0, "var">> >>)
  \o (IF MeanOK(a.n, a.s1, a.sig2) THEN <<>> ELSE << <<0, "mean">> >>)
  \o (IF a.mx * 10 <= a.bound10 + 20 THEN <<>> ELSE << <<0, "max">> >>)
  \o (IF a.nm = 0 \/ (a.inrange /\ ChiOK(a.h, a.nm, Pow2(a.b))) THEN <<>> ELSE << <<0, "uniform">> >>)
  \o (IF a.nm = 0 \/ (a.h[-Pow2(a.b - 1)] > 0 /\ a.h[Pow2(a.b - 1) - 1] > 0) THEN <<>> ELSE << <<0, "range">> >>)
Verdict(e, k) ==
  CASE e.ev = "dep" -> (IF DepOK(e) THEN <<>> ELSE << <<k, "dep">> >>) \o (IF DepBeOK(e) THEN <<>> ELSE << <<k, "be">> >>)
    [] e.ev = "c19" -> (IF \A o \in 1..Len(e.outs) : C19OK(e, e.outs[o].rec) THEN <<>> ELSE << <<k, "c19">> >>)
                       \o (IF Len(e.outs) = 1 THEN <<>> ELSE << <<k, "be">> >>)
    [] OTHER -> IF e.panic = "" THEN <<>> ELSE << <<k, "panic">> >>
Init == i = 1 /\ bad = <<>> /\ acc = Zero
Next == /\ i <= Len(Rec) /\ i' = i + 1
        /\ bad' = bad \o Verdict(Rec[i], i)
        /\ acc' = IF Rec[i].ev = "stat" THEN AddStat(acc, Rec[i]) ELSE acc
Spec == Init /\ [][Next]_vars
Report == (i = Len(Rec) + 1) => PrintT(<<"VERDICT", Len(Rec), ToJson(bad \o Judge(acc)), ToJson([n |-> acc.n, s1 |-> acc.s1, s2 |-> acc.s2, mx |-> acc.mx, nm |-> acc.nm])>>)
=============================================================================
