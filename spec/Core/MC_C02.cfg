CONSTANTS
  N = 2
  B = 2
  S = 2
  KMax = 4
  Full = TRUE
INIT Init
NEXT Next
CHECK_DEADLOCK FALSE
INVARIANTS AddCommutes SubCommutes NegCommutes RotCommutes XpM1Commutes CutLemma
