CONSTANTS
  DeepNs = {64}
  Ns = {8, 16}
  Bs = {2, 3, 4, 5, 6}
  MaxS = 3
  Ranks = {1, 2, 3}
  Dists = {"ternary_prob", "ternary_hw", "binary_prob", "binary_hw", "binary_block", "zero"}
  Classes = {0, 1, 2, 3, 4}
  NoiseIdx = {1, 2, 3, 4}
  Paths = {"enc_sk", "enc_zero_sk", "enc_pk", "enc_c"}
INIT Init
NEXT Next
CHECK_DEADLOCK FALSE
