CONSTANTS
  Bs = {3, 4}
  MaxSIn = 4
  MaxSKey = 6
  MaxDsize = 3
  Ranks = {1, 2}
  PCs = {1, 2}
  MaxKeyBits = 24
  MinKeyBits = 12
  NX = 8
  Quick = FALSE
INIT Init
NEXT Next
INVARIANT Emit
CHECK_DEADLOCK FALSE
