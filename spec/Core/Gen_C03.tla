------------------------------- MODULE Gen_C03 -------------------------------
(* Behaviour generator for the key-switching family (C03): every gadget shape the API admits  *)
(* in the bounded scope -- input / key / output radices (three-way mismatch included), input   *)
(* limb count not a multiple of dsize, dnum smaller / equal / larger than needed, key          *)
(* precision, ranks in/out, result with fewer / more limbs, in-place form -- for the plain      *)
(* key-switch; and for the rest of the family (automorphisms and their add/sub variants, trace, *)
(* packing, LWE key-switch and conversions, sample extraction) every operation parameter        *)
(* (every Galois element of (Z/2NZ)* in both signs, every trace start level, every admitted     *)
(* slot subset and output gap, every extraction index) crossed with a lighter shape set.        *)
(* Enabling conditions = the library's own assertions (size_key > dsize, dnum*dsize <= size_key,*)
(* in-place needs equal ranks) and the integer range of the validating model (<= 24 bits).      *)
EXTENDS Integers, Sequences, FiniteSets, TLC, Json, IOUtils, SequencesExt

CONSTANTS Bs, MaxSIn, MaxSKey, MaxDsize, Ranks, PCs, BoundIdx, MaxKeyBits, NFam, FamSIn

NoiseTable == << <<10, 10>>, <<10, 20>>, <<32, 192>> >>
D(op, bin, bkey, bout, sin, skey, sout, rin, rout, dnum, dsize, pc, nz) ==
  [op |-> op, n |-> 8, bin |-> bin, bkey |-> bkey, bout |-> bout, sin |-> sin, skey |-> skey, sout |-> sout,
   rin |-> rin, rout |-> rout, dnum |-> dnum, dsize |-> dsize, pc |-> pc, sigma10 |-> NoiseTable[nz][1], bound10 |-> NoiseTable[nz][2]]

KeyShapes == { <<skey, dnum, dsize>> \in (2..MaxSKey) \X (1..MaxSKey) \X (1..MaxDsize) : skey > dsize /\ dnum * dsize <= skey }

Out == UNION { UNION { { D("keyswitch", bin, bkey, bout, sin, ks[1], sout, rin, rout, ks[2], ks[3], pc, nz) :
                           bin \in Bs, bout \in Bs, sin \in 1..MaxSIn, sout \in ({ks[1] - 1, ks[1], ks[1] + 1} \cap (1..(MaxSKey + 1))),
                           rin \in Ranks, rout \in Ranks, pc \in PCs, nz \in BoundIdx }
                       : ks \in {k \in KeyShapes : k[1] * bkey <= MaxKeyBits} }
               : bkey \in Bs }
\* in place: the result is the input itself (same radix, size, rank)
InPlace == UNION { { D("keyswitch_assign", bin, bkey, bin, sin, ks[1], sin, r, r, ks[2], ks[3], pc, nz) :
                       bin \in Bs, sin \in 1..MaxSIn, r \in Ranks, ks \in {k \in KeyShapes : k[1] * bkey <= MaxKeyBits}, pc \in PCs, nz \in BoundIdx }
                   : bkey \in Bs }

\* ---- the rest of the family on a lighter shape set: keys of 18..24 bits, inputs of FamSIn limbs
FamKeys(bkey) == { k \in KeyShapes : k[1] * bkey >= 18 /\ k[1] * bkey <= MaxKeyBits /\ (k[2] * k[3] = k[1] \/ k[2] * k[3] = k[1] - 2) }
Shape(bin, bkey, bout, sin, sout, r, ks) == D("", bin, bkey, bout, sin, ks[1], sout, r, r, ks[2], ks[3], 1, 1)
Shapes == UNION { UNION { { Shape(bin, bkey, bout, sin, sin + ds, r, ks) : bin \in Bs, bout \in Bs, ds \in {0, 1}, r \in Ranks, ks \in FamKeys(bkey) } : bkey \in Bs } : sin \in FamSIn }
SameShapes == { s \in Shapes : s.bin = s.bout /\ s.sin = s.sout }          \* in-place forms
With(s, f) == [x \in DOMAIN s \cup DOMAIN f |-> IF x \in DOMAIN f THEN f[x] ELSE s[x]]
Galois == { p \in (1 - 2 * NFam)..(2 * NFam - 1) : p % 2 = 1 }
Log2N == CHOOSE l \in 0..12 : 2 ^ l = NFam
AutoOut == { With(s, [op |-> o, p |-> p, n |-> NFam]) : s \in Shapes, o \in {"auto", "auto_add", "auto_sub", "auto_sub_negate"}, p \in Galois }
AutoIn == { With(s, [op |-> o, p |-> p, n |-> NFam]) : s \in SameShapes, o \in {"auto_assign", "auto_add_assign", "auto_sub_assign", "auto_sub_negate_assign"}, p \in Galois }
TraceOut == { With(s, [op |-> "trace", skip |-> k, n |-> NFam]) : s \in Shapes, k \in 0..Log2N }
TraceIn == { With(s, [op |-> "trace_assign", skip |-> k, n |-> NFam]) : s \in SameShapes, k \in 0..Log2N }
\* packing: any non-empty set of inputs at multiples of 2^gap (other indices are not admitted: they would be dropped)
Mult(g) == { j \in 0..(NFam - 1) : j % (2 ^ g) = 0 }
PackShapes == UNION { { Shape(bin, bkey, bout, 5, 5, 1, ks) : bin \in Bs, bout \in Bs, ks \in FamKeys(bkey) } : bkey \in Bs }
Pack == UNION { { With(s, [op |-> "pack", gap |-> g, slots |-> SetToSeq(S), n |-> NFam]) : s \in PackShapes, S \in (SUBSET Mult(g)) \ {{}} } : g \in 0..Log2N }
\* streaming packer: every log_batch, presence patterns (all / none / alternating / first half / one / all but one), a second
\* round on the same packer (stale accumulators must not leak, also when the second round has no input at all)
Pat(kind, cnt) == [j \in 1..cnt |-> CASE kind = "all" -> 1 [] kind = "none" -> 0 [] kind = "alt" -> (j % 2) [] kind = "half" -> (IF 2 * j <= cnt THEN 1 ELSE 0)
                                       [] kind = "one" -> (IF j = cnt THEN 1 ELSE 0) [] OTHER -> (IF j = 2 THEN 0 ELSE 1)]
Packer == UNION { { With(s, [op |-> "packer", log_batch |-> lb, rounds |-> << Pat(k1, NFam \div (2 ^ lb)), Pat(k2, NFam \div (2 ^ lb)) >>, n |-> NFam]) :
                      s \in PackShapes, k1 \in {"all", "alt", "half", "one", "butone"}, k2 \in {"all", "none", "alt"} } : lb \in 0..(Log2N - 1) }
LweDims == {1, 3, NFam}
Rank1 == { s \in Shapes : s.rin = 1 }
LweKs == { With(s, [op |-> "lwe_keyswitch", nlwe |-> a, nlwe2 |-> b, n |-> NFam]) : s \in {x \in Rank1 : x.dsize = 1}, a \in LweDims, b \in LweDims }
FromGlwe == { With(s, [op |-> "lwe_from_glwe", nlwe |-> a, aidx |-> i, rout |-> 1, n |-> NFam]) : s \in {x \in Shapes : x.dsize = 1}, a \in LweDims, i \in 0..(NFam - 1) }
FromLwe == { With(s, [op |-> "glwe_from_lwe", nlwe |-> a, n |-> NFam]) : s \in {x \in Shapes : x.dsize = 1}, a \in LweDims }
Extract == { With(s, [op |-> "sample_extract", nlwe |-> a, n |-> NFam]) : s \in {x \in Rank1 : x.bkey = x.bin /\ x.bout = x.bin}, a \in 1..NFam }

\* GGLWE key-switch: a GGLWE of dnum_a rows (digit size 1, ra input columns) under the source key
GglweKs == { With(s, [op |-> "gglwe_ks", rout |-> ro, ra |-> ra, dnum_a |-> da, dnum_r |-> dr, n |-> NFam]) :
               s \in {x \in Shapes : x.bin = x.bout}, ro \in Ranks, ra \in {1, 2}, da \in {2, 3}, dr \in {1, 2, 3} }
GglweKsOK == { d \in GglweKs : d.dnum_r <= d.dnum_a }
GglweKsIn == { With(s, [op |-> "gglwe_ks_assign", ra |-> ra, dnum_a |-> da, dnum_r |-> da, n |-> NFam]) : s \in SameShapes, ra \in {1, 2}, da \in {2, 3} }
Descs == Packer \cup GglweKsOK \cup GglweKsIn \cup Out \cup InPlace \cup AutoOut \cup AutoIn \cup TraceOut \cup TraceIn \cup Pack \cup LweKs \cup FromGlwe \cup FromLwe \cup Extract

ASSUME ndJsonSerialize(IOEnv.OUT, SetToSeq(Descs))
ASSUME PrintT(<<"GENERATED", Cardinality(Descs)>>)
VARIABLE c
Init == c = 0
Next == UNCHANGED c
=============================================================================
