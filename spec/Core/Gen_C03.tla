------------------------------- MODULE Gen_C03 -------------------------------
(* Behaviour generator for the key-switching family (C03): every gadget shape the API admits  *)
(* in the bounded scope -- input / key / output radices (three-way mismatch included), input   *)
(* limb count not a multiple of dsize, dnum smaller / equal / larger than needed, key          *)
(* precision, ranks in/out, result with fewer / more limbs, in-place form -- for the plain      *)
(* key-switch; and for the rest of the family (automorphisms and their add/sub variants, trace, *)
(* packing, LWE key-switch and conversions, sample extraction) every operation parameter        *)
(* (every Galois element of (Z/2NZ)* in both signs, every trace start level, every admitted     *)
(* slot subset and output gap, every extraction index) crossed with a lighter shape set.        *)
(* Enabling conditions = the library's own assertions (size_key > dsize, dnum*dsize <= size_key,*)
(* in-place needs equal ranks) and the integer range of the validating model (<= 24 bits).      *)
EXTENDS Integers, Sequences, FiniteSets, TLC, Json

CONSTANTS Bs, MaxSIn, MaxSKey, MaxDsize, Ranks, PCs, BoundIdx, MaxKeyBits, NFam, FamSIn

NoiseTable == << <<10, 10>>, <<10, 20>>, <<32, 192>> >>
D(op, bin, bkey, bout, sin, skey, sout, rin, rout, dnum, dsize, pc, nz) ==
  [op |-> op, n |-> 8, bin |-> bin, bkey |-> bkey, bout |-> bout, sin |-> sin, skey |-> skey, sout |-> sout,
   rin |-> rin, rout |-> rout, dnum |-> dnum, dsize |-> dsize, pc |-> pc, sigma10 |-> NoiseTable[nz][1], bound10 |-> NoiseTable[nz][2]]

KeyShapes == { <<skey, dnum, dsize>> \in (2..MaxSKey) \X (1..MaxSKey) \X (1..MaxDsize) : skey > dsize /\ dnum * dsize <= skey }

\* ---- one TLC state per descriptor (printed by the invariant Emit): the families are quantified, never built as sets
\* (TLC's set-of-records construction is quadratic)
FamKeys(bkey) == { k \in KeyShapes : k[1] * bkey >= 18 /\ k[1] * bkey <= MaxKeyBits /\ (k[2] * k[3] = k[1] \/ k[2] * k[3] = k[1] - 2) }
KsKeys(bkey) == { k \in KeyShapes : k[1] * bkey <= MaxKeyBits }
Shape(bin, bkey, bout, sin, sout, r, ks) == D("", bin, bkey, bout, sin, ks[1], sout, r, r, ks[2], ks[3], 1, 1)
With(s, f) == [x \in DOMAIN s \cup DOMAIN f |-> IF x \in DOMAIN f THEN f[x] ELSE s[x]]
Galois == { p \in (1 - 2 * NFam)..(2 * NFam - 1) : p % 2 = 1 }
Log2N == CHOOSE l \in 0..12 : 2 ^ l = NFam
Mult(g) == { j \in 0..(NFam - 1) : j % (2 ^ g) = 0 }
LweDims == {1, 3, NFam}
Pat(kind, cnt) == [j \in 1..cnt |-> CASE kind = "all" -> 1 [] kind = "none" -> 0 [] kind = "alt" -> (j % 2) [] kind = "half" -> (IF 2 * j <= cnt THEN 1 ELSE 0)
                                       [] kind = "one" -> (IF j = cnt THEN 1 ELSE 0) [] OTHER -> (IF j = 2 THEN 0 ELSE 1)]
RECURSIVE SetSeq(_)
SetSeq(S) == IF S = {} THEN <<>> ELSE LET x == CHOOSE y \in S : \A z \in S : y <= z IN <<x>> \o SetSeq(S \ {x})

VARIABLE c
Init == c = [op |-> "none"]
\* (the shape is chosen first, the operation parameters are then added to it)
ShapeSet(same) == { sh \in [bin : Bs, bkey : Bs, bout : Bs, sin : FamSIn, ds : {0, 1}, r : Ranks] : same => (sh.bin = sh.bout /\ sh.ds = 0) }
ShapeOf(sh, ks) == Shape(sh.bin, sh.bkey, sh.bout, sh.sin, sh.sin + sh.ds, sh.r, ks)
Next ==
  /\ c.op = "none"
  /\ \/ \* plain key-switch: every gadget shape
        \E bin \in Bs, bkey \in Bs, bout \in Bs, sin \in 1..MaxSIn, rin \in Ranks, rout \in Ranks, pc \in PCs, nz \in BoundIdx : \E ks \in KsKeys(bkey) :
          \E sout \in ({ks[1] - 1, ks[1], ks[1] + 1} \cap (1..(MaxSKey + 1))) :
            /\ sout * bout <= 28 /\ sin * bin <= 28            \* native-integer phase arithmetic of the validating model
            /\ c' = D("keyswitch", bin, bkey, bout, sin, ks[1], sout, rin, rout, ks[2], ks[3], pc, nz)
     \/ \E bin \in Bs, bkey \in Bs, sin \in 1..MaxSIn, r \in Ranks, pc \in PCs, nz \in BoundIdx : \E ks \in KsKeys(bkey) :
            c' = D("keyswitch_assign", bin, bkey, bin, sin, ks[1], sin, r, r, ks[2], ks[3], pc, nz)
     \/ \* automorphisms and their add / sub variants: every Galois element in both signs
        \E sh \in ShapeSet(FALSE), o \in {"auto", "auto_add", "auto_sub", "auto_sub_negate"}, p \in Galois : \E ks \in FamKeys(sh.bkey) :
            c' = With(ShapeOf(sh, ks), [op |-> o, p |-> p, n |-> NFam])
     \/ \E sh \in ShapeSet(TRUE), o \in {"auto_assign", "auto_add_assign", "auto_sub_assign", "auto_sub_negate_assign"}, p \in Galois : \E ks \in FamKeys(sh.bkey) :
            c' = With(ShapeOf(sh, ks), [op |-> o, p |-> p, n |-> NFam])
     \/ \E sh \in ShapeSet(FALSE), k \in 0..Log2N : \E ks \in FamKeys(sh.bkey) : c' = With(ShapeOf(sh, ks), [op |-> "trace", skip |-> k, n |-> NFam])
     \/ \E sh \in ShapeSet(TRUE), k \in 0..Log2N : \E ks \in FamKeys(sh.bkey) : c' = With(ShapeOf(sh, ks), [op |-> "trace_assign", skip |-> k, n |-> NFam])
     \/ \* packing: any non-empty set of inputs at multiples of 2^gap; 5-limb inputs, rank 1
        \E bin \in Bs, bkey \in Bs, bout \in Bs, g \in 0..Log2N : \E ks \in FamKeys(bkey) : \E S \in (SUBSET Mult(g)) \ {{}} :
            c' = With(Shape(bin, bkey, bout, 5, 5, 1, ks), [op |-> "pack", gap |-> g, slots |-> SetSeq(S), n |-> NFam])
     \/ \* streaming packer: every log_batch, presence patterns, a second round on the same packer
        \E bin \in Bs, bkey \in Bs, bout \in Bs, lb \in 0..(Log2N - 1), k1 \in {"all", "alt", "half", "one", "butone"}, k2 \in {"all", "none", "alt"} : \E ks \in FamKeys(bkey) :
            c' = With(Shape(bin, bkey, bout, 5, 5, 1, ks), [op |-> "packer", log_batch |-> lb, rounds |-> << Pat(k1, NFam \div (2 ^ lb)), Pat(k2, NFam \div (2 ^ lb)) >>, n |-> NFam])
     \/ \* LWE key-switch and conversions, sample extraction
        \E sh \in ShapeSet(FALSE), a \in LweDims, b \in LweDims : \E ks \in FamKeys(sh.bkey) :
            /\ sh.r = 1 /\ ks[3] = 1
            /\ c' = With(ShapeOf(sh, ks), [op |-> "lwe_keyswitch", nlwe |-> a, nlwe2 |-> b, n |-> NFam])
     \/ \E sh \in ShapeSet(FALSE), a \in LweDims, i \in 0..(NFam - 1) : \E ks \in FamKeys(sh.bkey) :
            /\ ks[3] = 1
            /\ c' = With(ShapeOf(sh, ks), [op |-> "lwe_from_glwe", nlwe |-> a, aidx |-> i, rout |-> 1, n |-> NFam])
     \/ \E sh \in ShapeSet(FALSE), a \in LweDims : \E ks \in FamKeys(sh.bkey) :
            /\ ks[3] = 1
            /\ c' = With(ShapeOf(sh, ks), [op |-> "glwe_from_lwe", nlwe |-> a, n |-> NFam])
     \/ \E sh \in ShapeSet(FALSE), a \in 1..NFam : \E ks \in FamKeys(sh.bkey) :
            /\ sh.r = 1 /\ sh.bkey = sh.bin /\ sh.bout = sh.bin
            /\ c' = With(ShapeOf(sh, ks), [op |-> "sample_extract", nlwe |-> a, n |-> NFam])
     \/ \* GGLWE key-switch: a GGLWE of dnum_a rows (digit size 1, ra input columns) under the source key
        \E sh \in ShapeSet(FALSE), ro \in Ranks, ra \in {1, 2}, da \in {2, 3}, dr \in {1, 2, 3} : \E ks \in FamKeys(sh.bkey) :
            /\ sh.bin = sh.bout /\ dr <= da
            /\ c' = With(ShapeOf(sh, ks), [op |-> "gglwe_ks", rout |-> ro, ra |-> ra, dnum_a |-> da, dnum_r |-> dr, n |-> NFam])
     \/ \E sh \in ShapeSet(TRUE), ra \in {1, 2}, da \in {2, 3} : \E ks \in FamKeys(sh.bkey) :
            c' = With(ShapeOf(sh, ks), [op |-> "gglwe_ks_assign", ra |-> ra, dnum_a |-> da, dnum_r |-> da, n |-> NFam])
Emit == c.op # "none" => PrintT(<<"DESC", ToJson(c)>>)
=============================================================================
