CONSTANTS
  Bs = {3, 4}
  Ranks = {1, 2, 3}
  NG = 8
  MaxBits = 24
  MinKeyBits = 18
  SIns = {4, 5}
  Quick = TRUE
  Fams = {"gks","gauto","atk","grot"}
INIT Init
NEXT Next
INVARIANT Emit
CHECK_DEADLOCK FALSE
