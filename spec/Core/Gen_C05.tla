------------------------------- MODULE Gen_C05 -------------------------------
(* Behaviour generator for ciphertext multiplication (C05): constant, plaintext and tensor       *)
(* products over operand sizes, unequal effective precisions (masked last limb), every bit        *)
(* offset from 0 to the full product width, results with fewer / more limbs and in another        *)
(* radix, in-place and accumulate forms, ranks 1..2; relinearisation over tensor / key / output   *)
(* radices and gadget shapes.  Scope bound: KA + KB <= MaxProdBits so that the exact products     *)
(* are native TLC integers.                                                                      *)
EXTENDS Integers, Sequences, FiniteSets, TLC, Json, IOUtils, SequencesExt

CONSTANTS Bs, SA, SB, Ranks, PCs, MaxProdBits, MaxTensorBits, MaxSKey, MaxDsize

D(op, r, ab, rb, sa, sb, sr, off, ak, bk, pc) ==
  [op |-> op, n |-> 8, rank |-> r, ab |-> ab, rb |-> rb, sa |-> sa, sb |-> sb, sr |-> sr, off |-> off, ak |-> ak, bk |-> bk, pc |-> pc]
\* effective precisions whose limb count is the operand's size: full, one bit less, only one bit of the last limb
EffK(s, b, i) == CASE i = 1 -> s * b [] i = 2 -> s * b - 1 [] i = 3 -> (s - 1) * b + 1 [] i = 4 -> s * b - 2 [] OTHER -> (s - 1) * b + 2
SR(sa, sb) == {1, sa, sa + sb} \cup {sa + 1}

\* enabling conditions per operation (scalar predicates: the descriptor space is walked by nested quantifiers,
\* building it as one TLC set of records is quadratic)
Fits(op, ab, sa, sb) == (sa + sb) * ab <= (IF op \in {"tensor", "tensor_add_assign", "tensor_square"} THEN MaxTensorBits ELSE MaxProdBits)
InPlace(op) == op \in {"mul_const_assign", "mul_plain_assign"}
AkSet(op) == CASE op \in {"mul_const", "mul_const_assign"} -> {1}
               [] op \in {"tensor", "tensor_add_assign"} -> {1, 4}
               [] OTHER -> {1, 2, 3}
BkSet(op) == CASE op \in {"mul_const", "mul_const_assign"} -> {1}
               [] op \in {"tensor", "tensor_add_assign"} -> {1, 2}
               [] op = "tensor_square" -> {0}           \* same as ak
               [] OTHER -> {1, 5}
Valid(op, ab, rb, sa, sb, sr, off, aki, bki) ==
  /\ Fits(op, ab, sa, sb)
  /\ off <= (sa + sb) * ab
  /\ aki \in AkSet(op) /\ bki \in BkSet(op)
  /\ (op = "tensor_square" => sb = sa)
  /\ IF InPlace(op) THEN rb = ab /\ sr = sa ELSE sr \in SR(sa, sb)
  /\ EffK(sa, ab, aki) > (sa - 1) * ab
  /\ (bki # 0 => EffK(sb, ab, bki) > (sb - 1) * ab)
MulOps == {"mul_const", "mul_const_assign", "mul_plain", "mul_plain_assign", "tensor", "tensor_add_assign", "tensor_square"}

\* relinearisation
KeyShapes == { <<skey, dnum, dsize>> \in (2..MaxSKey) \X (1..MaxSKey) \X (1..MaxDsize) : skey > dsize /\ dnum * dsize <= skey }
RKeys(bkey) == { k \in KeyShapes : k[1] * bkey >= 18 /\ k[1] * bkey <= 24 /\ (k[2] * k[3] = k[1] \/ k[2] * k[3] = k[1] - 2) }
RBs == Bs \cap {3, 4}      \* phases of 4..6 limbs must stay below 2^24
Relin == UNION { { [op |-> "relin", n |-> 8, rank |-> r, ab |-> ab, rb |-> rb, sa |-> sa, sr |-> sa + ds, bkey |-> bkey, skey |-> ks[1], dnum |-> ks[2], dsize |-> ks[3],
                    sigma10 |-> 10, bound10 |-> 10, pc |-> pc] : r \in Ranks, ab \in RBs, rb \in RBs, sa \in {4, 5}, ds \in {-1, 0, 1}, ks \in RKeys(bkey), pc \in PCs } : bkey \in RBs }

VARIABLE c
Init == c = [op |-> "none"]
Next == /\ c.op = "none"
        /\ \/ \E op \in MulOps, r \in Ranks, ab \in Bs, rb \in Bs, sa \in SA, sb \in SB, sr \in 1..4, off \in 0..30, aki \in 1..4, bki \in 0..5, pc \in PCs :
                /\ Valid(op, ab, rb, sa, sb, sr, off, aki, bki)
                /\ c' = D(op, r, ab, rb, sa, sb, sr, off, EffK(sa, ab, aki), EffK(sb, ab, IF bki = 0 THEN aki ELSE bki), pc)
           \/ \E d \in Relin : c' = d
Emit == c.op # "none" => PrintT(<<"DESC", ToJson(c)>>)
=============================================================================
