CONSTANTS
  N = 8
  Bs = {3, 5}
  MaxS = 3
  NRegs = 4
  Depth = 12
  Rank = 1
SPECIFICATION Spec
CHECK_DEADLOCK FALSE
