CONSTANTS
  Bs = {3, 4}
  MaxSIn = 3
  MaxSKey = 6
  MaxDsize = 3
  Ranks = {1, 2}
  PCs = {2}
  MaxKeyBits = 24
  NFam = 8
  FamSIn = {4}
  BoundIdx = {1}
INIT Init
NEXT Next
INVARIANT Emit
CHECK_DEADLOCK FALSE
