-------------------------------- MODULE Ggsw --------------------------------
(* Matrix-level gadget operations (C03 / C04).                                                  *)
(*                                                                                            *)
(* A GGSW under s is a (dnum x (rank+1)) matrix of GLWE; row r, column 0 encrypts m * G_r and     *)
(* column c >= 1 encrypts m * s_c * G_r (Xp.GgswOK).  The library never key-switches columns     *)
(* >= 1: GGSW key-switch / automorphism transform column 0 of every row (plain GLWE key-switch /  *)
(* automorphism) and RE-DERIVE the other columns from it with the tensor key                       *)
(*     tsk[j][r][i] = GLWE_s( s_j * s_i * G_r )                                  (TskOK)         *)
(* by the gadget product  SUM_i  a_i (x) tsk[j][.][i]  with the body of column 0 added on mask     *)
(* column j.  Its phase is EXACTLY  s_j * phase(column 0)  up to the gadget noise:                 *)
(*     phase(res[r][j]) = s_j * phase(res[r][0])  +-  ExpandBound                (ExpandOK)      *)
(* which is a relation on the RESULT alone (given the clear secret), so it is checked on every    *)
(* operation that expands rows.  Column 0 obeys the GLWE-level relation of KsFamily.              *)
(*                                                                                            *)
(* Also here: GGLWE (x) GGSW (cell-wise external product, missing rows zero), automorphism of an  *)
(* automorphism key (result is a valid key for the product of the Galois elements), and GGSW       *)
(* rotation (cell-wise, limb-exact).                                                             *)
EXTENDS Xp

GOp(e) == e.op
GFam(e) == CASE GOp(e) \in {"ggsw_ks", "ggsw_ks_assign"} -> "gks"
             [] GOp(e) \in {"ggsw_auto", "ggsw_auto_assign"} -> "gauto"
             [] GOp(e) = "ggsw_from_gglwe" -> "gfrom"
             [] GOp(e) \in {"gglwe_xp", "gglwe_xp_assign"} -> "gxp"
             [] GOp(e) \in {"atk_auto", "atk_auto_assign"} -> "atk"
             [] OTHER -> "grot"
Expands(e) == GFam(e) \in {"gks", "gauto", "gfrom"}
GRk(e) == e.rin
GN(e) == e.n

\* ---- tensor key: cell (j, r, i) encrypts s_j * s_i * G_r under the output secret
SProd(e, j, i) == NegacyclicMul(e.sk_out[j], e.sk_out[i])
TskOK(e) ==
  LET K == KeyBits(e)
      M == Pow2(K)
  IN \A j \in 1..GRk(e) : \A r \in 1..e.dnum : \A i \in 1..GRk(e) :
       LET ph == PhaseVec(e.tsk[j][r][i], e.sk_out)
           sh == K - r * e.dsize * e.bkey
           pr == SProd(e, j, i)
       IN /\ sh >= 0
          /\ \A c \in 1..GN(e) : CycDist(ph[c], (pr[c] % Pow2(K - sh)) * Pow2(sh), M) <= Bk(e)

\* ---- row expansion: column j of a row against s_j times the phase of its column 0
ExpandBound(e, row0, cell, j) ==
  LET ob == OutBits(cell)
      prods == [i \in 1..GRk(e) |-> SProd(e, j, i)]
      e1 == [e EXCEPT !.a = row0, !.sk_in = prods]
      asz == AConvSize(e1)
      nj == Norm1(e.sk_out[j])
      conv == IF row0.b = e.bkey THEN 0 ELSE ToOutUlps(2 * (nj + SkNorm1(prods)), asz * e.bkey, ob)
      bodycut == IF asz > e.skey THEN ToOutUlps(nj, KeyBits(e), ob) ELSE 0
  IN Min(Sat, 1 + KsCore(e1, asz, ob) + conv + bodycut + ConvOut(e, cell))
ExpandOK(e, res) ==
  \A r \in 1..Len(res.rows) :
    LET row0 == res.rows[r][1]
        p0 == PhaseVec(row0, e.sk_out)
    IN \A c \in 2..(GRk(e) + 1) :
         LET cell == res.rows[r][c]
             ob == OutBits(cell)
             want == NegacyclicMul(e.sk_out[c - 1], p0)
             ph == PhaseVec(cell, e.sk_out)
             B == ExpandBound(e, row0, cell, c - 1)
         IN /\ cell.b = row0.b /\ cell.size = row0.size
            /\ \A x \in 1..GN(e) : CycDist(ph[x], want[x] % Pow2(ob), Pow2(ob)) <= B
\* exact form (tensor key of at most 16 bits in the row's radix): the accumulator is the gadget product of the mask
\* columns of column 0 with tsk[j], plus the (cut) body of column 0 on mask column j
ExpandExactOK(e, res) ==
  \A r \in 1..Len(res.rows) : \A c \in 2..(GRk(e) + 1) :
    LET e1 == [e EXCEPT !.a = res.rows[r][1], !.key = e.tsk[c - 1]] IN ExactAtOK(e1, res.rows[r][c], c)
ExpandMeaningful(e, res) ==
  LET row0 == res.rows[1][1] IN \A j \in 1..GRk(e) : ExpandBound(e, row0, row0, j) <= Pow2(OutBits(row0)) \div 16

\* ---- column 0
CopyOK(a, r) ==      \* glwe_copy: common limbs copied, further limbs of the result cleared
  /\ r.b = a.b
  /\ \A co \in 1..Len(r.d) : \A j \in 1..r.size :
       IF j <= a.size THEN r.d[co][j] = a.d[co][j] ELSE \A x \in 1..Len(r.d[co][j]) : r.d[co][j][x] = 0
Col0OK(e, res) ==
  /\ Len(res.rows) <= Len(e.a.rows)
  /\ \A r \in 1..Len(res.rows) :
       LET a0 == e.a.rows[r][1]
           r0 == res.rows[r][1]
       IN CASE GFam(e) = "gks" -> LET e1 == [e EXCEPT !.a = a0, !.op = "keyswitch"] IN AllOK(e1, r0)
            [] GFam(e) = "gauto" -> LET e1 == [e EXCEPT !.a = a0, !.op = "auto"] IN FamOK(e1, r0)
            [] OTHER -> CopyOK(a0, r0)
Col0Meaningful(e, res) ==
  LET a0 == e.a.rows[1][1]
      r0 == res.rows[1][1]
  IN CASE GFam(e) = "gks" -> Meaningful([e EXCEPT !.a = a0, !.op = "keyswitch"], r0)
       [] GFam(e) = "gauto" -> Meaningful([e EXCEPT !.a = a0, !.op = "auto"], r0)
       [] OTHER -> TRUE
\* the key of column 0: a switching key from sk_in to sk_out (gks); automorphism keys are judged by AtkOK below
GalInv(p, N) == CHOOSE q \in 1..(2 * N - 1) : (p * q) % (2 * N) = 1
AutoSk(sk, g) == [i \in 1..Len(sk) |-> Auto(sk[i], g)]
\* an automorphism key for the Galois element p is a switching key from s to pi_p^-1(s)
AtkOK(rows, e, p, b, S, ds, B) ==
  LET K == S * b
      M == Pow2(K)
      sk == AutoSk(e.sk_in, GalInv(p, GN(e)))
  IN \A r \in 1..Len(rows) : \A i \in 1..Len(rows[r]) :
       LET ph == PhaseVec(rows[r][i], sk)
           sh == K - r * ds * b
       IN /\ sh >= 0
          /\ \A c \in 1..GN(e) : CycDist(ph[c], (e.sk_in[i][c] % Pow2(K - sh)) * Pow2(sh), M) <= B
GKeyOK(e) ==
  CASE GFam(e) = "gks" -> KeyOK(e) /\ TskOK(e)
    [] GFam(e) = "gauto" -> AtkOK(e.key, e, e.p, e.bkey, e.skey, e.dsize, Bk(e)) /\ TskOK(e)
    [] GFam(e) = "gfrom" -> TskOK(e)
    [] GFam(e) = "gxp" -> GgswOK(e.key, e.m2, e.sk_in, e.bkey, e.skey, e.dsize, Bk(e))
    [] GFam(e) = "atk" -> /\ AtkOK(e.key, e, e.p, e.bkey, e.skey, e.dsize, Bk(e))
                          /\ AtkOK(e.a.rows, e, e.a.p, e.bin, e.sin, 1, Bk(e))
    [] OTHER -> TRUE

\* ---- automorphism of an automorphism key: a valid key for p_a * p_key, noise = the input's + one key-switch
AtkAutoOK(e, res) ==
  LET cell == res.rows[1][1]
      ob == OutBits(cell)
      e1 == [e EXCEPT !.a = e.a.rows[1][1]]
      B == ToOutUlps(Bk(e), e.sin * e.bin, ob) + PhaseBound(e1, cell)
  IN /\ Len(res.rows) <= Len(e.a.rows)
     /\ (res.p - e.a.p * e.p) % (2 * GN(e)) = 0
     /\ AtkOK(res.rows, e, res.p, cell.b, cell.size, 1, B)
AtkMeaningful(e, res) ==
  LET cell == res.rows[1][1] IN ToOutUlps(Bk(e), e.sin * e.bin, OutBits(cell)) + PhaseBound([e EXCEPT !.a = e.a.rows[1][1]], cell) <= Pow2(OutBits(cell)) \div 16

\* ---- rotation: every cell, every column, every common limb multiplied by X^k
RotOK(e, res) ==
  /\ Len(res.rows) <= Len(e.a.rows)
  /\ \A r \in 1..Len(res.rows) : \A c \in 1..Len(res.rows[r]) :
       LET a == e.a.rows[r][c]
           x == res.rows[r][c]
       IN /\ x.b = a.b
          /\ \A co \in 1..Len(x.d) : \A j \in 1..x.size :
               IF j <= a.size THEN x.d[co][j] = MulXk(a.d[co][j], e.k) ELSE x.d[co][j] = PZero(GN(e))

\* ---- the user-level statement for the GGSW results: a valid GGSW of the (mapped) plaintext
UserImage(e) == IF GFam(e) = "gauto" THEN Auto(e.m, e.p) ELSE e.m
UserOK(e, res) ==
  LET r0 == res.rows[1][1]
      ob == OutBits(r0)
      a0 == e.a.rows[1][1]
      b0 == ToOutUlps(Bk(e), e.sin * e.bin, ob)
           + (CASE GFam(e) = "gks" -> PhaseBound([e EXCEPT !.a = a0], r0)
                [] GFam(e) = "gauto" -> Bound([e EXCEPT !.a = a0, !.op = "auto"], r0)
                [] OTHER -> 1)
      mx == LET RECURSIVE Mx(_) Mx(j) == IF j > GRk(e) THEN 0 ELSE Max(Norm1(e.sk_out[j]), Mx(j + 1)) IN Mx(1)
      ex == LET RECURSIVE Ex(_) Ex(j) == IF j > GRk(e) THEN 0 ELSE Max(ExpandBound(e, r0, r0, j), Ex(j + 1)) IN Ex(1)
      B == Min(Sat, (1 + mx) * b0 + ex)
  IN GgswOK(res.rows, UserImage(e), e.sk_out, r0.b, r0.size, 1, B)

GAllOK(e, res) ==
  CASE Expands(e) -> /\ Col0OK(e, res) /\ ExpandOK(e, res) /\ UserOK(e, res)
                     /\ (e.bin = e.bkey /\ KeyBits(e) <= 16) => ExpandExactOK(e, res)
    [] GFam(e) = "gxp" -> GgswXpOK(e, res)
    [] GFam(e) = "atk" -> AtkAutoOK(e, res)
    [] OTHER -> RotOK(e, res)
GMeaningful(e, res) ==
  CASE Expands(e) -> Col0Meaningful(e, res) /\ ExpandMeaningful(e, res)
    [] GFam(e) = "gxp" -> LET c == res.rows[1][1] IN XpBound(e, e.a.rows[1][1], c, 1) <= Pow2(OutBits(c)) \div 16
    [] GFam(e) = "atk" -> AtkMeaningful(e, res)
    [] OTHER -> TRUE
=============================================================================
