CONSTANTS
  Bs = {3, 5}
  Dims = {1, 5, 16}
  DimsX = {5}
  MaxS = 3
  PCs = {1, 2}
INIT Init
NEXT Next
INVARIANT Emit
CHECK_DEADLOCK FALSE
