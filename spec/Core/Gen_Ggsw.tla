------------------------------ MODULE Gen_Ggsw ------------------------------
(* Behaviour generator for the matrix-level gadget operations (Ggsw.tla): GGSW key-switch and   *)
(* automorphism (out of place / in place), GGSW from GGLWE, GGLWE external product,              *)
(* automorphism of automorphism keys and GGSW rotation.  One TLC state per behaviour descriptor  *)
(* (invariant Emit prints it).  Enabling conditions = the library's assertions (equal radix and   *)
(* digit size of input and result, result rows <= input rows, dnum*dsize <= limbs, limbs > dsize) *)
(* and the integer range of the validating model (every precision <= MaxBits).  Result row counts  *)
(* below / equal to the input's are both admitted by the API and both generated.                  *)
EXTENDS Integers, Sequences, FiniteSets, TLC, Json

CONSTANTS Bs, Ranks, NG, MaxBits, MinKeyBits, SIns, Quick, Fams

Nzs == IF Quick THEN {1} ELSE {1, 2}
NoiseTable == << <<10, 10>>, <<32, 192>> >>
Unit(k, s) == [i \in 1..NG |-> IF i = k + 1 THEN s ELSE 0]
Dense1 == [i \in 1..NG |-> IF i = 1 THEN 1 ELSE IF i = 3 THEN -1 ELSE IF i = NG THEN 1 ELSE 0]
Zero == [i \in 1..NG |-> 0]
M2s == IF Quick THEN {Unit(3, 1), Dense1} ELSE {Unit(0, 1), Unit(3, 1), Unit(NG - 1, -1), Dense1, Zero}
KeyShapes(bkey) == { ks \in (2..8) \X (1..8) \X (1..3) :
                       /\ ks[1] > ks[3] /\ ks[2] * ks[3] <= ks[1]
                       /\ ks[1] * bkey >= MinKeyBits /\ ks[1] * bkey <= MaxBits
                       /\ (ks[2] * ks[3] = ks[1] \/ ks[2] * ks[3] = ks[1] - 2) }
\* small keys (<= 16 bits) in the operand's own radix: the bound is meaningless there but the EXACT gadget identities apply
ExactShapes(bkey) == { ks \in (2..5) \X (1..5) \X (1..3) : ks[1] > ks[3] /\ ks[2] * ks[3] <= ks[1] /\ ks[1] * bkey >= 9 /\ ks[1] * bkey <= 16 }
Keys(bin, bkey) == KeyShapes(bkey) \cup (IF bin = bkey THEN ExactShapes(bkey) ELSE {})
Galois2 == {-1, 3, 2 * NG - 3}
Galois == IF Quick THEN {-1, 3, 5, 2 * NG - 3} ELSE { p \in (1 - 2 * NG)..(2 * NG - 1) : p % 2 = 1 }
Rots == IF Quick THEN {1, NG, -3} ELSE {0, 1, NG - 1, NG, NG + 1, 2 * NG - 1, -3, 2 * NG}

Base(op, bin, bkey, sin, sout, r, ks, da, dr, nz) ==
  [op |-> op, n |-> NG, bin |-> bin, bkey |-> bkey, bout |-> bin, sin |-> sin, skey |-> ks[1], sout |-> sout, rin |-> r, rout |-> r,
   dnum |-> ks[2], dsize |-> ks[3], dnum_a |-> da, dnum_r |-> dr, pc |-> 1, sigma10 |-> NoiseTable[nz][1], bound10 |-> NoiseTable[nz][2]]
With(s, f) == [x \in DOMAIN s \cup DOMAIN f |-> IF x \in DOMAIN f THEN f[x] ELSE s[x]]

VARIABLE c
None == [op |-> "none"]
Init == c = None
Layout(bin, sin, sout, da, dr) == /\ sin * bin <= MaxBits /\ sout * bin <= MaxBits /\ sin >= 2 /\ sout >= 2
                                   /\ da <= sin /\ dr <= sout /\ da >= 1 /\ dr >= 1
Empty == [x \in {} |-> 0]
\* out of place: result with one limb fewer / as many / one more, result rows = input rows or one fewer
Out(op, f, dds) == \E bin \in Bs, bkey \in Bs, sin \in SIns, ds \in {-1, 0, 1}, r \in Ranks, da \in {2, 3}, dd \in dds, nz \in Nzs : \E ks \in Keys(bin, bkey) :
             /\ Layout(bin, sin, sin + ds, da, da - dd)
             /\ c' = With(Base(op, bin, bkey, sin, sin + ds, r, ks, da, da - dd, nz), f)
In(op, f) == \E bin \in Bs, bkey \in Bs, sin \in SIns, r \in Ranks, da \in {2, 3}, nz \in Nzs : \E ks \in Keys(bin, bkey) :
             /\ Layout(bin, sin, sin, da, da)
             /\ c' = With(Base(op, bin, bkey, sin, sin, r, ks, da, da, nz), f)
Next ==
  /\ c = None
  /\ \/ "gks" \in Fams /\ (Out("ggsw_ks", Empty, {0, 1}) \/ In("ggsw_ks_assign", Empty))
     \/ "gauto" \in Fams /\ \E p \in Galois : Out("ggsw_auto", [p |-> p], {0, 1}) \/ In("ggsw_auto_assign", [p |-> p])
     \/ "gfrom" \in Fams /\ Out("ggsw_from_gglwe", Empty, {0})
     \/ "gxp" \in Fams /\ \E m2 \in M2s, ra \in {1, 2} : Out("gglwe_xp", [m2 |-> m2, ra |-> ra], {-1, 0, 1}) \/ In("gglwe_xp_assign", [m2 |-> m2, ra |-> ra])
     \/ "atk" \in Fams /\ \E p \in Galois, p2 \in Galois2 : Out("atk_auto", [p |-> p, p2 |-> p2], {0, 1}) \/ In("atk_auto_assign", [p |-> p, p2 |-> p2])
     \/ "grot" \in Fams /\ \E k \in Rots : Out("ggsw_rotate", [k |-> k], {0, 1}) \/ In("ggsw_rotate_assign", [k |-> k])
Emit == c.op # "none" => PrintT(<<"DESC", ToJson(c)>>)
=============================================================================
