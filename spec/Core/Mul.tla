--------------------------------- MODULE Mul ---------------------------------
(* Ciphertext multiplication (C05).  Multiplying by a constant, a plaintext or another          *)
(* ciphertext is, column by column, an exact product of integer polynomials:                     *)
(*    col_res / 2^KR  =  (A / 2^KA) * (B / 2^KB) * 2^off      (mod 1, rounded to KR bits)        *)
(* where A, B are the signed integers the operand limbs spell (top limb first, the last limb      *)
(* cut to the operand's effective precision), KA = size(a)*base2k etc. and off the requested      *)
(* offset.  With E = off + KR - KA - KB this is the relational normalisation statement of         *)
(* HalNorm.tla (exact when E >= 0, one unit of the last limb otherwise) applied to the exact      *)
(* negacyclic product A*B.  It implies the decryption statement of the property for every key.    *)
(* The tensor product of (a_0..a_r) and (b_0..b_r) has the columns (i <= j)                       *)
(*    c(i,i) = a_i b_i,   c(i,j) = a_i b_j + a_j b_i     at index i*cols - i(i+1)/2 + j,           *)
(* decrypting under (1, s_1..s_r) x (1, s_1..s_r); relinearisation key-switches the s_i s_j        *)
(* columns (i >= 1) back to s (gadget bound of KeySwitch.tla with rank_in = r(r+1)/2).            *)
EXTENDS KsFamily, HalDft

MaskT(b, k) == IF k % b = 0 THEN 0 ELSE b - (k % b)
\* signed integer polynomial spelled by a column (unreduced), last limb cut to the effective precision
ColInt(col, b, k) == LET m == MaskLast(col, MaskT(b, k)) N == Len(col[1]) IN [c \in 1..N |-> TorusInt(m, b, c)]
CstInt(cst, b) == LET RECURSIVE S(_) S(l) == IF l > Len(cst) THEN 0 ELSE cst[l] * Pow2((Len(cst) - l) * b) + S(l + 1) IN S(1)

\* D (res coefficient, KR bits) against the exact product coefficient P scaled by 2^E, tolerance t units
ProdOK(D, P, E, KR, t) ==
  IF E >= 0 /\ E < KR THEN \E u \in (1 - t)..(t - 1) : (D - (P % Pow2(KR - E)) * Pow2(E) - u) % Pow2(KR) = 0
  ELSE IF E >= KR THEN \E u \in (1 - t)..(t - 1) : (D - u) % Pow2(KR) = 0
  ELSE TorusShiftOK(D, P, E, KR, t)

ResBits(res) == res.size * res.b
Tol(e, res) == IF res.b = e.ab THEN 1 ELSE 2
EOff(e, res) == e.off + ResBits(res) - e.sa * e.ab - e.sb * e.ab
AK(e) == IF "ak" \in DOMAIN e THEN e.ak ELSE e.sa * e.ab
BK(e) == IF "bk" \in DOMAIN e THEN e.bk ELSE e.sb * e.ab

ColOK(e, res, co, P, t) == \A c \in 1..e.n : ProdOK(TorusInt(res.d[co], res.b, c), P[c], EOff(e, res), ResBits(res), t)

\* Deliberate deviation of the in-place constant product (named, not hidden): it accumulates into size(res) big
\* limbs only, so when the constant is not an integer at the requested offset (off < KB) the convolution limbs below
\* the accumulator are dropped before the final shift: at most min(sa,sb) * 2^(b-1) units of the accumulator's last
\* limb, scaled by the intra-limb shift 2^lo.
AssignTruncation(e) ==
  LET b == e.ab
      lo == IF e.off < b THEN e.off - b ELSE e.off % b
      mag == Min(e.sa, e.sb) * Pow2(b - 1)
  IN IF e.off >= e.sb * b THEN 0 ELSE IF lo >= 0 THEN mag * Pow2(lo) ELSE DivCeil(mag, Pow2(-lo))
MulConstOK(e, res) ==
  LET B == CstInt(e.b.cst, e.ab)
      t == Tol(e, res) + (IF e.op = "mul_const_assign" THEN AssignTruncation(e) ELSE 0)
  IN \A co \in 1..(e.rank + 1) : ColOK(e, res, co, PScale(ColInt(e.a.d[co], e.ab, e.sa * e.ab), B), t)
MulPlainOK(e, res) ==
  LET B == ColInt(e.b.d[1], e.ab, BK(e)) IN
  \A co \in 1..(e.rank + 1) : ColOK(e, res, co, NegacyclicMul(ColInt(e.a.d[co], e.ab, AK(e)), B), Tol(e, res))

\* tensor: column index of the pair (i, j), 0 <= i <= j <= rank (1-based result)
TCol(e, i, j) == i * (e.rank + 1) - (i * (i + 1)) \div 2 + j + 1
\* Deliberate truncation of the tensor product (named, not hidden): only
\*     kept = min(sa + sb - hi, ceil((KR + (lo mod b)) / b))
\* limbs of every convolution are computed -- exactly the limbs that overlap the result, no guard limb -- so the
\* limbs below contribute an error instead of a carry: at most min(sa,sb) * N * 2^(2b-2) per dropped limb
\* coefficient, i.e. (geometric sum) min(sa,sb) * N * 2^(b-1) units of the last kept limb, which is
\* 2^(KR + lo - kept*b) units of the result's last limb.  Zero when the whole product is kept.
TensorTruncation(e, res) ==
  LET b == e.ab
      hi == IF e.off < b THEN 0 ELSE Max(e.off \div b - 1, 0)
      lo == IF e.off < b THEN e.off - b ELSE e.off % b
      full == e.sa + e.sb - hi
      kept == Min(full, DivCeil(ResBits(res) + (lo % b), b))
      mag == Min(e.sa, e.sb) * e.n * Pow2(b - 1)
      sh == ResBits(res) + lo - kept * b
  IN IF kept >= full THEN 0 ELSE IF sh >= 0 THEN mag * Pow2(sh) ELSE DivCeil(mag, Pow2(-sh))
TensorTol(e, res, diag) == LET t0 == Tol(e, res) IN IF diag THEN t0 + TensorTruncation(e, res) ELSE 4 * t0 + 6 * TensorTruncation(e, res)
TensorOK(e, res) ==
  LET A(i) == ColInt(e.a.d[i + 1], e.ab, AK(e))
      B(i) == ColInt(e.b.d[i + 1], e.ab, BK(e))
      \* every term is rounded on its own (diagonal: one rounding; off-diagonal: three) and combined limb-wise
      Delta(co, c) == IF e.op = "tensor_add_assign" THEN TorusInt(res.d[co], res.b, c) - TorusInt(e.prev.d[co], res.b, c)
                      ELSE TorusInt(res.d[co], res.b, c)
  IN /\ Len(res.d) = ((e.rank + 1) * (e.rank + 2)) \div 2
     /\ \A i \in 0..e.rank : \A j \in i..e.rank :
          LET P == IF i = j THEN NegacyclicMul(A(i), B(i)) ELSE PAdd(NegacyclicMul(A(i), B(j)), NegacyclicMul(A(j), B(i)))
              t == TensorTol(e, res, i = j)
          IN \/ 2 * t >= Pow2(ResBits(res))
             \/ \A c \in 1..e.n : ProdOK(Delta(TCol(e, i, j), c), P[c], EOff(e, res), ResBits(res), t)
TensorMeaningful(e, res) == 8 * TensorTol(e, res, TRUE) <= Pow2(ResBits(res))

\* relinearisation: phase under s of the result = phase of the tensor under (s, s x s), within the gadget bound
TensorSecret(sk) ==
  LET r == Len(sk)
      RECURSIVE Pairs(_, _)
      Pairs(i, j) == IF i > r THEN <<>> ELSE IF j > r THEN Pairs(i + 1, i + 1) ELSE << NegacyclicMul(sk[i], sk[j]) >> \o Pairs(i, j + 1)
  IN sk \o Pairs(1, 1)
RelinEv(e) ==      \* the event in the vocabulary of KeySwitch.tla
  LET r == e.rank IN
  [n |-> e.n, a |-> e.a, bkey |-> e.bkey, skey |-> e.skey, dnum |-> e.dnum, dsize |-> e.dsize, bound10 |-> e.bound10,
   rin |-> (r * (r + 1)) \div 2, rout |-> r, sk_in |-> TensorSecret(e.sk), sk_out |-> e.sk]
RelinBound(e, res) == PhaseBound(RelinEv(e), res) + 2 * (1 + SkNorm1(e.sk))
RelinOK(e, res) ==
  LET ke == RelinEv(e)
      ob == OutBits(res)
      pin == Resc(PhaseVec(e.a, ke.sk_in), Bits(e.a), ob)
      pout == PhaseVec(res, e.sk)
  IN \A c \in 1..e.n : CycDist(pout[c], pin[c], Pow2(ob)) <= RelinBound(e, res)

MulOK(e, res) ==
  CASE e.op \in {"mul_const", "mul_const_assign"} -> MulConstOK(e, res)
    [] e.op \in {"mul_plain", "mul_plain_assign"} -> MulPlainOK(e, res)
    [] e.op = "relin" -> RelinOK(e, res)
    [] OTHER -> TensorOK(e, res)
MulMeaningful(e, res) ==
  CASE e.op = "relin" -> RelinBound(e, res) <= Pow2(OutBits(res)) \div 16
    [] e.op \in {"tensor", "tensor_add_assign", "tensor_square"} -> TensorMeaningful(e, res)
    [] OTHER -> TRUE
=============================================================================
