CONSTANTS
  Bs = {2, 3, 4, 5, 6}
  Dims = {1, 2, 5, 16, 33}
  DimsX = {2, 16}
  MaxS = 4
  PCs = {1, 2}
INIT Init
NEXT Next
INVARIANT Emit
CHECK_DEADLOCK FALSE
