CONSTANTS
  DeepNs = {64}
  Ns = {8}
  Bs = {3, 5}
  MaxS = 3
  Ranks = {1, 2}
  Dists = {"ternary_prob", "zero"}
  Classes = {2}
  NoiseIdx = {1, 4}
  Paths = {"enc_sk", "enc_zero_sk", "enc_pk", "enc_c"}
INIT Init
NEXT Next
CHECK_DEADLOCK FALSE
