-------------------------------- MODULE Rand --------------------------------
(* Randomness of fresh encryptions (C06) and seed-compressed objects (C19).                     *)
(*                                                                                              *)
(* An encryption routine is a function  Enc(layout, plaintext, secret, XA, XE)  of two           *)
(* independent streams: the mask stream XA fills the mask part, the error stream XE the error.    *)
(* DepOK states the dependency structure on runs under controlled changes of one argument:        *)
(*   mask = f(XA) only;  body = g(pt, sk, XA, XE) and really depends on each of them.             *)
(* The statistics of the property are decided here from raw limbs with integer arithmetic:        *)
(*   error e = phase - expected plaintext (phase computed by the specification from the clear     *)
(*   secret), second moment within a band around sigma^2 (+1/12 for the rounding) whose width     *)
(*   is 8 standard deviations of the estimator (false alarm < 2^-40), |mean| and max|e| bounded;   *)
(*   mask digits: chi-square statistic against the uniform law on [-2^(b-1), 2^(b-1)) below        *)
(*   df + 8 sqrt(2 df) + 40, both extreme digits present.                                         *)
(* Seed-compressed objects: the stored seeds are the successive draws of the master stream in     *)
(* the library's cell order, every decompressed cell equals the STANDARD encryption of the cell's  *)
(* plaintext under Source(stored seed) and the shared error stream, serialisation preserves it.   *)
EXTENDS Integers, Sequences, FiniteSets, TLC, Pow2, Poly, Limbs, Glwe

HasPt(layout) == layout \notin {"tsk", "tgk"}
\* ---- dependency structure over the runs of one back-end
\* "really depends on" is only demanded where a coincidence is impossible in practice (< 2^-40): a changed
\* secret re-randomises every body coefficient (size*b bits each), a changed error seed only the error
\* (>= 3 bits of collision entropy per coefficient at sigma = 3.2), a changed mask seed nmask digits of b bits.
BodyCoeffs(e, x) == x.nbody \div e.size
DepOK(e) ==
  LET R == {e.runs[k] : k \in 1..Len(e.runs)} IN
  /\ \A x \in R : x.panic = "" /\ x.nmask > 0 /\ x.nbody > 0
  /\ \A x, y \in R :
       /\ (x.xa = y.xa) => x.mask = y.mask                      \* also across back-ends: one mask stream, one order, one radix
       /\ (x.xa # y.xa /\ x.nmask * e.b >= 48) => x.mask # y.mask
       /\ (x.be = y.be /\ x.pt = y.pt /\ x.sk = y.sk /\ x.xa = y.xa /\ x.xe = y.xe) => x.body = y.body     \* deterministic
       /\ (x.be = y.be /\ x.sk = y.sk /\ x.xa = y.xa /\ x.xe = y.xe /\ x.pt # y.pt /\ HasPt(e.layout)) => x.body # y.body
       /\ (x.be = y.be /\ x.pt = y.pt /\ x.xa = y.xa /\ x.xe = y.xe /\ x.sk # y.sk /\ BodyCoeffs(e, x) * e.size * e.b >= 48) => x.body # y.body
       /\ (x.be = y.be /\ x.pt = y.pt /\ x.sk = y.sk /\ x.xa = y.xa /\ x.xe # y.xe /\ BodyCoeffs(e, x) >= 16) => x.body # y.body
DepBeOK(e) == \A k, l \in 1..Len(e.runs) : (e.runs[k].v = e.runs[l].v) => e.runs[k].body = e.runs[l].body

\* ---- errors of one logged object (sequence over cells of sequences over coefficients)
IsLwe(ct) == "lwe" \in DOMAIN ct
LwePh(ct, s) ==
  LET RECURSIVE Dot(_, _)
      Dot(j, i) == IF i > ct.n THEN 0 ELSE ct.d[1][j][i + 1] * s[1][i] + Dot(j, i + 1)
      col == [j \in 1..ct.size |-> << ct.d[1][j][1] + Dot(j, 1) >>]
  IN << TorusInt(col, ct.b, 1) % Pow2(ct.size * ct.b) >>
Ph(ct, s) == IF IsLwe(ct) THEN LwePh(ct, s) ELSE PhaseVec(ct, s)
GalInvR(p, N) == CHOOSE q \in 1..(2 * N - 1) : (p * q) % (2 * N) = 1
TriIdx(e, c) == CHOOSE ij \in (1..e.rank) \X (1..e.rank) : ij[1] <= ij[2] /\ (ij[1] - 1) * e.rank + (ij[2] - 1) - ((ij[1] - 1) * ij[1]) \div 2 = c - 1
\* the secret the cells of an object are encrypted under
ErrSk(e) == IF e.layout = "atk" THEN [x \in 1..e.rank |-> Auto(e.aux.sk[x], GalInvR(e.aux.p, e.n))] ELSE e.aux.sk
\* expected phase of cell idx (1-based) of the object
Want(e, idx, ct) ==
  LET K == ct.size * ct.b
      aux == e.aux
      N == e.n
  IN CASE e.layout \in {"glwe", "glwe_c"} -> PtVec(aux.pt)
       [] e.layout = "lwe" -> << PtVec(aux.pt)[1] >>
       [] e.layout = "ksk" -> LET r == ((idx - 1) \div e.rank) + 1  i == ((idx - 1) % e.rank) + 1  sh == K - r * e.dsize * e.b
                              IN [c \in 1..N |-> (aux.sk_in[i][c] % Pow2(K - sh)) * Pow2(sh)]
       \* automorphism key for p: the columns of s itself, under the key pi_p^-1(s) (see ErrSk)
       [] e.layout = "atk" -> LET r == ((idx - 1) \div e.rank) + 1  i == ((idx - 1) % e.rank) + 1  sh == K - r * e.dsize * e.b
                              IN [c \in 1..N |-> (aux.sk[i][c] % Pow2(K - sh)) * Pow2(sh)]
       \* tensor key: the packed upper triangle s_i s_j (i <= j)
       [] e.layout = "tsk" -> LET pairs == (e.rank * (e.rank + 1)) \div 2  r == ((idx - 1) \div pairs) + 1  ij == TriIdx(e, ((idx - 1) % pairs) + 1)
                                  sh == K - r * e.dsize * e.b  ms == NegacyclicMul(aux.sk[ij[1]], aux.sk[ij[2]])
                              IN [c \in 1..N |-> (ms[c] % Pow2(K - sh)) * Pow2(sh)]
       \* GGLWE-to-GGSW key: one GGLWE per secret column i (key-major), whose column j carries s_i s_j
       [] e.layout = "tgk" -> LET blk == e.dnum * e.rank  i == ((idx - 1) \div blk) + 1  r == (((idx - 1) % blk) \div e.rank) + 1  j == ((idx - 1) % e.rank) + 1
                                  sh == K - r * e.dsize * e.b  ms == NegacyclicMul(aux.sk[i], aux.sk[j])
                              IN [c \in 1..N |-> (ms[c] % Pow2(K - sh)) * Pow2(sh)]
       [] e.layout \in {"ggsw", "ggsw_c"} ->
                              LET cols == e.rank + 1  r == ((idx - 1) \div cols) + 1  c0 == ((idx - 1) % cols) + 1  sh == K - r * e.dsize * e.b
                                  ms == IF c0 = 1 THEN aux.spt ELSE NegacyclicMul(aux.spt, aux.sk[c0 - 1])
                              IN [c \in 1..N |-> (ms[c] % Pow2(K - sh)) * Pow2(sh)]
       [] OTHER -> LET rin == Len(aux.spts)  r == ((idx - 1) \div rin) + 1  i == ((idx - 1) % rin) + 1  sh == K - r * e.dsize * e.b    \* gglwe_c
                   IN [c \in 1..N |-> (aux.spts[i][c] % Pow2(K - sh)) * Pow2(sh)]
\* public-key encryption: the logged object is the difference of two encryptions that share everything but the error
\* stream, i.e. every coefficient of every column is a difference of two fresh errors
DiffErrs(ct) ==
  LET RECURSIVE Col(_)
      Col(c) == IF c > ct.rank + 1 THEN <<>> ELSE [k \in 1..Len(ct.d[c][1]) |-> CMod(TorusInt(ct.d[c], ct.b, k), Pow2(ct.size * ct.b))] \o Col(c + 1)
  IN Col(1)
Errs(e, idx) ==
  IF e.layout = "pk_diff" THEN DiffErrs(e.cells[idx]) ELSE
  LET ct == e.cells[idx]
      ph == Ph(ct, ErrSk(e))
      w == Want(e, idx, ct)
  IN [c \in 1..Len(ph) |-> CMod(ph[c] - w[c], Pow2(ct.size * ct.b))]

\* ---- accumulators
RECURSIVE SumInts(_)
SumInts(s) == IF s = <<>> THEN 0 ELSE Head(s) + SumInts(Tail(s))
RECURSIVE SumSq(_)
SumSq(s) == IF s = <<>> THEN 0 ELSE Head(s) * Head(s) + SumSq(Tail(s))
AbsI(x) == IF x < 0 THEN -x ELSE x
MaxSeq(s) == LET RECURSIVE M(_) M(t) == IF t = <<>> THEN 0 ELSE LET h == AbsI(Head(t)) r == M(Tail(t)) IN IF h > r THEN h ELSE r IN M(s)
Flat(e) == LET RECURSIVE F(_) F(i) == IF i > Len(e.cells) THEN <<>> ELSE Errs(e, i) \o F(i + 1) IN F(1)
\* all mask digits of an object
MaskDigits(e) ==
  LET RECURSIVE Cell(_) RECURSIVE Col(_, _) RECURSIVE Limb(_, _, _)
      Limb(ct, c, j) == IF j > ct.size THEN <<>> ELSE (IF IsLwe(ct) THEN Tail(ct.d[1][j]) ELSE ct.d[c][j]) \o Limb(ct, c, j + 1)
      Col(ct, c) == IF IsLwe(ct) THEN Limb(ct, 1, 1) ELSE IF c > ct.rank + 1 THEN <<>> ELSE Limb(ct, c, 1) \o Col(ct, c + 1)
      Cell(i) == IF i > Len(e.cells) THEN <<>> ELSE Col(e.cells[i], 2) \o Cell(i + 1)
  IN Cell(1)
Hist(digits, b) == LET half == Pow2(b - 1) IN [v \in (-half)..(half - 1) |-> Cardinality({k \in 1..Len(digits) : digits[k] = v})]
InRange(digits, b) == LET half == Pow2(b - 1) IN \A k \in 1..Len(digits) : digits[k] >= -half /\ digits[k] < half

\* ---- acceptance (n samples; sig2 = (10 sigma)^2, i.e. variance in units of 1/100)
Isqrt(x) == CHOOSE r \in 0..46340 : r * r <= x /\ (r + 1) * (r + 1) > x
VarOK(n, s2, sig2) == /\ s2 * 100 >= ((n * sig2) \div 100) * 91
                      /\ s2 * 100 <= ((n * (sig2 + 9)) \div 100) * 109
MeanOK(n, s1, sig2) == (s1 * s1) \div 64 <= (n * sig2) \div 100 + 1
ChiOK(h, nm, B) ==
  LET df == B - 1
      T == df + 8 * (Isqrt(2 * df) + 1) + 40
      half == B \div 2
      RECURSIVE Dev(_)
      Dev(v) == IF v >= half THEN 0 ELSE ((h[v] * B - nm) * (h[v] * B - nm)) \div B + Dev(v + 1)
      dev == Dev(-half)
  IN dev <= T * nm

\* ---- compressed key wrappers (switching, automorphism, tensor, GGLWE-to-GGSW keys): each is a compressed GGLWE of known
\* plaintext columns under a known key.  (a) stored seeds = the draws of the master stream in the library's cell order
\* (tgk: one branch seed per key, then the cells of that key); (b) the decompressed cells equal, limb for limb, the plain
\* compressed-GGLWE encryption of those columns (itself validated cell by cell against the standard encryption) -- for the
\* automorphism key only the masks, its key pi_p^-1(s) not being constructible through the public API; (c) every cell is a
\* valid gadget encryption of its column under its key (phase within the configured bound), computed here from raw limbs.
WrapCols(e) == CASE e.layout = "tsk_c" -> (e.rank * (e.rank + 1)) \div 2 [] OTHER -> e.rank
WrapKeys(e) == IF e.layout = "tgk_c" THEN e.rank ELSE 1
\* plaintext column of cell (key i, column c), 1-based, and the secret the cell is encrypted under
WrapPt(e, rec, i, c) ==
  LET sk == rec.aux.sk IN
  CASE e.layout = "ksk_c" -> rec.aux.sk_in[c]
    [] e.layout = "atk_c" -> sk[c]
    [] e.layout = "tsk_c" -> LET ij == TriIdx(e, c) IN NegacyclicMul(sk[ij[1]], sk[ij[2]])
    [] OTHER -> NegacyclicMul(sk[i], sk[c])
WrapSk(e, rec) == IF e.layout = "atk_c" THEN [x \in 1..e.rank |-> Auto(rec.aux.sk[x], GalInvR(rec.aux.p, e.n))] ELSE rec.aux.sk
WrapOK(e, rec) ==
  LET nc == WrapCols(e)
      nk == WrapKeys(e)
      blk == e.dnum * nc
      Bk == (e.bound10 + 9) \div 10
      sk == WrapSk(e, rec)
  IN /\ Len(rec.stored) = nk * blk /\ Len(rec.drawn) = nk * blk /\ Len(rec.cells) = nk * blk /\ Len(rec.ref) = nk * blk
     /\ \A i \in 0..(nk - 1) : \A r \in 0..(e.dnum - 1) : \A c \in 0..(nc - 1) :
          LET idx == i * blk + r * nc + c + 1
              ct == rec.cells[idx]
              K == ct.size * ct.b
              sh == K - (r + 1) * e.dsize * e.b
              pt == WrapPt(e, rec, i + 1, c + 1)
              ph == PhaseVec(ct, sk)
          IN /\ rec.stored[idx] = rec.drawn[i * blk + c * e.dnum + r + 1]
             /\ (IF e.layout = "atk_c" THEN \A col \in 2..(e.rank + 1) : ct.d[col] = rec.ref[idx].d[col] ELSE ct = rec.ref[idx])
             /\ sh >= 0
             /\ \A x \in 1..e.n : CycDist(ph[x], (pt[x] % Pow2(K - sh)) * Pow2(sh), Pow2(K)) <= Bk
\* ---- C19
SeedIdx(e, r, c) ==      \* 0-based draw index of the seed stored at cell (r, c) (0-based), per compressed type
  CASE e.layout = "gglwe_c" -> c * e.dnum + r
    [] OTHER -> r * (e.rank + 1) + c
\* a decompressed GGSW: every cell (row r, column c0) is a gadget encryption of the scalar (c0 = 1) or of scalar * s_(c0-1)
\* at row r's scale, within the configured bound -- computed from the raw limbs, whatever the size of the scalar's coefficients
GgswCellsOK(e, rec) ==
  LET ea == [x \in DOMAIN e \cup {"aux"} |-> IF x = "aux" THEN rec.aux ELSE e[x]]
      Bk == (e.bound10 + 9) \div 10
  IN \A idx \in 1..Len(rec.cells) :
       LET ct == rec.cells[idx]
           ph == PhaseVec(ct, rec.aux.sk)
           w == Want(ea, idx, ct)
       IN \A x \in 1..e.n : CycDist(ph[x], w[x] % Pow2(ct.size * ct.b), Pow2(ct.size * ct.b)) <= Bk
\* compressed blind-rotation key: LWE coefficient i (0-based) owns a compressed GGSW of the constant polynomial s_lwe[i]; its
\* seeds are the draws of the i-th branch of the master stream, in the GGSW's cell order; every decompressed cell is valid
BrkOK(e, rec) ==
  LET cols == e.rank + 1
      blk == e.dnum * cols
      nl == e.nlwe
      Bk == (e.bound10 + 9) \div 10
  IN /\ Len(rec.stored) = nl * blk /\ Len(rec.drawn) = nl * blk /\ Len(rec.cells) = nl * blk /\ Len(rec.aux.sk_lwe) = nl
     /\ \A k \in 1..(nl * blk) : rec.stored[k] = rec.drawn[k]
     /\ \A i \in 0..(nl - 1) :
          LET ea == [x \in DOMAIN e \cup {"aux"} |-> IF x = "aux" THEN [sk |-> rec.aux.sk, spt |-> [c \in 1..e.n |-> IF c = 1 THEN rec.aux.sk_lwe[i + 1] ELSE 0]]
                                                      ELSE IF x = "layout" THEN "ggsw_c" ELSE e[x]]
          IN \A j \in 1..blk :
               LET ct == rec.cells[i * blk + j]
                   ph == PhaseVec(ct, rec.aux.sk)
                   w == Want(ea, j, ct)
               IN \A x \in 1..e.n : CycDist(ph[x], w[x] % Pow2(ct.size * ct.b), Pow2(ct.size * ct.b)) <= Bk
C19OK(e, rec) ==
  /\ rec.panic = "" /\ rec.ser_same
  /\ CASE e.layout = "glwe_c" -> /\ Len(rec.stored) = 1 /\ rec.stored[1] = rec.master
                                 /\ rec.cells = rec.ref
       [] e.layout = "gglwe_c" -> LET rin == e.rin IN
                                 /\ Len(rec.stored) = e.dnum * rin
                                 /\ \A r \in 0..(e.dnum - 1) : \A c \in 0..(rin - 1) : rec.stored[r * rin + c + 1] = rec.drawn[SeedIdx(e, r, c) + 1]
                                 /\ rec.cells = rec.ref
       [] e.layout \in {"ksk_c", "atk_c", "tsk_c", "tgk_c"} -> WrapOK(e, rec)
       [] e.layout = "brk_c" -> BrkOK(e, rec)
       [] OTHER -> LET cols == e.rank + 1 IN
                   /\ Len(rec.stored) = e.dnum * cols /\ Len(rec.cells) = e.dnum * cols
                   /\ GgswCellsOK(e, rec)
                   /\ \A r \in 0..(e.dnum - 1) : \A c \in 0..(cols - 1) : rec.stored[r * cols + c + 1] = rec.drawn[SeedIdx(e, r, c) + 1]
=============================================================================
