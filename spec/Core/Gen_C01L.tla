------------------------------ MODULE Gen_C01L ------------------------------
(* C01 for LWE ciphertexts: encrypt then decrypt over (dimension, radix, k not a multiple of    *)
(* the radix, plaintext precision below / equal / above the ciphertext's, decryption precision,  *)
(* extreme digits, noise parameters).  One state per descriptor.                                *)
EXTENDS Integers, Sequences, TLC, Json
CONSTANTS Bs, Dims, DimsX, MaxS, PCs
NoiseTable == << <<10, 10>>, <<32, 192>> >>
VARIABLE c
Init == c = [op |-> "none"]
Next == /\ c.op = "none"
        /\ \E b \in Bs, nl \in Dims, s \in 1..MaxS, ps \in 1..(MaxS + 1), pd \in 1..(MaxS + 1), ko \in {0, 1, 2}, pc \in PCs, nz \in 1..2, bd \in Bs :
             /\ ko < b /\ s * b <= 24 /\ ps * b <= 24 /\ pd * bd <= 24
             \* the plaintext decrypted into may use another radix; those shapes take the two extreme noise / plaintext choices only
             /\ (bd # b => (pc = 2 /\ nz = 1 /\ nl \in DimsX))
             /\ c' = [op |-> "lwe_encdec", n |-> 8, nlwe |-> nl, bin |-> b, bkey |-> b, bout |-> b, sin |-> s, skey |-> 2, sout |-> s, rin |-> 1, rout |-> 1, dnum |-> 1, dsize |-> 1,
                      koff |-> ko, ps |-> ps, pdec |-> pd, bdec |-> bd, pc |-> pc, sigma10 |-> NoiseTable[nz][1], bound10 |-> NoiseTable[nz][2]]
Emit == c.op # "none" => PrintT(<<"DESC", ToJson(c)>>)
=============================================================================
