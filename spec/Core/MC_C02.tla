------------------------------- MODULE MC_C02 -------------------------------
(* Spec-level model check for C02 (linearity needs no key): for EVERY secret in {-1,0,1}^N,   *)
(* every pair of small rank-1 ciphertexts over a 3-value digit alphabet, every rotation        *)
(* amount:  the decryption phase commutes exactly with limb-wise addition, subtraction,        *)
(* negation, multiplication by X^k and by (X^k - 1), and with cutting to fewer limbs; and      *)
(* cutting a ciphertext with normalised digits costs at most one unit of the shorter last      *)
(* limb per column (so at most 1 + |s|_1 units in phase).                                      *)
EXTENDS Integers, Sequences, FiniteSets, TLC, Glwe

CONSTANTS N, B, S, KMax, Full

Digits == {-Pow2(B - 1), 0, Pow2(B - 1) - 1}
Polys == [1..N -> Digits]
SKs == [1..N -> {-1, 0, 1}]

VARIABLES sk, a, b, k
vars == <<sk, a, b, k>>
Ct(body, mask) == [rank |-> 1, b |-> B, size |-> S, d |-> <<body, mask>>]
Cols == [1..S -> Polys]
\* to keep the state space finite and small: the mask limbs of b repeat a's body, bodies range freely
Init == /\ sk \in SKs /\ k \in (-KMax)..KMax
        /\ \E ba \in Cols, ma \in {[j \in 1..S |-> [i \in 1..N |-> IF (i + j) % 2 = 0 THEN Pow2(B - 1) - 1 ELSE -Pow2(B - 1)]]} : a = Ct(ba, ma)
        /\ \E bb \in {[j \in 1..S |-> [i \in 1..N |-> IF i = j THEN -Pow2(B - 1) ELSE 0]]}, mb \in (IF Full THEN Cols ELSE [1..S -> [1..N -> {-Pow2(B - 1), Pow2(B - 1) - 1}]]) : b = Ct(bb, mb)
Next == UNCHANGED vars

Map2(F(_, _), x, y) == [rank |-> 1, b |-> B, size |-> S, d |-> [c \in 1..2 |-> [j \in 1..S |-> F(x.d[c][j], y.d[c][j])]]]
Map1(F(_), x) == [rank |-> 1, b |-> B, size |-> S, d |-> [c \in 1..2 |-> [j \in 1..S |-> F(x.d[c][j])]]]
M == Pow2(S * B)
EqMod(v, w) == \A c \in 1..N : (v[c] - w[c]) % M = 0
P(x) == PhaseVec(x, <<sk>>)

AddCommutes == EqMod(P(Map2(PAdd, a, b)), [c \in 1..N |-> P(a)[c] + P(b)[c]])
SubCommutes == EqMod(P(Map2(PSub, a, b)), [c \in 1..N |-> P(a)[c] - P(b)[c]])
NegCommutes == EqMod(P(Map1(PNeg, a)), [c \in 1..N |-> -P(a)[c]])
RotCommutes == EqMod(P(Map1(LAMBDA x : MulXk(x, k), a)), MulXk(P(a), k))
XpM1Commutes == EqMod(P(Map1(LAMBDA x : MulXkMinusOne(x, k), b)), MulXkMinusOne(P(b), k))
\* cutting to S-1 limbs: column-wise the cut value is within one unit (digits are normalised here), hence in phase within 1 + |s|_1
Cut(x) == [rank |-> 1, b |-> B, size |-> S - 1, d |-> [c \in 1..2 |-> SubSeq(x.d[c], 1, S - 1)]]
CutLemma == S >= 2 => \A c \in 1..N :
   LET full == P(a)[c]
       cut == PhaseVec(Cut(a), <<sk>>)[c] * Pow2(B)
       dd == CMod(full - cut, M)
   IN Abs(dd) <= (1 + Norm1(sk)) * Pow2(B)
=============================================================================
