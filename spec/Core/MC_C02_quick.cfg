CONSTANTS
  N = 2
  B = 2
  S = 2
  KMax = 2
  Full = FALSE
INIT Init
NEXT Next
CHECK_DEADLOCK FALSE
INVARIANTS AddCommutes SubCommutes NegCommutes RotCommutes XpM1Commutes CutLemma
