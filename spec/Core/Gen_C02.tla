------------------------------- MODULE Gen_C02 -------------------------------
(* Behaviour generator for C02: random straight-line programs of noise-free ciphertext      *)
(* operations over a register file (TLC simulation mode).  The abstract state is the shape   *)
(* of every register (defined?, limb count, radix); each action is one public call of        *)
(* poulpy-core/src/api/operations.rs with the API's own assertions as enabling conditions    *)
(* (equal radices, in-place forms need a defined destination, ...).  A behaviour of Depth    *)
(* steps is printed once as a JSON program; the harness runs it on the real library and       *)
(* CoreTrace.tla validates every step.                                                       *)
EXTENDS Integers, Sequences, FiniteSets, TLC, Json, IOUtils, SequencesExt

CONSTANTS N, Bs, MaxS, NRegs, Depth, Rank

VARIABLES b0, shape, prog, fam, done
vars == <<b0, shape, prog, fam, done>>

Undef == [def |-> FALSE, size |-> 0, b |-> 0]
Regs == 0..(NRegs - 1)
Sh(r) == shape[r + 1]

Step(op, r, a, bb, k, sz, pb) ==
  [op |-> op, r |-> r, a |-> a, b |-> bb, k |-> k, sz |-> sz, koff |-> 0, rk |-> Rank, pb |-> pb, ps |-> sz, pc |-> 1]
Emit(st, r, size, rb) == /\ prog' = Append(prog, st)
                         /\ shape' = [shape EXCEPT ![r + 1] = [def |-> TRUE, size |-> size, b |-> rb]]
                         /\ fam' = "" /\ UNCHANGED <<b0, done>>

Ks == {-2 * N - 1, -N, -3, -1, 0, 1, 2, N - 1, N, N + 1, 2 * N, 3 * N + 2}
Shifts(size, b) == {0, 1, b - 1, b, b + 1, size * b - 1, size * b, (size + 1) * b + 1, (size + 2) * b}

Init == /\ b0 \in Bs
        /\ shape = [r \in 1..NRegs |-> Undef]
        /\ prog = <<>> /\ fam = "" /\ done = FALSE

Enc == \E r \in Regs, sz \in 1..MaxS : Emit(Step("enc_sk", r, 0, 0, 0, sz, b0), r, sz, b0)
Binary == \E op \in {"add", "sub"}, r, a, c \in Regs, sz \in 1..MaxS :
            /\ Sh(a).def /\ Sh(c).def /\ Sh(a).b = Sh(c).b /\ Sh(a).b = b0
            /\ Emit(Step(op, r, a, c, 0, sz, b0), r, sz, b0)
Unary == \E op \in {"negate", "copy"}, r, a \in Regs, sz \in 1..MaxS :
            /\ Sh(a).def /\ Sh(a).b = b0 /\ Emit(Step(op, r, a, 0, 0, sz, b0), r, sz, b0)
Rot == \E op \in {"rotate", "mul_xp_minus_one"}, r, a \in Regs, sz \in 1..MaxS, k \in Ks :
            /\ Sh(a).def /\ Sh(a).b = b0 /\ Emit(Step(op, r, a, 0, k, sz, b0), r, sz, b0)
AccAssign == \E op \in {"add_assign", "sub_assign", "sub_negate_assign"}, r, a \in Regs :
            /\ Sh(r).def /\ Sh(a).def /\ Sh(r).b = Sh(a).b /\ r # a
            /\ Emit(Step(op, r, a, 0, 0, Sh(r).size, Sh(r).b), r, Sh(r).size, Sh(r).b)
SelfAssign == \E op \in {"negate_assign", "normalize_assign"}, r \in Regs :
            /\ Sh(r).def /\ Emit(Step(op, r, r, 0, 0, Sh(r).size, Sh(r).b), r, Sh(r).size, Sh(r).b)
RotAssign == \E op \in {"rotate_assign", "mul_xp_minus_one_assign"}, r \in Regs, k \in Ks :
            /\ Sh(r).def /\ Emit(Step(op, r, r, 0, k, Sh(r).size, Sh(r).b), r, Sh(r).size, Sh(r).b)
ShiftNew == \E r, a \in Regs, sz \in 1..MaxS :
            /\ Sh(a).def /\ Sh(a).b = b0
            /\ \E k \in Shifts(Sh(a).size, b0) : Emit(Step("lsh", r, a, 0, k, sz, b0), r, sz, b0)
ShiftAssign == \E op \in {"rsh", "lsh_assign"}, r \in Regs :
            /\ Sh(r).def
            /\ \E k \in Shifts(Sh(r).size, Sh(r).b) : Emit(Step(op, r, r, 0, k, Sh(r).size, Sh(r).b), r, Sh(r).size, Sh(r).b)
ShiftAcc == \E op \in {"lsh_add", "lsh_sub"}, r, a \in Regs :
            /\ Sh(r).def /\ Sh(a).def /\ Sh(r).b = Sh(a).b /\ r # a
            /\ \E k \in Shifts(Sh(a).size, Sh(a).b) : Emit(Step(op, r, a, 0, k, Sh(r).size, Sh(r).b), r, Sh(r).size, Sh(r).b)
\* re-normalisation into the same or another radix
Norm == \E r, a \in Regs, sz \in 1..MaxS, pb \in Bs :
            /\ Sh(a).def /\ Emit(Step("normalize", r, a, 0, 0, sz, pb), r, sz, pb)
Dec == \E a \in Regs : /\ Sh(a).def /\ prog' = Append(prog, Step("dec", 0, a, 0, 0, Sh(a).size, Sh(a).b)) /\ fam' = "" /\ UNCHANGED <<shape, b0, done>>

\* two-phase choice so that every operation family is equally likely whatever its number of parameterisations:
\* first the family (uniform), then one of its enabled instances (uniform)
Families == {"Binary", "Unary", "Rot", "AccAssign", "SelfAssign", "RotAssign", "ShiftNew", "ShiftAssign", "ShiftAcc", "Norm"}
Pick == /\ fam = "" /\ fam' \in Families /\ UNCHANGED <<b0, shape, prog, done>>
Do == CASE fam = "Binary" -> Binary [] fam = "Unary" -> Unary [] fam = "Rot" -> Rot [] fam = "AccAssign" -> AccAssign
        [] fam = "SelfAssign" -> SelfAssign [] fam = "RotAssign" -> RotAssign [] fam = "ShiftNew" -> ShiftNew
        [] fam = "ShiftAssign" -> ShiftAssign [] fam = "ShiftAcc" -> ShiftAcc [] fam = "Norm" -> Norm [] OTHER -> FALSE
\* a family with no enabled instance in this state is dropped again
Drop == /\ fam # "" /\ ~ENABLED Do /\ fam' = "" /\ UNCHANGED <<b0, shape, prog, done>>
Finish == /\ Len(prog) = Depth /\ ~done /\ done' = TRUE
          /\ PrintT(<<"PROG", ToJson([n |-> N, b |-> b0, rank |-> Rank, dist |-> "ternary_prob", hw |-> N \div 2, sigma10 |-> 10, bound10 |-> 10, nregs |-> NRegs, prog |-> prog])>>)
          /\ UNCHANGED <<b0, shape, prog, fam>>
Next == \/ /\ Len(prog) < 2 /\ Enc
        \/ /\ Len(prog) >= 2 /\ Len(prog) < Depth - 1 /\ (Pick \/ Do \/ Drop)
        \/ /\ Len(prog) = Depth - 1 /\ Dec
        \/ Finish
Spec == Init /\ [][Next]_vars

=============================================================================
