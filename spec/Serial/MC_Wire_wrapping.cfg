CONSTANTS
  Wrapping = TRUE
  Full = FALSE
INIT Init
NEXT Next
CHECK_DEADLOCK FALSE
INVARIANT Contract
