CONSTANTS
  Wrapping = FALSE
  Full = TRUE
INIT Init
NEXT Next
CHECK_DEADLOCK FALSE
INVARIANT Contract
