CONSTANTS
  Types = {"GLWESwitchingKey", "GLWEAutomorphismKey", "GLWETensorKey", "GGLWEToGGSWKey", "GLWEToLWEKey", "LWEToGLWEKey", "LWESwitchingKey", "GLWEPublicKey", "GLWESwitchingKeyCompressed", "GLWEAutomorphismKeyCompressed", "GLWETensorKeyCompressed", "GGLWEToGGSWKeyCompressed", "GLWEToLWESwitchingKeyCompressed", "LWEToGLWEKeyCompressed", "LWESwitchingKeyCompressed", "BlindRotationKey", "BlindRotationKeyCompressed", "CircuitBootstrappingKey", "BDDKey"}
  Bs = {3, 4}
  Sizes = {2, 3, 4}
  Ranks = {1, 2}
  Rels = {"same", "larger_k", "smaller_k", "larger_dnum", "smaller_dnum"}
INIT Init
NEXT Next
INVARIANT Emit
CHECK_DEADLOCK FALSE
