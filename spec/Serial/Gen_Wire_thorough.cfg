CONSTANTS
  CutMax = 640
  CutStride = 1
INIT Init
NEXT Next
CHECK_DEADLOCK FALSE
