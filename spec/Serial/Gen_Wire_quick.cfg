CONSTANTS
  CutMax = 640
  CutStride = 16
INIT Init
NEXT Next
CHECK_DEADLOCK FALSE
