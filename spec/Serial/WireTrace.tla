------------------------------ MODULE WireTrace ------------------------------
(* Validates the log of real read_from calls against Wire.tla, one state per event;        *)
(* rejected events are collected so that the whole log is examined.                        *)
EXTENDS Integers, Sequences, TLC, Json, IOUtils, Wire

Rec == ndJsonDeserialize(IOEnv.TRACE)
VARIABLES i, bad
vars == <<i, bad>>
Init == i = 1 /\ bad = <<>>
Next == /\ i <= Len(Rec) /\ i' = i + 1
        /\ bad' = IF (IF "kind" \in DOMAIN Rec[i] THEN CompOK(Rec[i]) ELSE ReadOK(Rec[i])) THEN bad ELSE Append(bad, i)
Spec == Init /\ [][Next]_vars
Report == (i = Len(Rec) + 1) => PrintT(<<"VERDICT", Len(Rec), ToJson(bad)>>)
=============================================================================
