-------------------------------- MODULE Wire --------------------------------
(* Wire format of the serialisable layouts and the contract of read_from (C18).            *)
(*                                                                                         *)
(* Grammar: little-endian; a *prefix* of fixed-width fields (and, for the matrix-shaped     *)
(* compressed types, a counted list of 32-byte seeds), then the inner object                *)
(*     vec    :  n cols size max_size len  payload[len]        (u64 each)                   *)
(*     scalar :  n cols len                payload[len]                                      *)
(*     mat    :  n size rows cols_in cols_out len payload[len]                               *)
(* Contract of Read(receiver, stream):                                                     *)
(*   Ok  only if the stream is complete, its header is self-consistent WITHOUT overflow      *)
(*       (the exact product of the dimensions times 8 equals len) and fits the receiver;     *)
(*       then the receiver's metadata equals the stream's;                                   *)
(*   a complete, consistent, fitting stream (with a capacity the buffer can back) MUST be Ok; *)
(*   Err leaves the metadata unchanged ("updated atomically after a successful read");       *)
(*   never a panic; after either outcome the receiver's dimensions are consistent with its   *)
(*   buffer:  limb count within capacity and n*cols*size*8 within the buffer.                *)
EXTENDS Integers, Sequences, BigNat

Types == {"VecZnx", "ScalarZnx", "MatZnx", "LWE", "GLWE", "GLWECompressed", "LWECompressed",
          "GGLWE", "GGSW", "GGLWECompressed", "GGSWCompressed"}

\* fixed prefix width in bytes, and whether a counted seed list follows (its u32 count is the last prefix field)
PrefixLen(t) ==
  CASE t \in {"VecZnx", "ScalarZnx", "MatZnx"} -> 0
    [] t \in {"LWE", "GLWE"} -> 4                       \* base2k
    [] t = "GLWECompressed" -> 4 + 4 + 32                \* base2k rank seed
    [] t = "LWECompressed" -> 4 + 4 + 32                 \* k base2k seed
    [] t \in {"GGLWE", "GGSW"} -> 4 + 4                  \* base2k dsize
    [] t \in {"GGLWECompressed", "GGSWCompressed"} -> 20 \* k base2k dsize rank seed_len
HasSeeds(t) == t \in {"GGLWECompressed", "GGSWCompressed"}
Kind(t) ==
  CASE t \in {"VecZnx", "LWE", "GLWE", "GLWECompressed", "LWECompressed"} -> "vec"
    [] t = "ScalarZnx" -> "scalar"
    [] OTHER -> "mat"
InnerHdrLen(k) == CASE k = "vec" -> 40 [] k = "scalar" -> 24 [] k = "mat" -> 48
\* byte offsets (within the inner header) of the dimension fields whose product times 8 must equal len
DimOffs(k) == CASE k = "vec" -> <<0, 8, 16>> [] k = "scalar" -> <<0, 8>> [] k = "mat" -> <<0, 8, 16, 24, 32>>
LenOff(k) == InnerHdrLen(k) - 8

Bytes(b, off, w) == SubSeq(b, off + 1, off + w)
Has(b, off, w) == off + w <= Len(b)

\* number of seeds announced by the stream (BigNat), and the offset of the inner header
SeedCount(t, b) == IF HasSeeds(t) /\ Has(b, 16, 4) THEN Bytes(b, 16, 4) ELSE <<>>
SeedsSmall(t, b) == ~HasSeeds(t) \/ (Has(b, 16, 4) /\ IsSmall(Bytes(b, 16, 4)) /\ ToNat(Bytes(b, 16, 4)) <= 6)
InnerOff(t, b) == PrefixLen(t) + (IF HasSeeds(t) THEN 32 * ToNat(Bytes(b, 16, 4)) ELSE 0)

RECURSIVE ProdDims(_, _, _, _)
ProdDims(b, io, offs, i) == IF i > Len(offs) THEN <<8>> ELSE BMul(Bytes(b, io + offs[i], 8), ProdDims(b, io, offs, i + 1))

\* everything the contract needs to know about a header (of a stream, or of a re-serialised receiver)
Parsed(t, b) ==
  LET k == Kind(t)
      ok0 == Has(b, 0, PrefixLen(t)) /\ SeedsSmall(t, b)
      io == IF ok0 THEN InnerOff(t, b) ELSE 0
      ok == ok0 /\ Has(b, io, InnerHdrLen(k))
  IN [present |-> ok,
      io |-> io,
      hdrlen |-> io + InnerHdrLen(k),
      len |-> IF ok THEN Bytes(b, io + LenOff(k), 8) ELSE <<>>,
      prod |-> IF ok THEN ProdDims(b, io, DimOffs(k), 1) ELSE <<>>,
      size |-> IF ok /\ k = "vec" THEN Bytes(b, io + 16, 8) ELSE <<>>,
      maxsize |-> IF ok /\ k = "vec" THEN Bytes(b, io + 24, 8) ELSE <<>>,
      capprod |-> IF ok /\ k = "vec"
                  THEN BMul(BMul(Bytes(b, io, 8), Bytes(b, io + 8, 8)), BMul(Bytes(b, io + 24, 8), <<8>>)) ELSE <<>>]

\* the receiver's dimensions are consistent with its buffer of `cap` bytes
LayoutOK(t, b, cap) ==
  LET p == Parsed(t, b) IN
  /\ p.present
  /\ BLe(p.prod, FromNat(cap))
  \* limb count within capacity, and the capacity itself backed by the buffer (set_size(max_size) is a safe call)
  /\ Kind(t) = "vec" => (BLe(p.size, p.maxsize) /\ BLe(p.capprod, FromNat(cap)))

\* same metadata: every header byte equal, except (vec) that a stored capacity may be clamped
SameMeta(t, a, b) ==
  LET pa == Parsed(t, a) pb == Parsed(t, b) IN
  /\ pa.present /\ pb.present /\ pa.hdrlen = pb.hdrlen
  /\ \A i \in 1..pa.hdrlen :
        (Kind(t) = "vec" /\ i > pa.io + 24 /\ i <= pa.io + 32) \/ a[i] = b[i]

ReadOK(e) ==
  LET t == e.type
      st == Parsed(t, e.hdr)
      complete == st.present /\ BLe(BAdd(FromNat(st.hdrlen), st.len), FromNat(e.slen))
      consistent == st.present /\ BEq(st.prod, st.len)
      fits == st.present /\ BLe(st.len, FromNat(e.cap))
      capok == Kind(t) # "vec" \/ (st.present /\ BLe(st.size, st.maxsize) /\ BLe(st.capprod, FromNat(e.cap)))
      mayok == complete /\ consistent /\ fits
      mustok == mayok /\ capok
  IN /\ e.outcome # "panic"
     /\ e.outcome = "ok" => mayok /\ e.post_ok /\ SameMeta(t, e.post, e.hdr)
     /\ mustok => e.outcome = "ok"
     /\ e.outcome = "err" => e.post_ok /\ e.post = e.pre
     /\ e.post_ok /\ LayoutOK(t, e.post, e.cap)
     \* round trip of an untouched stream into a receiver that can hold it
     /\ (~e.mutated /\ e.cut = -1 /\ e.outcome = "ok") => e.roundtrip

\* ---- wrapper and composite keys (no grammar modelled): grammar-free consequences of the same contract.
\*   clean stream: never a panic; a receiver of the sender's shape accepts it; whenever ANY receiver accepts it, re-serialising the
\*   receiver gives the stream back byte for byte (an equal object -- in particular not a longer stream);
\*   every truncation point: an error, after which the receiver still serialises (to the same length when it had the sender's shape);
\*   every 8-byte word of the first 512 bytes replaced by each dictionary value: Ok or Err, never a panic, receiver still serialises.
CompOK(e) ==
  /\ e.clean.outcome \in {"ok", "err"} /\ e.clean.post_ok
  /\ (e.rel = "same" => e.clean.outcome = "ok")
  /\ (e.clean.outcome = "ok" => e.clean.roundtrip)
  /\ e.cuts.total > 0 /\ e.cuts.err = e.cuts.total
  /\ e.muts.total > 0 /\ e.muts.ok + e.muts.err = e.muts.total
=============================================================================
