------------------------------ MODULE Gen_Comp ------------------------------
(* C18 for the wrapper and composite serialisable types (switching / automorphism / tensor /  *)
(* GGLWE-to-GGSW / LWE-related keys, their compressed forms, the public key, blind-rotation    *)
(* keys, circuit-bootstrapping and BDD key bundles): sender shape x receiver relation (same,    *)
(* one more limb, one limb fewer, one more row, one row fewer).  The harness sweeps every       *)
(* truncation point and the header dictionary for each.  One state per descriptor.             *)
EXTENDS Integers, Sequences, TLC, Json
CONSTANTS Types, Bs, Sizes, Ranks, Rels

VARIABLE c
Sh(b, s, r, dn, ds, ko) == [n |-> 8, b |-> b, k |-> s * b - ko, rank |-> r, dnum |-> dn, dsize |-> ds, nlwe |-> 2, ksglwe |-> 0]
Init == c = [kind |-> "none"]
Next == /\ c.kind = "none"
        /\ \E t \in Types, b \in Bs, s \in Sizes, r \in Ranks, dn \in 1..2, ds \in 1..2, ko \in {0, 1}, rel \in Rels, kg \in {0, 1} :
             /\ dn * ds <= s /\ s > ds /\ (t \in {"BlindRotationKey", "BlindRotationKeyCompressed", "GLWEToLWEKey", "LWEToGLWEKey", "LWESwitchingKey", "GLWEToLWESwitchingKeyCompressed",
                                          "LWEToGLWEKeyCompressed", "LWESwitchingKeyCompressed", "GLWEPublicKey"} => ds = 1)
             /\ (t = "GLWEPublicKey" => dn = 1) /\ (t \in {"LWESwitchingKey", "LWESwitchingKeyCompressed"} => r = 1)
             /\ (t # "BDDKey" => kg = 0)
             /\ (rel \in {"smaller_k"} => s - 1 > ds /\ dn * ds <= s - 1) /\ (rel = "smaller_dnum" => dn > 1)
             /\ LET sh == [Sh(b, s, r, dn, ds, ko) EXCEPT !.ksglwe = kg]
                    rsh == CASE rel = "same" -> sh
                             [] rel = "larger_k" -> [sh EXCEPT !.k = sh.k + b]
                             [] rel = "smaller_k" -> [sh EXCEPT !.k = sh.k - b]
                             [] rel = "larger_dnum" -> [sh EXCEPT !.dnum = dn + 1, !.k = (IF (dn + 1) * ds <= s THEN sh.k ELSE sh.k + b * ds)]
                             [] OTHER -> [sh EXCEPT !.dnum = dn - 1]
                IN c' = [kind |-> "comp", type |-> t, sh |-> sh, rsh |-> rsh, rel |-> rel]
Emit == c.kind # "none" => PrintT(<<"DESC", ToJson(c)>>)
=============================================================================
