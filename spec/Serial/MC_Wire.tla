------------------------------- MODULE MC_Wire -------------------------------
(* Spec-level model check for C18 on the vec grammar (n cols size max_size len payload):    *)
(* a reference reader -- checked arithmetic, validate, read, then commit, clamp the stored   *)
(* capacity to the buffer -- satisfies the contract ReadOK of Wire.tla for EVERY header over *)
(* the boundary dictionary, every truncation class and receivers smaller / equal / larger.   *)
(* With Wrapping = TRUE the reader computes the expected length modulo 2^64 and commits the  *)
(* stream's max_size unchecked (the behaviour before the fix): TLC must then REFUTE ReadOK   *)
(* (MC_Wire_wrapping.cfg, expected violation) -- the contract is not vacuous.                *)
EXTENDS Integers, Sequences, FiniteSets, TLC, Wire

CONSTANTS Wrapping, Full

U64(x) == [j \in 1..8 |-> IF j <= Len(FromNat(x)) THEN FromNat(x)[j] ELSE 0]
P2(k) == [j \in 1..8 |-> IF j = (k \div 8) + 1 THEN 2 ^ (k % 8) ELSE 0]
Pad8(a) == [j \in 1..8 |-> IF j <= Len(a) THEN a[j] ELSE 0]
BAddPad(a, b) == Pad8(BAdd(a, b))
Dict == {U64(0), U64(1), U64(2), U64(8), P2(31), P2(61), [j \in 1..8 |-> 255], U64(256), BAddPad(P2(61), U64(8))}
Mod64(a) == Pad8(SubSeq(a \o <<0, 0, 0, 0, 0, 0, 0, 0>>, 1, 8))

VARIABLES n, cols, size, maxsize, len, slen, cap
vars == <<n, cols, size, maxsize, len, slen, cap>>

DictQ == {U64(0), U64(8), P2(61), [j \in 1..8 |-> 255], BAddPad(P2(61), U64(8))}
Init == /\ n \in (IF Full THEN Dict ELSE DictQ) /\ cols \in {U64(1), U64(2), P2(32), P2(61)} /\ size \in {U64(0), U64(2), P2(61), BAddPad(P2(61), U64(2))}
        /\ maxsize \in {U64(0), U64(1), U64(2), U64(3), P2(61)}
        /\ len \in {U64(0), U64(256), U64(128), P2(61)}
        /\ slen \in (IF Full THEN {0, 17, 40, 41, 40 + 128, 40 + 255, 40 + 256} ELSE {17, 40, 40 + 255, 40 + 256})
        /\ cap \in (IF Full THEN {128, 256, 384} ELSE {128, 256})
Next == UNCHANGED vars

Hdr == n \o cols \o size \o maxsize \o len
PreHdr == U64(8) \o U64(2) \o U64(cap \div 128) \o U64(cap \div 128) \o U64(cap)      \* the receiver as allocated
Exact == BMul(BMul(n, cols), BMul(size, <<8>>))
Expected == IF Wrapping THEN Mod64(Exact) ELSE Exact
HeaderRead == slen >= 40
Valid == /\ HeaderRead /\ BEq(Expected, len) /\ (Wrapping \/ BLe(size, maxsize))
         /\ BLe(len, FromNat(cap)) /\ BLe(BAdd(FromNat(40), len), FromNat(slen))
\* capacity the buffer can back: floor(cap / (n*cols*8)), computed on small values only (when Valid and non-wrapping n*cols*8 <= cap or size = 0)
LimbBytes == BMul(BMul(n, cols), <<8>>)
Clamp == IF Wrapping THEN maxsize
         ELSE IF BEq(LimbBytes, <<>>) THEN maxsize
         ELSE IF ~IsSmall(LimbBytes) THEN U64(0)
         ELSE LET q == cap \div ToNat(LimbBytes) IN IF BLe(maxsize, FromNat(q)) THEN maxsize ELSE U64(q)
Post == IF Valid THEN n \o cols \o size \o Clamp \o len ELSE PreHdr
Event == [type |-> "VecZnx", hdr |-> SubSeq(Hdr, 1, IF slen < 40 THEN slen ELSE 40), slen |-> slen, cap |-> cap,
          outcome |-> IF Valid THEN "ok" ELSE "err", pre |-> PreHdr, post |-> Post, post_ok |-> TRUE,
          mutated |-> TRUE, cut |-> 0, sh |-> 0, rsh |-> 1, roundtrip |-> FALSE]
Contract == ReadOK(Event)
=============================================================================
