------------------------------ MODULE Gen_Wire ------------------------------
(* Behaviour generator for C18: for every serialisable type of the grammar in Wire.tla,     *)
(*   - every truncation point of a valid stream,                                            *)
(*   - every header field (offsets derived from the grammar) replaced by each value of the  *)
(*     boundary dictionary {0, 1, 2^31, 2^61, 2^64-1, v+1, v-1} and by the combinations      *)
(*     whose exact product overflows usize (v + 2^61: the wrapped product equals the         *)
(*     untouched len field),                                                                *)
(*   - receivers equal to, larger and smaller than the incoming object.                     *)
(* The harness is grammar-free: it applies the byte edits, calls the real read_from and logs *)
(* header bytes; WireTrace.tla re-parses them.                                              *)
EXTENDS Integers, Sequences, FiniteSets, TLC, Json, IOUtils, SequencesExt, Wire

CONSTANTS CutMax, CutStride

Sh(k) == [n |-> 8, cols |-> 2, size |-> k \div 4, b |-> 4, k |-> k, rank |-> 1, rank_in |-> 1, dnum |-> 1, dsize |-> 1,
          rows |-> 2, cin |-> 1, cout |-> 2]
Base == Sh(8)
\* a receiver with room to spare and *different* wrapper metadata (radix 3, k = 9, dsize 2 where it applies)
Bigger == [Sh(12) EXCEPT !.b = 3, !.k = 9, !.size = 3]
Smaller == [Sh(8) EXCEPT !.n = 4]

U64(x) == [j \in 1..8 |-> IF j <= Len(FromNat(x)) THEN FromNat(x)[j] ELSE 0]
P2(k) == [j \in 1..8 |-> IF j = (k \div 8) + 1 THEN 2 ^ (k % 8) ELSE 0]      \* 2^k as 8 LE bytes
AllOnes(w) == [j \in 1..w |-> 255]
Dict64 == { [kind |-> "set", val |-> U64(0)], [kind |-> "set", val |-> U64(1)], [kind |-> "set", val |-> P2(31)],
            [kind |-> "set", val |-> P2(61)], [kind |-> "set", val |-> AllOnes(8)],
            [kind |-> "add", val |-> U64(1)], [kind |-> "add", val |-> AllOnes(8)],        \* v+1, v-1 (mod 2^64)
            [kind |-> "add", val |-> P2(61)], [kind |-> "add", val |-> P2(32)] }           \* products that overflow usize
U32(x) == [j \in 1..4 |-> IF j <= Len(FromNat(x)) THEN FromNat(x)[j] ELSE 0]
Dict32 == { [kind |-> "set", val |-> U32(0)], [kind |-> "set", val |-> U32(1)], [kind |-> "set", val |-> <<0, 0, 0, 128>>],
            [kind |-> "set", val |-> AllOnes(4)], [kind |-> "add", val |-> U32(1)], [kind |-> "add", val |-> AllOnes(4)] }

\* seeds actually present in a valid object of the base shape (needed to locate the inner header)
Seeds(t) == CASE t = "GGLWECompressed" -> 1 [] t = "GGSWCompressed" -> 2 [] OTHER -> 0
InnerAt(t) == PrefixLen(t) + 32 * Seeds(t)
\* u32 prefix fields: every 4-byte slot of the prefix that is not seed material
Pre32(t) == CASE t \in {"GLWECompressed", "LWECompressed"} -> {0, 4}
              [] OTHER -> {o \in 0..(PrefixLen(t) - 1) : o % 4 = 0}
Inner64(t) == {InnerAt(t) + 8 * j : j \in 0..((InnerHdrLen(Kind(t)) \div 8) - 1)}

\* receivers of the same byte capacity but another (n, cols, size) factorisation: the incoming object fits,
\* yet "limbs" mean something else in the receiver's old shape
Wide == [Sh(4) EXCEPT !.n = 16]          \* n = 16, one limb  (vec: 16*2*1*8 = 8*2*2*8 bytes)
Tall == [Sh(16) EXCEPT !.n = 4]          \* n = 4, four limbs
D(t, rsh, muts, cut) == [type |-> t, sh |-> Base, rsh |-> rsh, muts |-> muts, cut |-> cut]
Mut(off, m) == [off |-> off, kind |-> m.kind, val |-> m.val]

Cuts == {c \in 0..CutMax : c < 64 \/ c % CutStride = 0}
Truncations == { D(t, rsh, <<>>, c) : t \in Types, rsh \in {Base, Bigger}, c \in Cuts }
VecTypes == {t \in Types : Kind(t) = "vec" /\ t # "LWE" /\ t # "LWECompressed"}
RoundTrips == { D(t, rsh, <<>>, -1) : t \in Types, rsh \in {Base, Bigger, Smaller} }
              \cup { D(t, rsh, <<>>, -1) : t \in VecTypes, rsh \in {Wide, Tall} }
\* a writer whose capacity exceeds its active size (max_size field raised) read into reshaped receivers
Reshaped == UNION { { D(t, rsh, << Mut(InnerAt(t) + 24, m) >>, -1) : rsh \in {Wide, Tall, Base, Bigger},
                        m \in {[kind |-> "add", val |-> U64(1)], [kind |-> "add", val |-> U64(2)], [kind |-> "set", val |-> P2(31)]} } : t \in VecTypes }
Field64 == UNION { { D(t, rsh, << Mut(o, m) >>, -1) : o \in Inner64(t), m \in Dict64, rsh \in {Base, Bigger} } : t \in Types }
Field32 == UNION { { D(t, Base, << Mut(o, m) >>, -1) : o \in Pre32(t), m \in Dict32 } : t \in Types }
\* two fields at once: a dimension pushed over the usize edge together with len forced to what the wrapped product gives
Pairs == UNION { { D(t, Base, << Mut(InnerAt(t), [kind |-> "set", val |-> P2(61)]),
                                Mut(InnerAt(t) + LenOff(Kind(t)), [kind |-> "set", val |-> U64(0)]) >>, -1),
                   D(t, Base, << Mut(InnerAt(t), [kind |-> "set", val |-> P2(32)]),
                                Mut(InnerAt(t) + 8, [kind |-> "set", val |-> P2(32)]),
                                Mut(InnerAt(t) + LenOff(Kind(t)), [kind |-> "set", val |-> U64(0)]) >>, -1) } : t \in Types }

Descs == Truncations \cup RoundTrips \cup Reshaped \cup Field64 \cup Field32 \cup Pairs

ASSUME ndJsonSerialize(IOEnv.OUT, SetToSeq(Descs))
ASSUME PrintT(<<"GENERATED", Cardinality(Descs)>>)

VARIABLE c
Init == c \in Descs
Next == UNCHANGED c
=============================================================================
