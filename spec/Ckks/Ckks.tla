--------------------------------- MODULE Ckks ---------------------------------
(* The CKKS evaluator's metadata state machine (poulpy-ckks, C16).                              *)
(* A ciphertext register holds  maxk (stored torus bits), log_delta ld, log_budget lb; the        *)
(* encrypted value v sits at the torus position v * 2^(-lb) with ld fractional bits below it,     *)
(* and the evaluator must keep  ld + lb <= maxk  (MetaFits).  Every operation either returns      *)
(* Ok with the metadata given by the bit-level algebra below, or the error value named here;      *)
(* it never panics.  The algebra is the one the crate documents in its operation families:        *)
(*   offset(dst, x)      = max(0, effective_k(x) - maxk(dst))     (bits dropped into a small dst)   *)
(*   unary  (neg, conj, rotate, mul_pow2):  (ld, lb - offset)                                       *)
(*   div_pow2 into: (ld + bits, lb - bits - offset);  in place: (ld, lb - bits)                     *)
(*   rescale by k: (ld, lb - k - offset)   (offset of the rescaled value into the destination)    *)
(*   add / sub: (min ld, min lb - offset),  offset from the smaller effective_k                   *)
(*   mul / square: lb0 = min lb - max ld (underflow error if negative), ld = min ld,                *)
(*                 offset = max(0, lb0 + ld - maxk(dst)),  (ld, lb0 - offset)                       *)
(*   plaintext operands carry their own precision (pld, plb); stored width pk = ceil((pld+plb)/B)*B:  *)
(*   ct +- vector plaintext: (ld, lb - offset), alignment error unless lb' + pld >= pk              *)
(*   ct +- constant:         (ld, lb - offset)   (the constant is encoded at lb' + pld bits)         *)
(*   ct * plaintext (vector or constant): lb0 = lb - pld (underflow error if negative), ld kept,    *)
(*                 offset = max(0, lb0 + ld - maxk(dst)),  (ld, lb0 - offset)                       *)
(*   fused forms are compositions:  mul_add(dst, a, y) = add_assign(dst, mul_into(tmp like dst, a, y)) *)
(*   add_many = add_into of the first two, then add_assign of the others (one input: unary copy)     *)
(*   plaintext-weighted dot products = mul_into of the first pair, then fused mul-adds of the others  *)
(*   align(a, b) = rescale_assign of the one with the larger budget by the difference                *)
(* Alongside, a worst-case model of the value magnitude (mag, log2) and of the slot error          *)
(* (el, log2) lets the trace validator bound the observed error by something proportional to       *)
(* 2^-log_delta.                                                                                  *)
EXTENDS Integers, Sequences, TLC

CONSTANTS B,        \* limb radix (bits)
          LogN      \* log2 of the ring degree

Max2(a, b) == IF a >= b THEN a ELSE b
Min2(a, b) == IF a <= b THEN a ELSE b
DivCeil2(a, b) == (a + b - 1) \div b
Ek(r) == r.ld + r.lb
None == [st |-> "none", maxk |-> 0, ld |-> 0, lb |-> 0, mag |-> 0, el |-> 0]
S0 == LogN + 6                      \* fresh / key-switch error: 2^(-ld + S0)

ErrCap == "err:InsufficientHomomorphicCapacity"
ErrKey == "err:MissingAutomorphismKey"
ErrMul == "err:MultiplicationPrecisionUnderflow"
ErrAlign == "err:PlaintextAlignmentImpossible"
ErrLimb == "err:LimbReallocationShrinksBelowMetadata"
ErrBase == "err:PlaintextBase2KMismatch"

Ok(r) == [status |-> "ok", reg |-> r]
Err(kind, d) == [status |-> kind, reg |-> [d EXCEPT !.st = "bad"]]
HasKey(rot) == rot \in {1, 2}
Fresh(ld) == S0 - ld
With(d, ld, lb, mag, el) == [d EXCEPT !.st = "ok", !.ld = ld, !.lb = lb, !.mag = mag, !.el = el]

\* ---- register-level outcomes (shared by the plain and the fused operations)
OffU(d, a) == Max2(0, Ek(a) - d.maxk)
\* a plaintext operand: precision pld, stored width pk, magnitude pmag (log2), quantisation error 2^(S0 - pld)
Pt(s) == [ld |-> s.pld, pk |-> DivCeil2(s.pld + s.pplb, B) * B, mag |-> s.pmag, el |-> S0 - s.pld]
AddKeepsMin == TRUE          \* overridden by MC_Ckks_neg.cfg (negative control: the larger budget survives an addition)
AddOut(d, a, b) ==
  LET off == Max2(0, Min2(Ek(a), Ek(b)) - d.maxk)
      lb == IF AddKeepsMin THEN Min2(a.lb, b.lb) ELSE Max2(a.lb, b.lb)
  IN IF off > lb THEN Err(ErrCap, d) ELSE Ok(With(d, Min2(a.ld, b.ld), lb - off, Max2(a.mag, b.mag) + 1, Max2(a.el, b.el) + 1))
AddAssignOut(d, b) == Ok(With(d, Min2(d.ld, b.ld), Min2(d.lb, b.lb), Max2(d.mag, b.mag) + 1, Max2(d.el, b.el) + 1))
MulOut(d, x, y) ==
  LET lb0 == Min2(x.lb, y.lb) - Max2(x.ld, y.ld)
      ld == Min2(x.ld, y.ld)
      off == Max2(0, lb0 + ld - d.maxk)
  IN IF lb0 < 0 THEN Err(ErrMul, d)
     ELSE IF off > lb0 THEN Err(ErrCap, d)
     ELSE Ok(With(d, ld, lb0 - off, x.mag + y.mag, Max2(Max2(x.el + y.mag, y.el + x.mag), Fresh(ld)) + 2))
\* ct (+-) vector plaintext: the ciphertext is moved into dst first, then the plaintext is aligned on it
AddPtvOut(d, a, p, into) ==
  LET off == IF into THEN OffU(d, a) ELSE 0
      lb1 == a.lb - off
  IN IF off > a.lb THEN Err(ErrCap, d)
     ELSE IF lb1 + p.ld < p.pk THEN Err(ErrAlign, d)
     ELSE Ok(With(d, a.ld, lb1, Max2(a.mag, p.mag) + 1, Max2(a.el, p.el) + 1))
\* a vector plaintext already in limb form (znx) carries its own radix pb: its stored width is rounded with pb, and adding it
\* to a ciphertext of another radix is refused (after the capacity check, before the alignment check)
PtZ(s) == [ld |-> s.pld, pk |-> DivCeil2(s.pld + s.pplb, s.pb) * s.pb, mag |-> s.pmag, el |-> S0 - s.pld]
AddPtzOut(d, a, s, into) ==
  LET off == IF into THEN OffU(d, a) ELSE 0 IN
  IF off > a.lb THEN Err(ErrCap, d)
  ELSE IF s.pb # B THEN Err(ErrBase, d)
  ELSE AddPtvOut(d, a, PtZ(s), into)
AddPtcOut(d, a, p, into) ==
  LET off == IF into THEN OffU(d, a) ELSE 0
  IN IF off > a.lb THEN Err(ErrCap, d) ELSE Ok(With(d, a.ld, a.lb - off, Max2(a.mag, p.mag) + 1, Max2(a.el, -p.ld) + 1))
AddPtczOut(d, a, s, into) ==
  LET off == IF into THEN OffU(d, a) ELSE 0 IN
  IF off > a.lb THEN Err(ErrCap, d)
  ELSE IF s.kz = 1 THEN Err(ErrAlign, d)
  ELSE AddPtcOut(d, a, Pt(s), into)
MulPtOut(d, x, p) ==
  LET lb0 == x.lb - p.ld
      off == Max2(0, lb0 + x.ld - d.maxk)
  IN IF lb0 < 0 THEN Err(ErrMul, d)
     ELSE IF off > lb0 THEN Err(ErrCap, d)
     ELSE Ok(With(d, x.ld, lb0 - off, x.mag + p.mag, Max2(Max2(x.el + p.mag, p.el + x.mag), Fresh(x.ld)) + 2))
\* the temporary of the fused forms is laid out like the destination
TmpLike(d) == [None EXCEPT !.st = "empty", !.maxk = d.maxk]
Fused(d, t, sub) == IF t.status # "ok" THEN Err(t.status, d) ELSE AddAssignOut(d, t.reg)
UnaryCopyOut(d, a) == IF OffU(d, a) > a.lb THEN Err(ErrCap, d) ELSE Ok(With(d, a.ld, a.lb - OffU(d, a), a.mag, a.el))

\* outcome of one step on the register file regs (a function 0..3 -> register); s = the step record
Outcome(regs, s) ==
  LET d == regs[s.d]
      a == regs[s.a]
      b == regs[s.b]
      offU == Max2(0, Ek(a) - d.maxk)
  IN
  CASE s.op = "alloc" -> Ok([None EXCEPT !.st = "empty", !.maxk = s.k])
    [] s.op = "enc" ->
         IF s.k < s.ld THEN [status |-> ErrCap, reg |-> None]
         ELSE IF s.k < DivCeil2(s.ld + s.plb, B) * B THEN [status |-> ErrAlign, reg |-> None]
         ELSE Ok([st |-> "ok", maxk |-> s.k, ld |-> s.ld, lb |-> s.k - s.ld, mag |-> 0, el |-> Fresh(s.ld)])
    [] s.op = "neg_into" -> IF offU > a.lb THEN Err(ErrCap, d) ELSE Ok(With(d, a.ld, a.lb - offU, a.mag, a.el))
    [] s.op = "neg_assign" -> Ok(d)
    [] s.op \in {"conj_into", "rot_into"} ->
         IF s.op = "rot_into" /\ ~HasKey(s.rot) THEN Err(ErrKey, d)
         ELSE IF offU > a.lb THEN Err(ErrCap, d) ELSE Ok(With(d, a.ld, a.lb - offU, a.mag, Max2(a.el, Fresh(a.ld)) + 1))
    [] s.op \in {"conj_assign", "rot_assign"} ->
         IF s.op = "rot_assign" /\ ~HasKey(s.rot) THEN Err(ErrKey, d) ELSE Ok([d EXCEPT !.el = Max2(d.el, Fresh(d.ld)) + 1])
    [] s.op = "mul_pow2_into" -> IF offU > a.lb THEN Err(ErrCap, d) ELSE Ok(With(d, a.ld, a.lb - offU, a.mag + s.bits, a.el + s.bits))
    [] s.op = "mul_pow2_assign" -> Ok([d EXCEPT !.mag = d.mag + s.bits, !.el = d.el + s.bits])
    [] s.op = "div_pow2_into" -> IF s.bits + offU > a.lb THEN Err(ErrCap, d)
                                 ELSE Ok(With(d, a.ld + s.bits, a.lb - s.bits - offU, a.mag - s.bits, Max2(a.el - s.bits, Fresh(a.ld + s.bits))))
    [] s.op = "div_pow2_assign" -> IF s.bits > d.lb THEN Err(ErrCap, d) ELSE Ok([d EXCEPT !.lb = d.lb - s.bits, !.mag = d.mag - s.bits, !.el = Max2(d.el - s.bits, Fresh(d.ld))])      \* the precision stays ld: smaller values are not resolved
    [] s.op = "rescale_into" ->
         LET lb1 == a.lb - s.bits
             off == Max2(0, lb1 + a.ld - d.maxk)
         IN IF s.bits > a.lb \/ off > lb1 THEN Err(ErrCap, d) ELSE Ok(With(d, a.ld, lb1 - off, a.mag, a.el))
    [] s.op = "rescale_assign" -> IF s.bits > d.lb THEN Err(ErrCap, d) ELSE Ok([d EXCEPT !.lb = d.lb - s.bits])
    [] s.op \in {"add_into", "sub_into"} -> AddOut(d, a, b)
    [] s.op \in {"add_assign", "sub_assign"} -> AddAssignOut(d, b)
    [] s.op \in {"mul_into", "mul_assign", "square_into", "square_assign"} ->
         LET x == IF s.op \in {"mul_assign", "square_assign"} THEN d ELSE a
             y == IF s.op = "square_into" THEN a ELSE IF s.op = "square_assign" THEN d ELSE b
         IN MulOut(d, x, y)
    [] s.op \in {"add_ptv_into", "sub_ptv_into"} -> AddPtvOut(d, a, Pt(s), TRUE)
    [] s.op \in {"add_ptv_assign", "sub_ptv_assign"} -> AddPtvOut(d, d, Pt(s), FALSE)
    [] s.op \in {"add_ptz_into", "sub_ptz_into"} -> AddPtzOut(d, a, s, TRUE)
    [] s.op \in {"add_ptz_assign", "sub_ptz_assign"} -> AddPtzOut(d, d, s, FALSE)
    [] s.op = "mul_ptz_into" -> IF s.pb # B THEN Err(ErrBase, d) ELSE MulPtOut(d, a, PtZ(s))
    [] s.op = "mul_ptz_assign" -> IF s.pb # B THEN Err(ErrBase, d) ELSE MulPtOut(d, d, PtZ(s))
    [] s.op \in {"mul_add_ptz", "mul_sub_ptz"} -> IF s.pb # B THEN Err(ErrBase, d) ELSE Fused(d, MulPtOut(TmpLike(d), a, PtZ(s)), FALSE)
    \* constants in limb form: for add / sub the caller encodes them at the destination's budget (s.kz = 1: one limb above it, refused)
    [] s.op \in {"add_ptcz_into", "sub_ptcz_into"} -> AddPtczOut(d, a, s, TRUE)
    [] s.op \in {"add_ptcz_assign", "sub_ptcz_assign"} -> AddPtczOut(d, d, s, FALSE)
    [] s.op = "mul_ptcz_into" -> MulPtOut(d, a, Pt(s))
    [] s.op = "mul_ptcz_assign" -> MulPtOut(d, d, Pt(s))
    [] s.op \in {"mul_add_ptcz", "mul_sub_ptcz"} -> Fused(d, MulPtOut(TmpLike(d), a, Pt(s)), FALSE)
    \* plaintext-weighted sums <(a, c), (w0, w1)> (s.bits = number of terms): the first product goes into dst, the others into a
    \* temporary laid out like dst and are added in place
    [] s.op \in {"dot_ptv", "dot_ptc", "dot_ptcz", "dot_ptz"} ->
         LET P == IF s.op = "dot_ptz" THEN PtZ(s) ELSE Pt(s)
             t0 == MulPtOut(d, a, P)
         IN IF s.op = "dot_ptz" /\ s.pb # B THEN Err(ErrBase, d)
            ELSE IF s.bits = 1 \/ t0.status # "ok" THEN t0
            ELSE Fused(t0.reg, MulPtOut(TmpLike(d), regs[s.c], P), FALSE)
    \* align(a, b): the register with the larger budget is rescaled down to the other's; s.d names it (the other is untouched)
    [] s.op = "align" -> Ok([d EXCEPT !.lb = Min2(a.lb, b.lb)])
    [] s.op \in {"add_ptc_into", "sub_ptc_into"} -> AddPtcOut(d, a, Pt(s), TRUE)
    [] s.op \in {"add_ptc_assign", "sub_ptc_assign"} -> AddPtcOut(d, d, Pt(s), FALSE)
    [] s.op \in {"mul_ptv_into", "mul_ptc_into"} -> MulPtOut(d, a, Pt(s))
    [] s.op \in {"mul_ptv_assign", "mul_ptc_assign"} -> MulPtOut(d, d, Pt(s))
    [] s.op \in {"mul_add_ct", "mul_sub_ct"} -> Fused(d, MulOut(TmpLike(d), a, b), s.op = "mul_sub_ct")
    [] s.op \in {"mul_add_ptv", "mul_sub_ptv", "mul_add_ptc", "mul_sub_ptc"} -> Fused(d, MulPtOut(TmpLike(d), a, Pt(s)), FALSE)
    [] s.op = "add_many" ->      \* inputs a, b and (when s.bits = 3) register s.c as well; s.bits = number of inputs
         IF s.bits = 1 THEN UnaryCopyOut(d, a)
         ELSE LET t == AddOut(d, a, b) IN
              IF s.bits = 2 \/ t.status # "ok" THEN t ELSE AddAssignOut(t.reg, regs[s.c])
    [] s.op = "dot_ct" ->        \* <a, c> . <b, rot-register>: pairs (a, b) and (c, regs[s.bits]); two paths as in the library
         LET a2 == regs[s.c]
             b2 == regs[s.bits]
         IN IF a.ld = a2.ld /\ b.ld = b2.ld
            THEN \* uniform precisions: operands brought to their smallest budget, one accumulated tensor product, one relinearisation
                 MulOut(d, [a EXCEPT !.lb = Min2(a.lb, a2.lb), !.mag = Max2(a.mag, a2.mag), !.el = Max2(a.el, a2.el) + 1],
                           [b EXCEPT !.lb = Min2(b.lb, b2.lb), !.mag = Max2(b.mag, b2.mag) + 1, !.el = Max2(b.el, b2.el) + 1])
            ELSE \* mixed precisions: product of the first pair into dst, then products into a temporary added in place
                 LET t0 == MulOut(d, a, b) IN
                 IF t0.status # "ok" THEN t0 ELSE Fused(t0.reg, MulOut(TmpLike(d), a2, b2), FALSE)
    [] s.op = "mul_many" ->      \* a * (b * c): equal precisions required; the right pair goes through a temporary sized from its operands
         LET c3 == regs[s.c] IN
         IF ~(a.ld = b.ld /\ b.ld = c3.ld) THEN Err("err:other", d)
         ELSE LET kl == DivCeil2(Ek(a), B) * B
                  kr == DivCeil2(Max2(0, Min2(Ek(b), Ek(c3)) - a.ld), B) * B
                  tl == UnaryCopyOut([None EXCEPT !.st = "empty", !.maxk = kl], a)
                  tr == MulOut([None EXCEPT !.st = "empty", !.maxk = kr], b, c3)
              IN IF tl.status # "ok" THEN Err(tl.status, d)
                 ELSE IF tr.status # "ok" THEN Err(tr.status, d)
                 ELSE MulOut(d, tl.reg, tr.reg)
    [] s.op = "compact" -> Ok([d EXCEPT !.maxk = DivCeil2(Ek(d), B) * B])
    [] OTHER -> \* realloc to s.bits limbs
         IF s.bits < DivCeil2(Ek(d), B) THEN Err(ErrLimb, d) ELSE Ok([d EXCEPT !.maxk = s.bits * B])

MetaFits(r) == r.st # "ok" \/ Ek(r) <= r.maxk
\* the API cannot know the magnitude of the encrypted values: keeping them below the headroom is the caller's side of the contract
InHeadroom(r) == r.st # "ok" \/ r.mag + 2 <= r.lb
=============================================================================
