CONSTANTS
  B = 19
  LogN = 6
  KsM = {19, 38, 57}
  LdsM = {12}
  BitsM = {1, 19}
  PldsM = {12, 30}
SPECIFICATION Spec
INVARIANT FitsInv
VIEW View
CHECK_DEADLOCK FALSE
