------------------------------- MODULE MC_Ckks -------------------------------
(* Design-level check of the CKKS metadata algebra (Ckks.tla): over EVERY program of a small    *)
(* instruction set (two registers of every storage width, every operation family, every          *)
(* parameter of a small grid) the state machine keeps  log_delta + log_budget <= stored bits      *)
(* on every register it reports Ok (MetaFits), never produces a negative budget, and an error      *)
(* leaves no usable register behind (st = "bad").  The harness-validated traces (CkksTrace) bind    *)
(* the same transition function to the library.                                                    *)
EXTENDS Ckks, TLC

CONSTANTS KsM, LdsM, BitsM, PldsM

NegFalse == FALSE
VARIABLES regs
Regs2 == 0..3
Live == {0, 1}                        \* the registers the model uses
S(op, d, a, b, bits, rot, k, ld, plb, pld, pplb, c) ==
  [op |-> op, d |-> d, a |-> a, b |-> b, bits |-> bits, rot |-> rot, k |-> k, ld |-> ld, plb |-> plb, vec |-> 0,
   pld |-> pld, pplb |-> pplb, pmag |-> 0, cst |-> 0, c |-> c, pb |-> B, kz |-> 0]
IsOkM(r) == regs[r].st = "ok"
AllocM(r) == regs[r].st # "none"
Apply(s) == regs' = [regs EXCEPT ![s.d] = Outcome(regs, s).reg]

Init == regs = [r \in Regs2 |-> None]
Next ==
  \/ \E d \in Live, k \in KsM, ld \in LdsM : Apply(S("enc", d, 0, 0, 0, 0, k, ld, 4, 0, 0, 0))
  \/ \E d \in Live, k \in KsM : Apply(S("alloc", d, 0, 0, 0, 0, k, 0, 0, 0, 0, 0))
  \/ \E op \in {"neg_into", "conj_into", "rot_into"}, d, a \in Live : IsOkM(a) /\ AllocM(d) /\ d # a /\ Apply(S(op, d, a, 0, 0, 1, 0, 0, 0, 0, 0, 0))
  \/ \E op \in {"mul_pow2_into", "div_pow2_into", "rescale_into"}, d, a \in Live, bits \in BitsM : IsOkM(a) /\ AllocM(d) /\ d # a /\ Apply(S(op, d, a, 0, bits, 0, 0, 0, 0, 0, 0, 0))
  \/ \E op \in {"mul_pow2_assign", "div_pow2_assign", "rescale_assign", "compact"}, d \in Live, bits \in BitsM : IsOkM(d) /\ Apply(S(op, d, d, 0, bits, 0, 0, 0, 0, 0, 0, 0))
  \/ \E op \in {"add_into", "mul_into", "square_into", "mul_add_ct"}, d, a, b \in Live : IsOkM(a) /\ IsOkM(b) /\ AllocM(d) /\ (op = "mul_add_ct" => IsOkM(d)) /\ Apply(S(op, d, a, b, 0, 0, 0, 0, 0, 0, 0, 0))
  \/ \E op \in {"add_assign", "mul_assign", "square_assign"}, d, b \in Live : IsOkM(d) /\ IsOkM(b) /\ Apply(S(op, d, d, b, 0, 0, 0, 0, 0, 0, 0, 0))
  \/ \E op \in {"add_ptv_into", "add_ptc_into", "mul_ptv_into", "mul_ptc_into", "mul_add_ptv"}, d, a \in Live, pld \in PldsM, pplb \in {0, B} :
       IsOkM(a) /\ AllocM(d) /\ d # a /\ (op = "mul_add_ptv" => IsOkM(d)) /\ Apply(S(op, d, a, 0, 0, 0, 0, 0, 0, pld, pplb, 0))
  \/ \E op \in {"add_ptv_assign", "add_ptc_assign", "mul_ptv_assign", "mul_ptc_assign"}, d \in Live, pld \in PldsM, pplb \in {0, B} :
       IsOkM(d) /\ Apply(S(op, d, d, 0, 0, 0, 0, 0, 0, pld, pplb, 0))
  \/ \E op \in {"dot_ptv", "dot_ptc", "mul_add_ptcz", "add_ptcz_into"}, d, a \in Live, cnt \in 1..2, pld \in PldsM :
       IsOkM(a) /\ AllocM(d) /\ d # a /\ (op = "mul_add_ptcz" => IsOkM(d)) /\ Apply(S(op, d, a, 0, cnt, 0, 0, 0, 0, pld, 0, a))
  \/ \E a, b \in Live : a # b /\ IsOkM(a) /\ IsOkM(b) /\ Apply(S("align", IF regs[a].lb >= regs[b].lb THEN a ELSE b, a, b, 0, 0, 0, 0, 0, 0, 0, 0))
  \/ \E d \in Live, sz \in 1..3 : IsOkM(d) /\ Apply(S("realloc", d, d, 0, sz, 0, 0, 0, 0, 0, 0, 0))
  \/ \E d, a, b \in Live : IsOkM(a) /\ IsOkM(b) /\ AllocM(d) /\ d # a /\ d # b /\ Apply(S("dot_ct", d, a, b, a, 0, 0, 0, 0, 0, 0, b))
Spec == Init /\ [][Next]_regs
\* the value model (mag / el) is not part of the metadata algebra: hide it so that the state space stays finite
View == [r \in Live |-> [st |-> regs[r].st, maxk |-> regs[r].maxk, ld |-> regs[r].ld, lb |-> regs[r].lb]]
FitsInv == \A r \in Live : MetaFits(regs[r]) /\ (regs[r].st = "ok" => regs[r].lb >= 0 /\ regs[r].ld >= 0)
=============================================================================
