CONSTANTS
  B = 52
  LogN = 6
  KMax = 312
  Depth = 12
  Bes = {2, 3}
  Lds = {30, 40, 45}
SPECIFICATION Spec
CHECK_DEADLOCK FALSE
