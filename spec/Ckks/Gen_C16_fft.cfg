CONSTANTS
  B = 19
  LogN = 6
  KMax = 152
  Depth = 12
  Bes = {0, 1}
  Lds = {24, 30, 40}
SPECIFICATION Spec
CHECK_DEADLOCK FALSE
