------------------------------ MODULE CkksTrace ------------------------------
(* Validates logged CKKS programs against Ckks.tla: TLC replays the program on the metadata    *)
(* state machine and compares, step by step, the outcome class, the destination's metadata      *)
(* and storage width and the bound on the slot error; MetaFits is checked on what the library   *)
(* reports, independently of the algebra.                                                      *)
EXTENDS Integers, Sequences, TLC, Json, IOUtils

Rec == ndJsonDeserialize(IOEnv.TRACE)
VARIABLES i, bad
vars == <<i, bad>>

\* one instance of the state machine per radix / ring of the logged program
Check(e) ==
  LET M == INSTANCE Ckks WITH B <- e.b, LogN <- (CHOOSE l \in 0..16 : 2 ^ l = e.n)
      RECURSIVE Walk(_, _, _)
      Walk(regs, k, acc) ==
        IF k > Len(e.outs) THEN acc
        ELSE LET s == e.prog[k]
                 o == e.outs[k]
                 want == M!Outcome(regs, s)
                 isPanic == o.cls = "panic"
                 v1 == IF isPanic THEN <<"panic">> ELSE <<>>
                 v2 == IF ~isPanic /\ o.cls # "skipped" /\ o.status # want.status THEN <<"status">> ELSE <<>>
                 okBoth == o.status = "ok" /\ want.status = "ok"
                 v3 == IF okBoth /\ (o.ld # want.reg.ld \/ o.lb # want.reg.lb \/ o.maxk # want.reg.maxk) THEN <<"meta">> ELSE <<>>
                 v4 == IF o.status = "ok" /\ s.op # "alloc" /\ o.ld + o.lb > o.maxk THEN <<"fits">> ELSE <<>>
                 \* the decoded slots have ld fractional bits (and the f64 reference about 52): the error cannot be observed below that
                 v5 == IF okBoth /\ s.op # "alloc" /\ o.ld <= 48 /\ M!InHeadroom(want.reg) /\ o.err_log2 > M!Max2(want.reg.el, M!S0 - o.ld) THEN <<"value">> ELSE <<>>
                 vs == v1 \o v2 \o v3 \o v4 \o v5
                 \* continue on the library's reported metadata when the outcome class agrees, else stop at the first divergence
             IN IF vs # <<>> THEN acc \o << <<k, vs>> >>
                ELSE Walk([regs EXCEPT ![s.d] = want.reg], k + 1, acc)
  IN Walk([r \in 0..3 |-> M!None], 1, <<>>)
Complete(e) == Len(e.outs) = Len(e.prog) \/ (Len(e.outs) > 0 /\ e.outs[Len(e.outs)].cls \in {"panic", "skipped"})
Verdict(e, k) == LET c == Check(e) IN
  (IF c = <<>> THEN <<>> ELSE << <<k, c[1][2][1], c[1][1]>> >>) \o (IF Complete(e) THEN <<>> ELSE << <<k, "incomplete", 0>> >>)
Init == i = 1 /\ bad = <<>>
Next == /\ i <= Len(Rec) /\ i' = i + 1 /\ bad' = bad \o Verdict(Rec[i], i)
Spec == Init /\ [][Next]_vars
Report == (i = Len(Rec) + 1) => PrintT(<<"VERDICT", Len(Rec), ToJson(bad)>>)
=============================================================================
