------------------------------- MODULE Gen_C16 -------------------------------
(* Program generator for C16 (TLC simulation): random straight-line CKKS programs over four     *)
(* registers.  The generator IS the specification's state machine (Ckks.Outcome), so programs     *)
(* deliberately walk into the error conditions (budget exhaustion, missing key, destinations      *)
(* smaller than the natural result, multiplication underflow) and keep going on the registers     *)
(* that are still defined.                                                                       *)
EXTENDS Integers, Sequences, TLC, Json, Ckks

CONSTANTS KMax, Depth, Bes, Lds

VARIABLES regs, prog, done, fam, be
vars == <<regs, prog, done, fam, be>>
Regs == 0..3
IsOk(r) == regs[r].st = "ok"
Alloc(r) == regs[r].st # "none"
Ks == {B, 2 * B, 3 * B, 5 * B, KMax - B, KMax}
Step(op, d, a, b, bits, rot, k, ld, plb, vec) ==
  [op |-> op, d |-> d, a |-> a, b |-> b, bits |-> bits, rot |-> rot, k |-> k, ld |-> ld, plb |-> plb, vec |-> vec, pld |-> 0, pplb |-> 0, pmag |-> 0, cst |-> 0, c |-> 0, pb |-> B, kz |-> 0]
\* a step with a plaintext operand of precision (pld, pplb): a test vector (|v| <= 1) or a constant of the harness' table (|c| < 2)
PStep(op, d, a, b, vec, cst, pld, pplb, isc) == [Step(op, d, a, b, 0, 0, 0, 0, 0, vec) EXCEPT !.pld = pld, !.pplb = pplb, !.pmag = IF isc THEN 1 ELSE 0, !.cst = cst]
Plds == {12, 20, 30, 40}
Pplbs == {0, 6, B, 30}
\* the values must stay below the headroom and inside the window the harness decodes (2^30)
Do(s) == LET o == Outcome(regs, s) IN
         /\ InHeadroom(o.reg) /\ o.reg.mag <= 30
         /\ regs' = [regs EXCEPT ![s.d] = o.reg] /\ prog' = Append(prog, s) /\ fam' = "" /\ UNCHANGED <<done, be>>

\* a product whose ciphertext operand stores more limbs than its metadata spans panics (known finding
\* F-C16-mul-panics-on-spare-limbs): such a step ends the program, so it is only generated as the LAST step
NoSpare(r) == DivCeil2(Ek(regs[r]), B) * B = regs[r].maxk
LastStep == Len(prog) = Depth - 1
Init == regs = [r \in Regs |-> None] /\ prog = <<>> /\ done = FALSE /\ fam = "" /\ be \in Bes
Enc == \E d \in Regs, k \in Ks, ld \in Lds, plb \in {4, 10}, v \in {0, 1} : Do(Step("enc", d, 0, 0, 0, 0, k, ld, plb, v))
AllocD == \E d \in Regs, k \in Ks : Do(Step("alloc", d, 0, 0, 0, 0, k, 0, 0, 0))
UnInto == \E op \in {"neg_into", "conj_into"}, d, a \in Regs : IsOk(a) /\ Alloc(d) /\ d # a /\ Do(Step(op, d, a, 0, 0, 0, 0, 0, 0, 0))
UnAssign == \E op \in {"neg_assign", "conj_assign", "compact"}, d \in Regs : IsOk(d) /\ Do(Step(op, d, d, 0, 0, 0, 0, 0, 0, 0))
Rot == \E op \in {"rot_into", "rot_assign"}, d, a \in Regs, rot \in {1, 2, 3} :
         /\ IsOk(a) /\ (op = "rot_assign" => d = a) /\ (op = "rot_into" => (Alloc(d) /\ d # a)) /\ Do(Step(op, d, a, 0, 0, rot, 0, 0, 0, 0))
Pow2 == \E op \in {"mul_pow2_into", "div_pow2_into", "rescale_into", "mul_pow2_assign", "div_pow2_assign", "rescale_assign"}, d, a \in Regs, bits \in {1, 3, B, B + 2, 3 * B} :
         /\ IsOk(a)
         /\ (IF op \in {"mul_pow2_assign", "div_pow2_assign", "rescale_assign"} THEN d = a ELSE (Alloc(d) /\ d # a))
         /\ (op \in {"mul_pow2_into", "mul_pow2_assign"} => regs[a].mag + bits + 2 <= regs[a].lb /\ bits <= B)      \* the value must stay below the headroom
         /\ (op \in {"div_pow2_into", "div_pow2_assign"} => bits <= B + 2)                                          \* dividing the value away entirely is not exercised
         /\ Do(Step(op, d, a, 0, bits, 0, 0, 0, 0, 0))
AddSub == \E op \in {"add_into", "sub_into", "add_assign", "sub_assign"}, d, a, b \in Regs :
         /\ IsOk(a) /\ IsOk(b)
         /\ (IF op \in {"add_assign", "sub_assign"} THEN d = a /\ b # d ELSE (Alloc(d) /\ d # a /\ d # b))
         /\ Do(Step(op, d, a, b, 0, 0, 0, 0, 0, 0))
Mul == \E op \in {"mul_into", "mul_assign", "square_into", "square_assign"}, d, a, b \in Regs :
         /\ IsOk(a) /\ IsOk(b)
         /\ (IF op \in {"mul_assign", "square_assign"} THEN d = a ELSE (Alloc(d) /\ d # a /\ d # b))
         /\ (op = "mul_assign" => b # d)
         /\ (LastStep \/ (NoSpare(a) /\ (op \in {"mul_into", "mul_assign"} => NoSpare(b))))
         /\ Do(Step(op, d, a, b, 0, 0, 0, 0, 0, 0))
\* plaintext operands: ct (+-*) vector / constant, out of place and in place; fused dst (+-)= a * (ct | vector | constant); add_many
PtInto == \E op \in {"add_ptv_into", "sub_ptv_into", "mul_ptv_into", "add_ptc_into", "sub_ptc_into", "mul_ptc_into"}, d, a \in Regs, pld \in Plds, pplb \in Pplbs, v \in 0..3 :
         /\ IsOk(a) /\ Alloc(d) /\ d # a
         /\ (op = "mul_ptv_into" => LastStep \/ NoSpare(a))
         /\ Do(PStep(op, d, a, 0, v % 2, v, pld, pplb, op \in {"add_ptc_into", "sub_ptc_into", "mul_ptc_into"}))
PtAssign == \E op \in {"add_ptv_assign", "sub_ptv_assign", "mul_ptv_assign", "add_ptc_assign", "sub_ptc_assign", "mul_ptc_assign"}, d \in Regs, pld \in Plds, pplb \in Pplbs, v \in 0..3 :
         /\ IsOk(d)
         /\ (op = "mul_ptv_assign" => LastStep \/ NoSpare(d))
         /\ Do(PStep(op, d, d, 0, v % 2, v, pld, pplb, op \in {"add_ptc_assign", "sub_ptc_assign", "mul_ptc_assign"}))
\* vector plaintexts given in limb form (znx), in the ciphertext's radix or in another one (refused for add / sub)
PtZnx == \/ \E op \in {"add_ptz_into", "sub_ptz_into", "mul_ptz_into"}, d, a \in Regs, pld \in Plds, pplb \in Pplbs, v \in 0..1, pb \in {B, B - 1} :
              /\ IsOk(a) /\ Alloc(d) /\ d # a /\ (op = "mul_ptz_into" => (LastStep \/ NoSpare(a)))
              /\ Do([PStep(op, d, a, 0, v, 0, pld, pplb, FALSE) EXCEPT !.pb = pb])
         \/ \E op \in {"add_ptz_assign", "sub_ptz_assign"}, d \in Regs, pld \in Plds, pplb \in Pplbs, v \in 0..1, pb \in {B, B - 1} :
              /\ IsOk(d) /\ Do([PStep(op, d, d, 0, v, 0, pld, pplb, FALSE) EXCEPT !.pb = pb])
\* more limb-form operands: vector products in place and fused, constants in limb form (add / sub / mul / fused)
PtZnx2 == \/ \E op \in {"mul_ptz_assign"}, d \in Regs, pld \in Plds, pplb \in Pplbs, v \in 0..1, pb \in {B, B - 1} :
               /\ IsOk(d) /\ (LastStep \/ NoSpare(d)) /\ Do([PStep(op, d, d, 0, v, 0, pld, pplb, FALSE) EXCEPT !.pb = pb])
          \/ \E op \in {"mul_add_ptz", "mul_sub_ptz"}, d, a \in Regs, pld \in Plds, pplb \in Pplbs, v \in 0..1, pb \in {B, B - 1} :
               /\ IsOk(d) /\ IsOk(a) /\ d # a /\ (LastStep \/ NoSpare(a)) /\ Do([PStep(op, d, a, 0, v, 0, pld, pplb, FALSE) EXCEPT !.pb = pb])
PtCz == \/ \E op \in {"add_ptcz_into", "sub_ptcz_into", "mul_ptcz_into"}, d, a \in Regs, pld \in Plds, pplb \in Pplbs, v \in 0..3, kz \in {0, 0, 1} :
             /\ IsOk(a) /\ Alloc(d) /\ d # a /\ (op = "mul_ptcz_into" => kz = 0)
             /\ Do([PStep(op, d, a, 0, 0, v, pld, pplb, TRUE) EXCEPT !.kz = kz])
        \/ \E op \in {"add_ptcz_assign", "sub_ptcz_assign", "mul_ptcz_assign"}, d \in Regs, pld \in Plds, pplb \in Pplbs, v \in 0..3, kz \in {0, 1} :
             /\ IsOk(d) /\ (op = "mul_ptcz_assign" => kz = 0)
             /\ Do([PStep(op, d, d, 0, 0, v, pld, pplb, TRUE) EXCEPT !.kz = kz])
        \/ \E op \in {"mul_add_ptcz", "mul_sub_ptcz"}, d, a \in Regs, pld \in Plds, pplb \in Pplbs, v \in 0..3 :
             /\ IsOk(d) /\ IsOk(a) /\ d # a /\ Do(PStep(op, d, a, 0, 0, v, pld, pplb, TRUE))
\* plaintext-weighted sums of one or two ciphertexts
DotPt == \E op \in {"dot_ptv", "dot_ptz", "dot_ptc", "dot_ptcz"}, d, a, c \in Regs, cnt \in 1..2, pld \in Plds, pplb \in Pplbs, v \in 0..3, pb \in {B, B - 1} :
         /\ Alloc(d) /\ IsOk(a) /\ d # a /\ (cnt = 2 => IsOk(c) /\ d # c)
         /\ (op # "dot_ptz" => pb = B)
         /\ (op \in {"dot_ptv", "dot_ptz"} => LastStep \/ (NoSpare(a) /\ (cnt = 2 => NoSpare(c))))
         /\ Do([PStep(op, d, a, 0, v % 2, v, pld, pplb, op \in {"dot_ptc", "dot_ptcz"}) EXCEPT !.bits = cnt, !.c = c, !.pb = pb, !.pmag = IF op \in {"dot_ptc", "dot_ptcz"} THEN 1 ELSE 0])
\* align two registers on the smaller budget: the step names the register that changes
AlignOp == \E a, b \in Regs : IsOk(a) /\ IsOk(b) /\ a # b
             /\ Do(Step("align", IF regs[a].lb >= regs[b].lb THEN a ELSE b, a, b, 0, 0, 0, 0, 0, 0))
FusedCt == \E op \in {"mul_add_ct", "mul_sub_ct"}, d, a, b \in Regs : IsOk(d) /\ IsOk(a) /\ IsOk(b) /\ d # a /\ d # b /\ (LastStep \/ (NoSpare(a) /\ NoSpare(b))) /\ Do(Step(op, d, a, b, 0, 0, 0, 0, 0, 0))
FusedOp == \E op \in {"mul_add_ptv", "mul_sub_ptv", "mul_add_ptc", "mul_sub_ptc"}, d, a \in Regs, pld \in Plds, pplb \in Pplbs, v \in 0..3 :
                /\ IsOk(d) /\ IsOk(a) /\ d # a
                /\ (op \in {"mul_add_ptv", "mul_sub_ptv"} => LastStep \/ NoSpare(a))
                /\ Do(PStep(op, d, a, 0, v % 2, v, pld, pplb, op \in {"mul_add_ptc", "mul_sub_ptc"}))
AddMany == \E d, a, b, c \in Regs, cnt \in 1..3 :
         /\ Alloc(d) /\ IsOk(a) /\ d # a /\ (cnt >= 2 => IsOk(b) /\ d # b) /\ (cnt >= 3 => IsOk(c) /\ d # c)
         /\ Do([Step("add_many", d, a, b, cnt, 0, 0, 0, 0, 0) EXCEPT !.c = c])
\* dot product of two pairs <a, c> . <b, e> (register e in the field `bits`) and the product of three a * (b * c)
DotCt == \E d, a, b, c, e \in Regs :
         /\ Alloc(d) /\ IsOk(a) /\ IsOk(b) /\ IsOk(c) /\ IsOk(e) /\ d \notin {a, b, c, e}
         /\ (LastStep \/ (NoSpare(a) /\ NoSpare(b) /\ NoSpare(c) /\ NoSpare(e)))
         /\ Do([Step("dot_ct", d, a, b, e, 0, 0, 0, 0, 0) EXCEPT !.c = c])
MulMany == \E d, a, b, c \in Regs :
         /\ Alloc(d) /\ IsOk(a) /\ IsOk(b) /\ IsOk(c) /\ d \notin {a, b, c}
         /\ (LastStep \/ (NoSpare(a) /\ NoSpare(b) /\ NoSpare(c)))
         /\ Do([Step("mul_many", d, a, b, 3, 0, 0, 0, 0, 0) EXCEPT !.c = c])
Realloc == \E d \in Regs, sz \in 1..8 : IsOk(d) /\ Do(Step("realloc", d, d, 0, sz, 0, 0, 0, 0, 0))
Finish == /\ Len(prog) = Depth /\ ~done /\ done' = TRUE
          /\ PrintT(<<"PROG", ToJson([n |-> 2 ^ LogN, b |-> B, kmax |-> KMax, be |-> be, prog |-> prog])>>)
          /\ UNCHANGED <<regs, prog, fam, be>>
\* two-phase choice (family first, then parameters) so that every operation family is equally likely in simulation
Fams == {"enc", "alloc", "uninto", "unassign", "rot", "pow2", "addsub", "mul", "realloc", "ptinto", "ptassign", "fused", "fusedct", "addmany", "dotct", "mulmany", "ptznx", "ptznx2", "ptcz", "dotpt", "align"}
Enabled(f) == CASE f = "enc" -> ENABLED Enc [] f = "alloc" -> ENABLED AllocD [] f = "uninto" -> ENABLED UnInto [] f = "unassign" -> ENABLED UnAssign
                [] f = "rot" -> ENABLED Rot [] f = "pow2" -> ENABLED Pow2 [] f = "addsub" -> ENABLED AddSub [] f = "mul" -> ENABLED Mul
                [] f = "ptinto" -> ENABLED PtInto [] f = "ptassign" -> ENABLED PtAssign [] f = "fused" -> ENABLED FusedOp [] f = "fusedct" -> ENABLED FusedCt [] f = "addmany" -> ENABLED AddMany [] f = "dotct" -> ENABLED DotCt [] f = "mulmany" -> ENABLED MulMany [] f = "ptznx" -> ENABLED PtZnx [] f = "ptznx2" -> ENABLED PtZnx2 [] f = "ptcz" -> ENABLED PtCz [] f = "dotpt" -> ENABLED DotPt [] f = "align" -> ENABLED AlignOp [] OTHER -> ENABLED Realloc
Pick == /\ fam = "" /\ Len(prog) >= 2 /\ Len(prog) < Depth /\ \E f \in Fams : Enabled(f) /\ fam' = f /\ UNCHANGED <<regs, prog, done, be>>
DoFam == /\ fam # ""
         /\ CASE fam = "enc" -> Enc [] fam = "alloc" -> AllocD [] fam = "uninto" -> UnInto [] fam = "unassign" -> UnAssign
              [] fam = "rot" -> Rot [] fam = "pow2" -> Pow2 [] fam = "addsub" -> AddSub [] fam = "mul" -> Mul
              [] fam = "ptinto" -> PtInto [] fam = "ptassign" -> PtAssign [] fam = "fused" -> FusedOp [] fam = "fusedct" -> FusedCt [] fam = "addmany" -> AddMany [] fam = "dotct" -> DotCt [] fam = "mulmany" -> MulMany [] fam = "ptznx" -> PtZnx [] fam = "ptznx2" -> PtZnx2 [] fam = "ptcz" -> PtCz [] fam = "dotpt" -> DotPt [] fam = "align" -> AlignOp [] OTHER -> Realloc
Next == \/ /\ Len(prog) < 2 /\ fam = "" /\ Enc
        \/ Pick \/ DoFam
        \/ Finish
Spec == Init /\ [][Next]_vars
=============================================================================
