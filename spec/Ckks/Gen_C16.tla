------------------------------- MODULE Gen_C16 -------------------------------
(* Program generator for C16 (TLC simulation): random straight-line CKKS programs over four     *)
(* registers.  The generator IS the specification's state machine (Ckks.Outcome), so programs     *)
(* deliberately walk into the error conditions (budget exhaustion, missing key, destinations      *)
(* smaller than the natural result, multiplication underflow) and keep going on the registers     *)
(* that are still defined.                                                                       *)
EXTENDS Integers, Sequences, TLC, Json, Ckks

CONSTANTS KMax, Depth, Bes, Lds

VARIABLES regs, prog, done, fam, be
vars == <<regs, prog, done, fam, be>>
Regs == 0..3
IsOk(r) == regs[r].st = "ok"
Alloc(r) == regs[r].st # "none"
Ks == {B, 2 * B, 3 * B, 5 * B, KMax - B, KMax}
Step(op, d, a, b, bits, rot, k, ld, plb, vec) == [op |-> op, d |-> d, a |-> a, b |-> b, bits |-> bits, rot |-> rot, k |-> k, ld |-> ld, plb |-> plb, vec |-> vec]
\* the values must stay below the headroom and inside the window the harness decodes (2^30)
Do(s) == LET o == Outcome(regs, s) IN
         /\ InHeadroom(o.reg) /\ o.reg.mag <= 30
         /\ regs' = [regs EXCEPT ![s.d] = o.reg] /\ prog' = Append(prog, s) /\ fam' = "" /\ UNCHANGED <<done, be>>

Init == regs = [r \in Regs |-> None] /\ prog = <<>> /\ done = FALSE /\ fam = "" /\ be \in Bes
Enc == \E d \in Regs, k \in Ks, ld \in Lds, plb \in {4, 10}, v \in {0, 1} : Do(Step("enc", d, 0, 0, 0, 0, k, ld, plb, v))
AllocD == \E d \in Regs, k \in Ks : Do(Step("alloc", d, 0, 0, 0, 0, k, 0, 0, 0))
UnInto == \E op \in {"neg_into", "conj_into"}, d, a \in Regs : IsOk(a) /\ Alloc(d) /\ d # a /\ Do(Step(op, d, a, 0, 0, 0, 0, 0, 0, 0))
UnAssign == \E op \in {"neg_assign", "conj_assign", "compact"}, d \in Regs : IsOk(d) /\ Do(Step(op, d, d, 0, 0, 0, 0, 0, 0, 0))
Rot == \E op \in {"rot_into", "rot_assign"}, d, a \in Regs, rot \in {1, 2, 3} :
         /\ IsOk(a) /\ (op = "rot_assign" => d = a) /\ (op = "rot_into" => (Alloc(d) /\ d # a)) /\ Do(Step(op, d, a, 0, 0, rot, 0, 0, 0, 0))
Pow2 == \E op \in {"mul_pow2_into", "div_pow2_into", "rescale_into", "mul_pow2_assign", "div_pow2_assign", "rescale_assign"}, d, a \in Regs, bits \in {1, 3, B, B + 2, 3 * B} :
         /\ IsOk(a)
         /\ (IF op \in {"mul_pow2_assign", "div_pow2_assign", "rescale_assign"} THEN d = a ELSE (Alloc(d) /\ d # a))
         /\ (op \in {"mul_pow2_into", "mul_pow2_assign"} => regs[a].mag + bits + 2 <= regs[a].lb /\ bits <= B)      \* the value must stay below the headroom
         /\ (op \in {"div_pow2_into", "div_pow2_assign"} => bits <= B + 2)                                          \* dividing the value away entirely is not exercised
         /\ Do(Step(op, d, a, 0, bits, 0, 0, 0, 0, 0))
AddSub == \E op \in {"add_into", "sub_into", "add_assign", "sub_assign"}, d, a, b \in Regs :
         /\ IsOk(a) /\ IsOk(b)
         /\ (IF op \in {"add_assign", "sub_assign"} THEN d = a /\ b # d ELSE (Alloc(d) /\ d # a /\ d # b))
         /\ Do(Step(op, d, a, b, 0, 0, 0, 0, 0, 0))
Mul == \E op \in {"mul_into", "mul_assign", "square_into", "square_assign"}, d, a, b \in Regs :
         /\ IsOk(a) /\ IsOk(b)
         /\ (IF op \in {"mul_assign", "square_assign"} THEN d = a ELSE (Alloc(d) /\ d # a /\ d # b))
         /\ (op = "mul_assign" => b # d)
         /\ Do(Step(op, d, a, b, 0, 0, 0, 0, 0, 0))
Realloc == \E d \in Regs, sz \in 1..8 : IsOk(d) /\ Do(Step("realloc", d, d, 0, sz, 0, 0, 0, 0, 0))
Finish == /\ Len(prog) = Depth /\ ~done /\ done' = TRUE
          /\ PrintT(<<"PROG", ToJson([n |-> 2 ^ LogN, b |-> B, kmax |-> KMax, be |-> be, prog |-> prog])>>)
          /\ UNCHANGED <<regs, prog, fam, be>>
\* two-phase choice (family first, then parameters) so that every operation family is equally likely in simulation
Fams == {"enc", "alloc", "uninto", "unassign", "rot", "pow2", "addsub", "mul", "realloc"}
Enabled(f) == CASE f = "enc" -> ENABLED Enc [] f = "alloc" -> ENABLED AllocD [] f = "uninto" -> ENABLED UnInto [] f = "unassign" -> ENABLED UnAssign
                [] f = "rot" -> ENABLED Rot [] f = "pow2" -> ENABLED Pow2 [] f = "addsub" -> ENABLED AddSub [] f = "mul" -> ENABLED Mul [] OTHER -> ENABLED Realloc
Pick == /\ fam = "" /\ Len(prog) >= 2 /\ Len(prog) < Depth /\ \E f \in Fams : Enabled(f) /\ fam' = f /\ UNCHANGED <<regs, prog, done, be>>
DoFam == /\ fam # ""
         /\ CASE fam = "enc" -> Enc [] fam = "alloc" -> AllocD [] fam = "uninto" -> UnInto [] fam = "unassign" -> UnAssign
              [] fam = "rot" -> Rot [] fam = "pow2" -> Pow2 [] fam = "addsub" -> AddSub [] fam = "mul" -> Mul [] OTHER -> Realloc
Next == \/ /\ Len(prog) < 2 /\ fam = "" /\ Enc
        \/ Pick \/ DoFam
        \/ Finish
Spec == Init /\ [][Next]_vars
=============================================================================
