CONSTANTS
  AddKeepsMin <- NegFalse
  B = 19
  LogN = 6
  KsM = {19, 38, 57, 76}
  LdsM = {12, 24}
  BitsM = {19}
  PldsM = {12, 30}
SPECIFICATION Spec
INVARIANT FitsInv
VIEW View
CHECK_DEADLOCK FALSE
