CONSTANTS
  Bes = {0, 1, 2, 3}
  Ranks = {1, 2, 3}
  Variants = {1, 2, 3}
INIT Init
NEXT Next
INVARIANT Emit
CHECK_DEADLOCK FALSE
