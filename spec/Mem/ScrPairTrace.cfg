SPECIFICATION Spec
INVARIANT Report
CHECK_DEADLOCK FALSE
