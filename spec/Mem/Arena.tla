-------------------------------- MODULE Arena --------------------------------
(* The scratch arena as a state machine (C17: "views carved out of scratch", C12).             *)
(* State: the sequence of byte regions handed out so far (offsets relative to a 64-byte         *)
(* aligned address); region 1 is the window the caller provided (it may start anywhere).        *)
(* A step takes `n` bytes from one of the regions, re-wrapped as a scratch of its own            *)
(* (Scratch::from_bytes is public, nested scopes do exactly that):                               *)
(*     take_slice::<u8>(n) / take_slice::<i64>(n/8) / take_vec_znx(..) / split_at_mut(n)         *)
(* The take starts at the next 64-byte boundary of the region; it must PANIC iff fewer than n     *)
(* bytes remain after that boundary, and otherwise hand out exactly [aligned start, +n) and the    *)
(* remainder [aligned start + n, end of region) -- both inside the region it was taken from.      *)
(* A request whose byte count does not fit the machine word (element count times element size)    *)
(* can never fit and must be refused as well.                                                     *)
EXTENDS Scratch

AStep(src, kind, n) == [src |-> src, kind |-> kind, n |-> n]
\* kind "huge": an element count of 2^61 + n eight-byte elements (the byte count wraps to 8n in 64-bit arithmetic)
AOutcome(regs, s) ==
  LET src == regs[s.src] IN
  IF s.kind # "huge" /\ TakeFits(src, s.n)
  THEN [status |-> "ok", taken |-> Taken(src, s.n), rem |-> Rem(src, s.n), regs |-> regs \o << Taken(src, s.n), Rem(src, s.n) >>]
  ELSE [status |-> "panic", taken |-> Slice(0, 0), rem |-> Slice(0, 0), regs |-> regs]
\* every region ever handed out lies inside the window (what memory safety needs)
ArenaOK(regs) == \A k \in 1..Len(regs) : regs[k].l = 0 \/ Inside(regs[k], regs[1])
=============================================================================
