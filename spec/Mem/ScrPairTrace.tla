---------------------------- MODULE ScrPairTrace ----------------------------
(* C12 for the scheme-level crates (poulpy-ckks programs, poulpy-bin-fhe operations): every      *)
(* logged call ran in a canary-guarded window of exactly the bytes its companion size query       *)
(* returned; Scratch.tla replays its takes (arena discipline, no refused take, high water within   *)
(* the declaration, guards intact).  Each behaviour is logged for two different scratch fills:      *)
(* wherever the outcome is Ok, the bytes of the result must not depend on the fill.                *)
EXTENDS Integers, Sequences, FiniteSets, TLC, Json, IOUtils, Scratch

Rec == ndJsonDeserialize(IOEnv.TRACE)
VARIABLES i, bad
vars == <<i, bad>>
ScrOK(e) == \A r \in 1..Len(e.scr) : \A c \in 1..Len(e.scr[r].calls) : CallOK(e.scr[r].calls[c])
Norm(ds) == [k \in 1..Len(ds) |-> IF ds[k][1] = "ok" THEN ds[k] ELSE <<ds[k][1], "">>]
FillOK(e) == /\ Len(e.scr) >= 2
             /\ \A r \in 2..Len(e.scr) : Norm(e.scr[r].digests) = Norm(e.scr[1].digests)
\* a behaviour that declares no scratch at all and takes none proves nothing: counted, not rejected
Takes(e) == \E r \in 1..Len(e.scr) : \E c \in 1..Len(e.scr[r].calls) : Len(e.scr[r].calls[c].takes) > 0
\* "the maximum over a set of operations serves all of them": where the log carries the value of the crate's all-operations
\* query (for the largest layout of the behaviour), no covered call declares more than it
MaxOK(e) == \A r \in 1..Len(e.scr) : \A c \in 1..Len(e.scr[r].calls) :
              LET cl == e.scr[r].calls[c] IN ("all" \in DOMAIN cl /\ cl.all >= 0) => cl.decl <= cl.all
Verdict(e, k) == (IF ScrOK(e) THEN <<>> ELSE << <<k, "scr">> >>) \o (IF FillOK(e) THEN <<>> ELSE << <<k, "fill">> >>)
                 \o (IF MaxOK(e) THEN <<>> ELSE << <<k, "max">> >>)
Init == i = 1 /\ bad = <<>>
Next == /\ i <= Len(Rec) /\ i' = i + 1 /\ bad' = bad \o Verdict(Rec[i], i)
Spec == Init /\ [][Next]_vars
Report == (i = Len(Rec) + 1) => PrintT(<<"VERDICT", Len(Rec), ToJson(bad), Cardinality({k \in 1..Len(Rec) : Takes(Rec[k])})>>)
=============================================================================
