------------------------------ MODULE MC_Scratch ------------------------------
(* Model check of the arena discipline (spec alone).                                       *)
(* State machine: a window of Len0 bytes and a call stack of scopes; a step takes n bytes in *)
(* the innermost scope, calls a function with the remainder (or with a region turned into   *)
(* an arena by split_at_mut), or returns (releasing what the callee took).  Invariants:     *)
(*   - every taken region is 64-aligned, inside the window,                                 *)
(*   - two taken regions are disjoint unless one was carved out of the other,               *)
(*   - design lemma: for a *linear* chain of takes (always from the latest remainder) an    *)
(*     arena of SUM AlignUp(n_i) bytes always suffices (AlignedSumSuffices);                 *)
(*   - RawSumSuffices is the claim the library's *_tmp_bytes formulas implicitly make       *)
(*     (they add raw byte counts); TLC is expected to REFUTE it whenever a size is not a    *)
(*     multiple of 64: checked in MC_Scratch_raw.cfg, where a violation is the expected     *)
(*     outcome (DESIGN.md section 8.1).                                                     *)
EXTENDS Integers, Sequences, FiniteSets, TLC, Scratch

CONSTANTS Sizes, MaxDepth, Len0

VARIABLES stack,   \* call stack of frames [cur: slice still available to the frame, mine: regions it took, lent: region lent by the caller or <<>>]
          chain,   \* sizes taken along the linear chain (while the run stays linear)
          linear,  \* TRUE while there was no call / return / split (one straight sequence of takes)
          failed
vars == <<stack, chain, linear, failed>>

Frame(cur, lent) == [cur |-> cur, mine |-> {}, lent |-> lent]
Init == /\ stack = << Frame(Slice(0, Len0), <<>>) >> /\ chain = <<>> /\ linear = TRUE /\ failed = FALSE
Top == stack[Len(stack)]
SetTop(f) == [stack EXCEPT ![Len(stack)] = f]

\* a take in the innermost scope: the frame keeps the region and continues with the remainder
Take(n) ==
  /\ ~failed /\ Len(chain) < MaxDepth
  /\ IF TakeFits(Top.cur, n)
     THEN /\ stack' = SetTop([Top EXCEPT !.cur = Rem(Top.cur, n), !.mine = @ \cup {Taken(Top.cur, n)}]) /\ failed' = FALSE
     ELSE /\ UNCHANGED stack /\ failed' = TRUE
  /\ chain' = Append(chain, n) /\ UNCHANGED linear
\* calling a function that receives the remainder (`rest`) as its scratch
Call == /\ ~failed /\ Len(stack) < 3
        /\ stack' = Append(stack, Frame(Top.cur, <<>>)) /\ linear' = FALSE /\ UNCHANGED <<chain, failed>>
\* split_at_mut: a region this frame took becomes the arena of a callee
CallSplit == /\ ~failed /\ Len(stack) < 3
             /\ \E t \in Top.mine : stack' = Append(stack, Frame(t, <<t>>))
             /\ linear' = FALSE /\ UNCHANGED <<chain, failed>>
\* returning: everything the callee took is released (the borrow ends)
Return == /\ ~failed /\ Len(stack) > 1
          /\ stack' = SubSeq(stack, 1, Len(stack) - 1) /\ linear' = FALSE /\ UNCHANGED <<chain, failed>>
Next == (\E n \in Sizes : Take(n)) \/ Call \/ CallSplit \/ Return

Window == Slice(0, Len0)
Lent == {stack[i].lent[1] : i \in {j \in 1..Len(stack) : stack[j].lent # <<>>}}
Live == (UNION {stack[i].mine : i \in 1..Len(stack)}) \ Lent
TakenOK == \A t \in UNION {stack[i].mine : i \in 1..Len(stack)} : t.s % 64 = 0 /\ Inside(t, Window)
\* the regions that are live at the same time never overlap, and no live region overlaps what a live frame may still take
NoAliasing == /\ \A t, u \in Live : t = u \/ Disjoint(t, u)
              /\ \A t \in Live : Disjoint(t, Top.cur)
RECURSIVE SumA(_, _)
SumA(s, i) == IF i > Len(s) THEN 0 ELSE AlignUp(s[i]) + SumA(s, i + 1)
RECURSIVE SumR(_, _)
SumR(s, i) == IF i > Len(s) THEN 0 ELSE s[i] + SumR(s, i + 1)
AlignedSumSuffices == (linear /\ failed) => SumA(chain, 1) > Len0
RawSumSuffices == (linear /\ failed) => SumR(chain, 1) > Len0
=============================================================================
