CONSTANTS
  Wins = {0, 8, 64, 72, 100, 128, 136, 200, 256, 520}
  Boffs = {0, 8, 16, 32, 40, 56}
  Depth = 6
  Bes = {0, 1, 2, 3}
SPECIFICATION Spec
INVARIANT Inv
CHECK_DEADLOCK FALSE
