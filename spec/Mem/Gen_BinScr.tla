----------------------------- MODULE Gen_BinScr -----------------------------
(* C12 for poulpy-bin-fhe: (operation, size query) pairs of key generation, key preparation,     *)
(* blind rotation and circuit bootstrapping over back-ends, ranks, extension factors, the          *)
(* optional intermediate GLWE switch of the BDD key and two layout variants (sub-keys of equal /    *)
(* different radices and limb counts).  One state per descriptor.                                   *)
EXTENDS Integers, Sequences, TLC, Json
CONSTANTS Bes, Ranks, Variants

Ops == {"brk_encrypt", "brk_c_encrypt", "brk_prepare", "br_execute", "cbk_encrypt", "cbk_prepare", "cbt_constant", "cbt_exponent", "bdd_encrypt", "bdd_prepare"}
\* [base2k, limbs, dnum, dsize] of the blind-rotation key, automorphism key, tensor-switching key, result, GLWE-to-LWE key, GLWE switch
Lay(v) == CASE v = 1 -> [brk |-> <<5, 3, 2, 1>>, atk |-> <<4, 4, 2, 1>>, tsk |-> <<5, 3, 2, 1>>, res |-> <<5, 2, 2, 1>>, ks |-> <<4, 4, 2, 1>>, ksg |-> <<4, 5, 2, 2>>]
            [] v = 2 -> [brk |-> <<4, 4, 3, 1>>, atk |-> <<4, 4, 3, 1>>, tsk |-> <<4, 4, 3, 1>>, res |-> <<4, 3, 3, 1>>, ks |-> <<4, 3, 3, 1>>, ksg |-> <<4, 3, 1, 2>>]
            [] OTHER -> [brk |-> <<6, 3, 2, 1>>, atk |-> <<3, 6, 3, 2>>, tsk |-> <<5, 4, 2, 2>>, res |-> <<7, 2, 1, 1>>, ks |-> <<3, 5, 5, 1>>, ksg |-> <<5, 4, 3, 1>>]
VARIABLE c
Init == c = [op |-> "none"]
Next == /\ c.op = "none"
        /\ \E op \in Ops, be \in Bes, r \in Ranks, ext \in {1, 2}, kg \in {0, 1}, v \in Variants, blk \in {1, 2} :
             /\ (kg = 1 => op \in {"bdd_encrypt", "bdd_prepare"})
             /\ (ext = 2 => op \in {"br_execute", "cbt_constant", "cbt_exponent"})
             /\ (blk = 1 => op \in {"br_execute", "cbt_constant"})
             /\ LET l == Lay(v) IN
                c' = [op |-> op, be |-> be, rank |-> r, ext |-> ext, ksglwe |-> kg, n |-> 16, nlwe |-> 4, block |-> blk, variant |-> v,
                      brk |-> l.brk, atk |-> l.atk, tsk |-> l.tsk, res |-> l.res, ks |-> l.ks, ksg |-> l.ksg]
Emit == c.op # "none" => PrintT(<<"DESC", ToJson(c)>>)
=============================================================================
