-------------------------------- MODULE Layout --------------------------------
(* Memory layout of a HAL vector (poulpy-hal VecZnx and, with other element sizes, its          *)
(* siblings) over histories of the operations that change its dimensions (C17).                  *)
(* The accessors build slices from (n, cols, size) without looking at the buffer:                 *)
(*    at(col, limb) = data[ n * (limb * cols + col) .. + n ]   (8-byte elements)                  *)
(* so memory safety of every later call rests on the invariant                                   *)
(*    LayoutOK:  8 * n * cols * size <= cap   /\  size <= max_size   /\  8 * n * cols * max_size <= cap *)
(* being preserved by everything that can change the dimensions: allocation, set_size (asserts    *)
(* size <= max_size), deserialisation into the existing buffer (accepts a stream only if it is    *)
(* consistent and fits; the capacity announced by the writer is clamped to what the buffer backs), *)
(* and by being re-used afterwards.                                                               *)
EXTENDS Integers, Sequences, TLC

Undef == [st |-> "none", n |-> 0, cols |-> 0, size |-> 0, maxs |-> 0, cap |-> 0]
Bytes(n, c, s) == 8 * n * c * s
LayoutOK(o) == o.st = "none" \/ (Bytes(o.n, o.cols, o.size) <= o.cap /\ o.size <= o.maxs /\ Bytes(o.n, o.cols, o.maxs) <= o.cap)
Min2(a, b) == IF a <= b THEN a ELSE b

\* outcome of one history step s on object o: [status, obj]
Outcome(o, s) ==
  CASE s.op = "alloc" -> [status |-> "ok", obj |-> [st |-> "ok", n |-> s.n, cols |-> s.cols, size |-> s.size, maxs |-> s.size, cap |-> Bytes(s.n, s.cols, s.size)]]
    [] s.op = "set_size" -> IF s.size <= o.maxs THEN [status |-> "ok", obj |-> [o EXCEPT !.size = s.size]] ELSE [status |-> "panic", obj |-> o]
    [] s.op = "read" ->      \* a stream written by an object of dimensions (n, cols, size) announcing the capacity s.maxs
         IF s.maxs >= s.size /\ Bytes(s.n, s.cols, s.size) <= o.cap
         THEN [status |-> "ok", obj |-> [o EXCEPT !.n = s.n, !.cols = s.cols, !.size = s.size,
                                                  !.maxs = IF s.n * s.cols = 0 THEN s.maxs ELSE Min2(s.maxs, o.cap \div (8 * s.n * s.cols))]]
         ELSE [status |-> "err", obj |-> o]
    [] OTHER -> [status |-> "ok", obj |-> o]          \* probe: touch / fill / negate / normalize on the current dimensions
=============================================================================
