------------------------------ MODULE ArenaTrace ------------------------------
(* Validates logged scratch-arena histories against Arena.tla: every step's outcome (refused /   *)
(* granted, the granted region and the remainder) is the specification's, the bytes around the    *)
(* window are intact, and every region handed out lies inside the window.                         *)
EXTENDS Integers, Sequences, TLC, Json, IOUtils, Arena

Rec == ndJsonDeserialize(IOEnv.TRACE)
VARIABLES i, bad
vars == <<i, bad>>
\* first step (1-based) at which the observed outcome departs from the specification, 0 if none
RECURSIVE Walk(_, _, _)
Walk(e, regs, k) ==
  IF k > Len(e.hist) THEN 0
  ELSE LET o == AOutcome(regs, e.hist[k])
           x == e.outs[k]
       IN IF /\ x.status = o.status /\ x.canary
             /\ (o.status = "ok" => /\ x.taken[1] = o.taken.s /\ x.taken[2] = o.taken.l
                                    /\ (o.rem.l = 0 \/ x.rem[1] = o.rem.s) /\ x.rem[2] = o.rem.l)
          THEN Walk(e, o.regs, k + 1) ELSE k
Verdict(e, k) ==
  LET w == IF Len(e.outs) = Len(e.hist) THEN Walk(e, << Slice(e.boff, e.win) >>, 1) ELSE 1
  IN IF w = 0 THEN <<>> ELSE << <<k, "arena", w>> >>
Init == i = 1 /\ bad = <<>>
Next == /\ i <= Len(Rec) /\ i' = i + 1 /\ bad' = bad \o Verdict(Rec[i], i)
Spec == Init /\ [][Next]_vars
Report == (i = Len(Rec) + 1) => PrintT(<<"VERDICT", Len(Rec), ToJson(bad)>>)
=============================================================================
