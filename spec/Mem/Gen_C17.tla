------------------------------- MODULE Gen_C17 -------------------------------
(* History generator for C17 (TLC simulation): allocate, then any sequence of set_size within   *)
(* and beyond capacity, deserialisation of streams of other shapes (smaller, larger, announcing   *)
(* more capacity than the receiver has), and probes that touch every element at the current      *)
(* dimensions.  LayoutOK is an invariant of the generator's own state: TLC checks it on every     *)
(* simulated history while generating.                                                           *)
EXTENDS Integers, Sequences, TLC, Json, Layout

CONSTANTS Ns, MaxCols, MaxSize, Depth, Bes

VARIABLES obj, hist, done, be, fam
vars == <<obj, hist, done, be, fam>>
St(op, n, c, s, m, p) == [op |-> op, n |-> n, cols |-> c, size |-> s, maxs |-> m, probe |-> p]
Do(s) == LET o == Outcome(obj, s) IN obj' = o.obj /\ hist' = Append(hist, s) /\ fam' = "" /\ UNCHANGED <<done, be>>
Init == obj = Undef /\ hist = <<>> /\ done = FALSE /\ be \in Bes /\ fam = ""
Alloc == \E n \in Ns, c \in 1..MaxCols, s \in 1..MaxSize : Do(St("alloc", n, c, s, s, ""))
SetSize == \E k \in 0..(MaxSize + 2) : Do(St("set_size", 0, 0, k, 0, ""))
Read == \E n \in Ns, c \in 1..MaxCols, s \in 0..(MaxSize + 1), extra \in {0, 0, 1, 4} : Do(St("read", n, c, s, s + extra, ""))
Probe == \E p \in {"touch", "fill", "negate", "normalize", "rotate"} : Do(St("probe", 0, 0, 0, 0, p))
Pick == /\ fam = "" /\ Len(hist) >= 1 /\ Len(hist) < Depth /\ \E f \in {"set", "read", "probe", "probe"} : fam' = f /\ UNCHANGED <<obj, hist, done, be>>
DoFam == fam # "" /\ (CASE fam = "set" -> SetSize [] fam = "read" -> Read [] OTHER -> Probe)
Finish == /\ Len(hist) = Depth /\ ~done /\ done' = TRUE /\ PrintT(<<"PROG", ToJson([be |-> be, hist |-> hist])>>) /\ UNCHANGED <<obj, hist, be, fam>>
Next == (Len(hist) = 0 /\ fam = "" /\ Alloc) \/ Pick \/ DoFam \/ Finish
Spec == Init /\ [][Next]_vars
Inv == LayoutOK(obj)
=============================================================================
