------------------------------ MODULE MC_Layout ------------------------------
(* Exhaustive check of Layout.tla over a small domain: every history keeps LayoutOK, i.e. the    *)
(* contracts of set_size and read_from are enough for the unchecked accessors to stay in bounds.  *)
EXTENDS Integers, Sequences, TLC, Layout
VARIABLES obj, len
Ns == {1, 2, 4}
Steps == { [op |-> "alloc", n |-> n, cols |-> c, size |-> s, maxs |-> s] : n \in Ns, c \in 1..2, s \in 1..3 }
    \cup { [op |-> "set_size", n |-> 0, cols |-> 0, size |-> k, maxs |-> 0] : k \in 0..5 }
    \cup { [op |-> "read", n |-> n, cols |-> c, size |-> s, maxs |-> s + x] : n \in Ns, c \in 1..2, s \in 0..4, x \in {0, 1, 7} }
    \cup { [op |-> "probe", n |-> 0, cols |-> 0, size |-> 0, maxs |-> 0] }
Init == obj = Undef /\ len = 0
Next == /\ len < 5 /\ len' = len + 1
        /\ \E s \in Steps : (obj.st = "none" => s.op = "alloc") /\ obj' = Outcome(obj, s).obj
Spec == Init /\ [][Next]_<<obj, len>>
Inv == LayoutOK(obj)
\* every element the accessors can name lies inside the buffer
InBounds == obj.st = "none" \/ \A c \in 0..(obj.cols - 1) : \A j \in 0..(obj.size - 1) : 8 * (obj.n * (j * obj.cols + c) + obj.n) <= obj.cap
=============================================================================
