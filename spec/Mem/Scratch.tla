------------------------------- MODULE Scratch -------------------------------
(* The scratch arena exactly as poulpy's take_slice_aligned behaves (C12, C17).           *)
(* A slice is [s |-> start, l |-> length] with `s` relative to the window base, which is   *)
(* 64-byte aligned (ScratchOwned allocates aligned; the harness does the same).            *)
(* take(n) on a slice re-aligns its start to 64 bytes and fails iff fewer than n aligned   *)
(* bytes remain; it hands out the taken region and the remainder.  Callers may take from   *)
(* any slice the arena handed out earlier (nested scopes re-use the remainder they were    *)
(* given; split_at_mut turns a taken region into an arena of its own).                     *)
EXTENDS Integers, Sequences, FiniteSets, Pow2

AlignUp(x) == ((x + 63) \div 64) * 64
Slice(s, l) == [s |-> s, l |-> l]
AlignedLen(sl) == LET ao == AlignUp(sl.s) - sl.s IN IF sl.l >= ao THEN sl.l - ao ELSE 0
TakeFits(sl, n) == AlignedLen(sl) >= n
Taken(sl, n) == Slice(AlignUp(sl.s), n)
Rem(sl, n) == Slice(AlignUp(sl.s) + n, AlignedLen(sl) - n)
Inside(a, b) == a.s >= b.s /\ a.s + a.l <= b.s + b.l
Disjoint(a, b) == a.l = 0 \/ b.l = 0 \/ a.s + a.l <= b.s \/ b.s + b.l <= a.s

\* Replaying a logged take sequence <<off, len, n>> (the slice taken from, bytes requested):
\* every source slice must have been handed out by the arena, every take must fit.
RECURSIVE Replay(_, _, _, _)
Replay(takes, i, avail, hw) ==
  IF i > Len(takes) THEN [ok |-> TRUE, hw |-> hw, bad |-> 0]
  ELSE LET src == Slice(takes[i][1], takes[i][2])
           n == takes[i][3]
       IN IF src \notin avail THEN [ok |-> FALSE, hw |-> hw, bad |-> i]
          ELSE IF ~TakeFits(src, n) THEN [ok |-> FALSE, hw |-> hw, bad |-> i]
          ELSE Replay(takes, i + 1, avail \cup {Taken(src, n), Rem(src, n)}, Max(hw, AlignUp(src.s) + n))

\* a scratch-taking library call, as logged by the harness (hook H4)
CallOK(c) ==
  LET r == Replay(c.takes, 1, {Slice(0, c.len)}, 0) IN
  \* (a take that does not fit is logged before it panics, so "panics for lack of space" is r.ok = FALSE;
  \*  panics for other reasons are the business of the semantic properties)
  /\ c.canary
  /\ r.ok
  /\ r.hw <= c.len
  /\ c.exact => c.len = c.decl
\* memory-safety part of the above (C17): the guard bytes around the window are intact, and a call that COMPLETED was
\* never granted a take that does not fit the arena (a refused take panics, which is safe)
CallMemOK(c) ==
  LET r == Replay(c.takes, 1, {Slice(0, c.len)}, 0) IN
  /\ c.canary
  /\ (c.panic = "" => (r.ok /\ r.hw <= c.len))
=============================================================================
