CONSTANTS
  Bes = {0, 1, 2, 3}
  Ranks = {1, 2}
  Variants = {1, 2}
INIT Init
NEXT Next
INVARIANT Emit
CHECK_DEADLOCK FALSE
