------------------------------ MODULE Gen_Arena ------------------------------
(* History generator for the scratch arena (TLC simulation of Arena.tla): a window of any length  *)
(* starting at any offset modulo 64, then takes of boundary sizes (0, 1, 8, 63, 64, 65, all that   *)
(* remains, one more than remains, a wrapped element count) from the window, from remainders and   *)
(* from regions taken earlier.  ArenaOK is an invariant of the generator's own state.              *)
EXTENDS Integers, Sequences, TLC, Json, Arena

CONSTANTS Wins, Boffs, Depth, Bes
VARIABLES regs, hist, be, done
vars == <<regs, hist, be, done>>
Init == /\ \E w \in Wins, b \in Boffs : regs = << Slice(b, w) >>
        /\ hist = <<>> /\ be \in Bes /\ done = FALSE
Sizes(sl) == LET al == AlignedLen(sl) IN {0, 1, 8, 24, 63, 64, 65, 128, al, al + 1, IF al >= 8 THEN al - 8 ELSE 0, IF al >= 1 THEN al - 1 ELSE 0, sl.l}
Take == /\ Len(hist) < Depth
        /\ \E src \in 1..Len(regs), kind \in {"u8", "i64", "vec", "split", "huge"} : \E n0 \in Sizes(regs[src]) :
             LET n == IF kind \in {"i64", "vec", "huge"} THEN (n0 \div 8) * 8 ELSE n0
                 s == AStep(src, kind, n)
                 o == AOutcome(regs, s)
             IN /\ (kind = "vec" => n >= 8)
                /\ regs' = o.regs /\ hist' = Append(hist, s)
        /\ UNCHANGED <<be, done>>
Finish == /\ Len(hist) = Depth /\ ~done /\ done' = TRUE
          /\ PrintT(<<"PROG", ToJson([be |-> be, win |-> regs[1].l, boff |-> regs[1].s, hist |-> hist])>>)
          /\ UNCHANGED <<regs, hist, be>>
Next == Take \/ Finish
Spec == Init /\ [][Next]_vars
Inv == ArenaOK(regs)
=============================================================================
