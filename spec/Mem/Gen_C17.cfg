CONSTANTS
  Ns = {1, 2, 4, 8}
  MaxCols = 3
  MaxSize = 4
  Depth = 10
  Bes = {0, 1, 2, 3}
SPECIFICATION Spec
INVARIANT Inv
CHECK_DEADLOCK FALSE
