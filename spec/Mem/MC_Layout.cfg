SPECIFICATION Spec
INVARIANT Inv
INVARIANT InBounds
CHECK_DEADLOCK FALSE
