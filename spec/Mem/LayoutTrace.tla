------------------------------ MODULE LayoutTrace ------------------------------
(* Validates logged histories of a real VecZnx against Layout.tla: outcome class and dimensions  *)
(* after every step, LayoutOK on what the library reports, and no probe ending in a fault.        *)
EXTENDS Integers, Sequences, TLC, Json, IOUtils, Layout

Rec == ndJsonDeserialize(IOEnv.TRACE)
VARIABLES i, bad
vars == <<i, bad>>
Check(e) ==
  LET RECURSIVE Walk(_, _)
      Walk(o, k) ==
        IF k > Len(e.outs) THEN <<>>
        ELSE LET s == e.hist[k]
                 ob == e.outs[k]
                 want == Outcome(o, s)
                 seen == [st |-> "ok", n |-> ob.n, cols |-> ob.cols, size |-> ob.size, maxs |-> ob.maxs, cap |-> ob.cap]
                 v1 == IF ob.status # want.status THEN <<"status">> ELSE <<>>
                 v2 == IF ob.n # want.obj.n \/ ob.cols # want.obj.cols \/ ob.size # want.obj.size \/ ob.maxs # want.obj.maxs \/ ob.cap # want.obj.cap THEN <<"dims">> ELSE <<>>
                 v3 == IF ~LayoutOK(seen) THEN <<"layout">> ELSE <<>>
                 v4 == IF ~ob.canary THEN <<"canary">> ELSE <<>>
                 vs == v3 \o v4 \o v1 \o v2
             IN IF vs # <<>> THEN << <<k, vs[1]>> >> ELSE Walk(want.obj, k + 1)
  IN Walk(Undef, 1)
Verdict(e, k) == LET c == Check(e) IN
  (IF c = <<>> THEN <<>> ELSE << <<k, c[1][2], c[1][1]>> >>) \o (IF Len(e.outs) = Len(e.hist) THEN <<>> ELSE << <<k, "incomplete", Len(e.outs)>> >>)
Init == i = 1 /\ bad = <<>>
Next == /\ i <= Len(Rec) /\ i' = i + 1 /\ bad' = bad \o Verdict(Rec[i], i)
Spec == Init /\ [][Next]_vars
Report == (i = Len(Rec) + 1) => PrintT(<<"VERDICT", Len(Rec), ToJson(bad)>>)
=============================================================================
