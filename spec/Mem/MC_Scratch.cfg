CONSTANTS
  Sizes = {8, 48, 64, 72, 128}
  MaxDepth = 4
  Len0 = 256
INIT Init
NEXT Next
CHECK_DEADLOCK FALSE
INVARIANTS TakenOK NoAliasing AlignedSumSuffices
