---------------------------- MODULE TmpBytesTrace ----------------------------
(* C12, last sentence: "size queries are monotone enough that the maximum over a set of    *)
(* operations serves all of them".  The harness dumps every shape-parameterised scratch-size *)
(* query over a grid together with its values at the neighbouring shapes (one size argument  *)
(* increased by one); a query is monotone iff no neighbour is smaller.  One state per row.   *)
EXTENDS Integers, Sequences, TLC, Json, IOUtils

Rec == ndJsonDeserialize(IOEnv.TRACE)
VARIABLES i, bad
vars == <<i, bad>>
RowOK(r) == \A k \in 1..Len(r.next) : r.bytes <= r.next[k]
Init == i = 1 /\ bad = <<>>
Next == /\ i <= Len(Rec) /\ i' = i + 1
        /\ bad' = IF RowOK(Rec[i]) THEN bad ELSE Append(bad, i)
Spec == Init /\ [][Next]_vars
Report == (i = Len(Rec) + 1) => PrintT(<<"VERDICT", Len(Rec), ToJson(bad)>>)
=============================================================================
