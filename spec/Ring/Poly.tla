------------------------------- MODULE Poly -------------------------------
(* The quotient ring R_N = Z[X]/(X^N + 1), N a power of two (N = 1 allowed).          *)
(* A polynomial is a sequence of N integers; p[i+1] is the coefficient of X^i.        *)
(* Everything here is the *mathematical definition* (index arithmetic from the        *)
(* quotient), not a transcription of any kernel of the library.                       *)
EXTENDS Integers, Sequences, Pow2

PLen(p) == Len(p)
PZero(N) == [i \in 1..N |-> 0]
PConst(N, c) == [i \in 1..N |-> IF i = 1 THEN c ELSE 0]
PAdd(p, q) == [i \in 1..Len(p) |-> p[i] + q[i]]
PSub(p, q) == [i \in 1..Len(p) |-> p[i] - q[i]]
PNeg(p)    == [i \in 1..Len(p) |-> -p[i]]
PScale(p, c) == [i \in 1..Len(p) |-> c * p[i]]
PMap(p, F(_)) == [i \in 1..Len(p) |-> F(p[i])]

\* multiplication by X^k for any integer k (X^N = -1, X^(2N) = 1)
MulXk(p, k) ==
  LET N == Len(p) IN
  [i \in 1..N |-> LET t == ((i - 1) - k) % (2 * N) IN
                  IF t < N THEN p[t + 1] ELSE -p[t - N + 1]]

\* multiplication by (X^k - 1)
MulXkMinusOne(p, k) == PSub(MulXk(p, k), p)

\* Galois automorphism X -> X^g, g odd (any integer representative)
\* coefficient j of p moves to exponent j*g mod 2N, with a sign when it lands in [N, 2N)
AutoSrc(N, g, i) ==   \* the unique j in 0..N-1 with j*g \equiv i or i+N (mod 2N), and its sign
  CHOOSE js \in (0..(N - 1)) \X {1, -1} :
      LET t == (js[1] * g) % (2 * N) IN
        \/ (js[2] = 1  /\ t = i)
        \/ (js[2] = -1 /\ t = i + N)
Auto(p, g) ==
  LET N == Len(p) IN
  [i \in 1..N |-> LET js == AutoSrc(N, g, i - 1) IN js[2] * p[js[1] + 1]]

\* schoolbook negacyclic product
NegacyclicCoeff(p, q, k) ==     \* coefficient of X^k, k in 0..N-1
  LET N == Len(p)
      RECURSIVE S(_)
      S(i) == IF i = N THEN 0
              ELSE LET j == (k - i) % N
                       sg == IF i + j = k THEN 1 ELSE -1
                   IN sg * p[i + 1] * q[j + 1] + S(i + 1)
  IN S(0)
NegacyclicMul(p, q) == [k \in 1..Len(p) |-> NegacyclicCoeff(p, q, k - 1)]

\* ring-degree switching  R_Nin -> R_Nout :  X -> X^(Nout/Nin) (embedding) or its one-sided inverse
\* (keep the coefficients whose exponent is a multiple of Nin/Nout)
SwitchRing(p, Nout) ==
  LET Nin == Len(p) IN
  IF Nin = Nout THEN p
  ELSE IF Nin > Nout
       THEN LET gap == Nin \div Nout IN [i \in 1..Nout |-> p[(i - 1) * gap + 1]]
       ELSE LET gap == Nout \div Nin IN
            [i \in 1..Nout |-> IF (i - 1) % gap = 0 THEN p[((i - 1) \div gap) + 1] ELSE 0]

\* splitting p(X) = sum_{r < gap} X^r * p_r(X^gap): the r-th part collects exponents = r (mod gap)
SplitPart(p, Nout, r) ==
  LET gap == Len(p) \div Nout IN [i \in 1..Nout |-> p[(i - 1) * gap + r + 1]]
\* merging is the inverse interleaving
Merge(parts, Nout) ==
  LET gap == Len(parts) IN
  [i \in 1..Nout |-> parts[((i - 1) % gap) + 1][((i - 1) \div gap) + 1]]

\* 1-norm / inf-norm
RECURSIVE SumAbs(_, _)
SumAbs(p, i) == IF i > Len(p) THEN 0 ELSE Abs(p[i]) + SumAbs(p, i + 1)
Norm1(p) == SumAbs(p, 1)
NormInfLe(p, B) == \A i \in 1..Len(p) : Abs(p[i]) <= B

\* (Z/2NZ)^*: odd residues; galois element for a signed generator power, generator 5:
\*   galois_element(k) = 5^|k| mod 2N for k >= 0, and its negation for k < 0 handled by callers.
RECURSIVE PowMod(_, _, _)
PowMod(g, e, m) == IF e = 0 THEN 1 % m ELSE (g * PowMod(g, e - 1, m)) % m
=============================================================================
