CONSTANTS
  Ns = {1, 2, 4, 8}
INIT Init
NEXT Next
CHECK_DEADLOCK FALSE
INVARIANTS RotCompose RotPeriod RotInverse XpMinusOne AutoCompose AutoHom AutoGenInv AutoId SplitMerge SwitchUpDown MulRot MulComm MulMonomial
