------------------------------- MODULE MC_Poly -------------------------------
(* Model check of the ring laws the library's users rely on (C09, spec alone):          *)
(* rotations compose and invert as Z/2N does, automorphisms as (Z/2NZ)^* does (with the *)
(* library's signed generator convention), (X^k - 1) is rotation minus identity,         *)
(* merging the parts of a split is the identity, switching down after switching up is    *)
(* the identity, and the negacyclic product is compatible with rotation.                 *)
EXTENDS Integers, Sequences, FiniteSets, TLC, Pow2, Poly

CONSTANTS Ns

Tag(N)  == [i \in 1..N |-> 10 + i]
Tag2(N) == [i \in 1..N |-> IF i % 2 = 0 THEN 3 * i + 1 ELSE -(7 * i) - 2]
Polys(N) == {Tag(N), Tag2(N)}

\* the library's signed convention (poulpy-hal/src/layouts/module.rs):
\*   galois_element(k)     = sign(k) * (5^|k| mod 2N)          (k = 0 -> 1)
\*   galois_element_inv(g) = sign(g) * (|g|^(2N-1) mod 2N)
Sgn(v) == IF v < 0 THEN -1 ELSE IF v > 0 THEN 1 ELSE 0
GaloisElement(k, N) == IF k = 0 THEN 1 ELSE Sgn(k) * PowMod(5, Abs(k), 2 * N)
GaloisElementInv(g, N) == Sgn(g) * PowMod(Abs(g) % (2 * N), 2 * N - 1, 2 * N)

VARIABLES n, x, y
vars == <<n, x, y>>

Init == /\ n \in Ns
        /\ x \in (-4 * 16)..(4 * 16)
        /\ y \in (-4 * 16)..(4 * 16)
        /\ Abs(x) <= 4 * n /\ Abs(y) <= 4 * n
Next == UNCHANGED vars

RotCompose   == \A p \in Polys(n) : MulXk(MulXk(p, x), y) = MulXk(p, x + y)
RotPeriod    == \A p \in Polys(n) : MulXk(p, x + 2 * n) = MulXk(p, x) /\ MulXk(p, n) = PNeg(p) /\ MulXk(p, 0) = p
RotInverse   == \A p \in Polys(n) : MulXk(MulXk(p, x), -x) = p
XpMinusOne   == \A p \in Polys(n) : MulXkMinusOne(p, x) = PSub(MulXk(p, x), p)
IsOdd(g) == g % 2 = 1
AutoCompose  == (IsOdd(x) /\ IsOdd(y)) => \A p \in Polys(n) : Auto(Auto(p, x), y) = Auto(p, (x * y) % (2 * n))
AutoHom      == IsOdd(x) => Auto(MulXk(Tag(n), y), x) = MulXk(Auto(Tag(n), x), x * y)
AutoGenInv   == LET g == GaloisElement(x, n) IN \A p \in Polys(n) : Auto(Auto(p, g), GaloisElementInv(g, n)) = p
AutoId       == \A p \in Polys(n) : Auto(p, 1) = p /\ Auto(p, 2 * n + 1) = p
SplitMerge   == \A g \in {2, 4, 8, 16} : (g <= n /\ n % g = 0) =>
                  \A p \in Polys(n) : Merge([r \in 1..g |-> SplitPart(p, n \div g, r - 1)], n) = p
SwitchUpDown == \A g \in {2, 4, 8, 16} : \A p \in Polys(n) :
                  /\ SwitchRing(SwitchRing(p, n * g), n) = p
                  /\ SwitchRing(p, n * g) = Merge([r \in 1..g |-> IF r = 1 THEN p ELSE PZero(n)], n * g)
MulRot       == NegacyclicMul(MulXk(Tag(n), x), Tag2(n)) = MulXk(NegacyclicMul(Tag(n), Tag2(n)), x)
MulComm      == NegacyclicMul(Tag(n), Tag2(n)) = NegacyclicMul(Tag2(n), Tag(n))
MulMonomial  == NegacyclicMul(Tag2(n), MulXk(PConst(n, 1), x)) = MulXk(Tag2(n), x)
=============================================================================
