------------------------------- MODULE Gen_Lut -------------------------------
(* Behaviour generator for lookup tables and blind rotation (C14): clear path = every table    *)
(* length dividing the domain x every rotation index in [0, 2N*ext) (the harness walks the       *)
(* indices listed in "rots"); blind path = every message of Z_(2^(p+1)) (the upper half wraps      *)
(* around: negacyclic sign), p = 1..4(5), extension factors, standard and block binary keys,       *)
(* LWE radix below / above log2(2N*ext), both directions, ranks, keys, four back-ends.            *)
EXTENDS Integers, Sequences, TLC, Json

CONSTANTS Ns, Exts, MaxP, Keys, BrN

Pow(x) == 2 ^ x
Seq0(n, F(_)) == [i \in 1..n |-> F(i - 1)]
\* table entries: odd, sign alternating, below 2^(kmsg-1) in absolute value
Entry(i, kmsg) == LET m == Pow(kmsg - 1) v == (3 * i + 1) % m IN IF i % 2 = 0 THEN v ELSE -v
BrF(p) == Seq0(Pow(p), LAMBDA i : 2 * i + 1)
KeyShapes == << <<8, 1>>, <<14, 7>>, <<12, 4>> >>          \* (LWE dimension, block size); block 1 = standard binary
HwMax(ks) == IF ks[2] = 1 THEN ks[1] ELSE ks[1] \div ks[2]

VARIABLE c
Init == c = [kind |-> "none"]
Next == /\ c.kind = "none"
        /\ \/ \E n \in Ns, ext \in Exts, b \in {3, 4}, size \in 1..3, kmsg \in 2..9, ll \in 0..7 :
                LET D == n * ext len == Pow(ll) IN
                /\ len <= n /\ kmsg <= size * b /\ size * b <= 12        \* lookup_table_set asserts f.len() <= n
                /\ c' = [kind |-> "lut", n |-> n, ext |-> ext, b |-> b, size |-> size, kmsg |-> kmsg, f |-> Seq0(len, LAMBDA i : Entry(i, kmsg)),
                         rots |-> Seq0(2 * D, LAMBDA i : IF i % 2 = 0 THEN i ELSE i - 2 * D)]       \* every index, as k and as k - 2D
           \/ \E be \in 0..3, ext \in {1, 2, 4}, rank \in {1, 2}, ksi \in 1..3, blwe \in {3, 4, 6, 12}, p \in 1..MaxP, msg \in 0..63, dir \in {"left", "right"}, key \in Keys :
                LET ks == KeyShapes[ksi]
                    D == BrN * ext
                    step == D \div Pow(p)
                IN /\ msg < Pow(p + 1)
                   /\ (ext > 1 => ks[2] > 1)
                   /\ c' = [kind |-> "br", be |-> be, n |-> BrN, ext |-> ext, b |-> 19, rank |-> rank, nlwe |-> ks[1], block |-> ks[2], blwe |-> blwe, klwe |-> 24,
                            p |-> p, msg |-> msg, f |-> BrF(p), dir |-> dir, key |-> key, strict |-> (step \div 2 > (HwMax(ks) + 1) \div 2 + 2)]
Emit == c.kind # "none" => PrintT(<<"DESC", ToJson(c)>>)
=============================================================================
