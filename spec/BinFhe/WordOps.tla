------------------------------- MODULE WordOps -------------------------------
(* RISC-V style 32-bit word operations as propositional recurrences over the 64 input bits *)
(*   x[0..31] = a (bit 0 least significant),  x[32..63] = b                                *)
(* (the numbering of FheUintHelper::get_bit).  SpecBit(op, i, x) is bit i of op(a, b).     *)
(* Purely Boolean: usable by TLC (concrete x) and by Apalache (symbolic x).                *)
EXTENDS Integers

A(x, i) == x[i]
B(x, i) == x[32 + i]
Xor(p, q) == p # q
Maj(p, q, r) == (p /\ q) \/ (p /\ r) \/ (q /\ r)

\* carry into position i of a + b
RECURSIVE Carry(_, _)
Carry(x, i) == IF i = 0 THEN FALSE ELSE Maj(A(x, i - 1), B(x, i - 1), Carry(x, i - 1))
\* borrow into position i of a - b
RECURSIVE Borrow(_, _)
Borrow(x, i) == IF i = 0 THEN FALSE
                ELSE (~A(x, i - 1) /\ B(x, i - 1)) \/ (~Xor(A(x, i - 1), B(x, i - 1)) /\ Borrow(x, i - 1))

\* shift amount = b mod 32 = bits b[0..4]; barrel shifter: stage k shifts by 2^k when b[k] is set
Sh(x, k) == B(x, k)
Pw(k) == CASE k = 0 -> 1 [] k = 1 -> 2 [] k = 2 -> 4 [] k = 3 -> 8 [] k = 4 -> 16
\* value of bit i after stages 0..k-1 of a left shift (zero fill)
RECURSIVE SllStage(_, _, _)
SllStage(x, k, i) == IF i < 0 THEN FALSE
                     ELSE IF k = 0 THEN A(x, i)
                     ELSE IF Sh(x, k - 1) THEN SllStage(x, k - 1, i - Pw(k - 1)) ELSE SllStage(x, k - 1, i)
\* right shifts: fill = FALSE (logical) or the sign bit a[31] (arithmetic)
RECURSIVE SrStage(_, _, _, _)
SrStage(x, k, i, fill) == IF i > 31 THEN fill
                          ELSE IF k = 0 THEN A(x, i)
                          ELSE IF Sh(x, k - 1) THEN SrStage(x, k - 1, i + Pw(k - 1), fill) ELSE SrStage(x, k - 1, i, fill)

\* unsigned a < b: scan from the most significant bit; Lt(i) = comparison of bits i-1..0
RECURSIVE LtU(_, _)
LtU(x, i) == IF i = 0 THEN FALSE
             ELSE (~A(x, i - 1) /\ B(x, i - 1)) \/ (~Xor(A(x, i - 1), B(x, i - 1)) /\ LtU(x, i - 1))
\* LtU(x, i) compares the low i bits with bit i-1 the most significant of them
LtUnsigned(x) == LtU(x, 32)
LtSigned(x) == IF Xor(A(x, 31), B(x, 31)) THEN A(x, 31) ELSE LtU(x, 31)

SpecBit(op, i, x) ==
  CASE op = "add" -> Xor(Xor(A(x, i), B(x, i)), Carry(x, i))
    [] op = "sub" -> Xor(Xor(A(x, i), B(x, i)), Borrow(x, i))
    [] op = "sll" -> SllStage(x, 5, i)
    [] op = "srl" -> SrStage(x, 5, i, FALSE)
    [] op = "sra" -> SrStage(x, 5, i, A(x, 31))
    [] op = "slt" -> (i = 0 /\ LtSigned(x))
    [] op = "sltu" -> (i = 0 /\ LtUnsigned(x))
    [] op = "and" -> A(x, i) /\ B(x, i)
    [] op = "or" -> A(x, i) \/ B(x, i)
    [] op = "xor" -> Xor(A(x, i), B(x, i))
    [] op = "identity" -> A(x, i)
Ops == {"add", "sub", "sll", "srl", "sra", "slt", "sltu", "and", "or", "xor", "identity"}
=============================================================================
