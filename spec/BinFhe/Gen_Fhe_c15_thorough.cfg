CONSTANTS
  Ops = {"add", "sub", "and", "or", "xor", "sll", "srl", "sra", "slt", "sltu"}
  NPairs = 120
  Many = FALSE
  Starts = {0, 1, 5, 8, 16, 24, 31}
  Counts = {1, 2, 7, 8, 11, 16, 24, 31, 32}
  Bes = {0, 1}
  NChains = 40
  Blind = 2
  NSurg = 3
INIT Init
NEXT Next
INVARIANT Emit
CHECK_DEADLOCK FALSE
