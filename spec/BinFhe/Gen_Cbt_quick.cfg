CONSTANTS
  Bes = {0, 1}
  Kpts = {1, 3}
  Gaps = {0, 2, 5, 7}
  Exts = {1, 2}
  Rows = {2, 3}
INIT Init
NEXT Next
INVARIANT Emit
CHECK_DEADLOCK FALSE
