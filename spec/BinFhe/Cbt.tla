--------------------------------- MODULE Cbt ---------------------------------
(* Circuit bootstrapping, cell by cell (C15): an LWE encryption of data in [0, 2^kpt) becomes a   *)
(* GGSW whose EVERY cell (row r, column c) encrypts  m * G_r * (1 | s_c)  with                      *)
(*     m = data                      (constant mode)                                                *)
(*     m = X^(data * 2^gap)          (exponent mode, negacyclic)                                    *)
(* The harness measures, with the library's noise helper and the clear secret, the largest          *)
(* coefficient of  phase(cell) - m' * G_r * (1 | s_c)  for every candidate m' of the domain.          *)
(* The statement: against the expected message every cell is below the noise floor 2^-(2B+2)         *)
(* (two gadget rows decode exactly with two bits to spare), and the expected message is the ONLY      *)
(* candidate for which that holds (a wrong candidate leaves an error of one gadget unit in row 0).    *)
EXTENDS Integers, Sequences

Floor(e) == -(2 * e.resb + 2)
Entry(e, cand) == LET K == {k \in 1..Len(e.noise) : e.noise[k].cand = cand} IN e.noise[CHOOSE k \in K : TRUE]
CellsBelow(t, f) == \A r \in 1..Len(t.cells) : \A c \in 1..Len(t.cells[r]) : t.cells[r][c] <= f
CbtOK(e) ==
  /\ e.panic = ""
  /\ Len(e.noise) = 2 ^ e.kpt
  /\ CellsBelow(Entry(e, e.data), Floor(e))
  /\ \A k \in 1..Len(e.noise) : e.noise[k].cand # e.data => ~CellsBelow(e.noise[k], Floor(e))
=============================================================================
