------------------------------- MODULE Gen_Cbt -------------------------------
(* Behaviour generator for circuit bootstrapping: both modes, every message of the domain,       *)
(* domain sizes, output gaps (exponent mode, up to the negacyclic wrap), extension factors,        *)
(* result row counts, both FFT64 back-ends.  One state per descriptor (invariant Emit).            *)
EXTENDS Integers, Sequences, TLC, Json
CONSTANTS Bes, Kpts, Gaps, Exts, Rows
\* the blind rotation's table has 2^kpt * alpha entries (alpha = rows rounded up to a power of two) over N * ext positions:
\* below 16 positions per entry the mod-switching noise of the LWE input makes the bootstrap fail with visible probability
\* (a parameter choice, not a defect), so those shapes are not generated.  Exponent mode: the API asserts kpt + gap <= log2 N.
NC == 256
LogNC == 8
RECURSIVE Alpha(_)
Alpha(r) == IF r <= 1 THEN 1 ELSE 2 * Alpha((r + 1) \div 2)
Roomy(kpt, rows, ext) == 16 * (2 ^ kpt) * Alpha(rows) <= NC * ext
VARIABLE c
Init == c = [mode |-> "none"]
Next == /\ c.mode = "none"
        /\ \/ \E be \in Bes, kpt \in Kpts, ext \in Exts, rows \in Rows : \E data \in 0..(2 ^ kpt - 1) :
                /\ Roomy(kpt, rows, ext)
                /\ c' = [mode |-> "constant", be |-> be, data |-> data, kpt |-> kpt, klwe |-> 13, gap |-> 0, ext |-> ext, rows |-> rows]
           \/ \E be \in Bes, kpt \in Kpts, gap \in Gaps, ext \in Exts, rows \in Rows : \E data \in 0..(2 ^ kpt - 1) :
                /\ Roomy(kpt, rows, ext) /\ kpt + gap <= LogNC
                /\ c' = [mode |-> "exponent", be |-> be, data |-> data, kpt |-> kpt, klwe |-> 22, gap |-> gap, ext |-> ext, rows |-> rows]
Emit == c.mode # "none" => PrintT(<<"DESC", ToJson(c)>>)
=============================================================================
