------------------------------ MODULE FheTrace ------------------------------
(* Validates logged encrypted-integer behaviours (poulpy-bin-fhe, FheUint<u32>):              *)
(*  C15: the decrypted result of every word operation equals WordOps.SpecBit bit for bit;      *)
(*       a (partially) prepared word read back equals the selected bits; chains through         *)
(*       re-preparation (circuit bootstrapping) compose.                                       *)
(*  C20: for every thread count the result bytes equal the single-threaded ones, and the H3     *)
(*       log of executed work items is the partition of Partition.tla: every item of            *)
(*       [first, first+n) exactly once, item i by thread (i - first) div ceil(n / threads).     *)
EXTENDS Integers, Sequences, FiniteSets, TLC, Json, IOUtils, WordOps, Select

Rec == ndJsonDeserialize(IOEnv.TRACE)
VARIABLES i, bad
vars == <<i, bad>>

X(abits, bbits) == [k \in 0..63 |-> IF k < 32 THEN abits[k + 1] = 1 ELSE bbits[k - 31] = 1]
WordOK(op, abits, bbits, out) == Len(out) = 32 /\ \A k \in 0..31 : (out[k + 1] = 1) <=> SpecBit(op, k, X(abits, bbits))
SpecWord(op, abits, bbits) == [k \in 1..32 |-> IF SpecBit(op, k - 1, X(abits, bbits)) THEN 1 ELSE 0]

\* ---- partition (same definitions as Partition.tla, as operators of the logged parameters)
Chunk(n, th) == (n + th - 1) \div th
Owner(n, th, first, item) == (item - first) \div Chunk(n, th)
PartitionOK(o) ==
  LET th == IF o.threads = 0 THEN 1 ELSE o.threads
      n == o.nitems
      first == IF "first" \in DOMAIN o THEN o.first ELSE 0
      its == o.items
  IN /\ Len(its) = n
     /\ \A item \in first..(first + n - 1) : Cardinality({k \in 1..Len(its) : its[k][3] = item}) = 1       \* exactly once
     /\ \A k \in 1..Len(its) : /\ its[k][1] = o.site
                               /\ its[k][3] >= first /\ its[k][3] < first + n
                               /\ its[k][2] = Owner(n, th, first, its[k][3])                                 \* by its owner
\* slt / sltu produce one output bit; the circuit's output size is what the library reports through the log length
NItems(e, o) == IF e.kind = "word" /\ e.op \in {"slt", "sltu"} THEN 1 ELSE o.nitems

\* ---- oblivious data movement (Select.tla): decoded plaintexts are sparse lists << <<index, value>>, .. >>
Enc(v) == IF v = ZERO THEN <<>> ELSE << <<0, v>> >>
ItemOf(x) == IF Len(x) = 1 /\ x[1][1] = 0 THEN x[1][2] ELSE -1
BlindOK(e) ==
  LET o == e.outs[1]
      kb == e.abits
  IN /\ Len(e.outs) = 1 /\ o.panic = ""
     /\ CASE e.op = "select" ->
               LET S == {e.keys[j] : j \in 1..Len(e.keys)} IN o.res[1] = Enc(SelectSpec([x \in S |-> x + 1], kb, e.rsh, e.mask))
          [] e.op = "retrieval" ->
               LET fwd == [j \in 1..e.n |-> ItemOf(o.res[1][j])]
                   rev == [j \in 1..e.n |-> ItemOf(o.res[2][j])]
                   d == [j \in 1..e.n |-> j]
               IN /\ Len(o.res[1]) = e.n /\ Len(o.res[2]) = e.n
                  /\ RetrSpec(d, fwd, kb, e.rsh, e.mask)
                  /\ {fwd[j] : j \in 1..e.n} = 1..e.n
                  /\ rev = d
          [] e.op = "retriever" ->
               /\ Len(o.res) = Len(e.rounds)
               /\ \A r \in 1..Len(e.rounds) :
                    LET added == [k \in 1..e.rounds[r] |-> 10 * (r - 1) + k]
                    IN \E v \in RetrieverSpec(added, kb, e.rsh, CeilLog2(e.size)) : o.res[r] = Enc(v)
          [] e.op = "retrieve" ->
               LET added == [k \in 1..e.n |-> k] IN \E v \in RetrieverSpec(added, kb, e.rsh, CeilLog2(e.size)) : o.res[1] = Enc(v)
          [] e.op = "cswap" ->
               (IF Bit(kb, e.rsh) = 1 THEN o.res = << Enc(2), Enc(1) >> ELSE o.res = << Enc(1), Enc(2) >>)
          [] OTHER ->   \* rotate / rotate_assign: the monomial val * X^pos times X^RotExp
               LET N == 256
                   t == (e.pos + RotExp(kb, e.rsh, e.mask, e.lsh, e.neg)) % (2 * N)
               IN o.res[1] = << << (IF t < N THEN t ELSE t - N), (IF t < N THEN e.val ELSE -e.val) >> >>
SemOK(e) ==
  CASE e.kind = "word" -> \A k \in 1..Len(e.outs) : e.outs[k].panic = "" /\ WordOK(e.op, e.abits, e.bbits, e.outs[k].out)
    [] e.kind = "prep" -> \A k \in 1..Len(e.outs) : /\ e.outs[k].panic = ""
                                                   /\ \A b \in 0..31 : (e.outs[k].out[b + 1] = 1) <=> (b >= e.start /\ b < e.start + e.count /\ e.abits[b + 1] = 1)
    [] e.kind = "surgery" ->
         LET Ab(k) == e.abits[k + 1]
             Bb(k) == e.bbits[k + 1]
             Want(k) == CASE e.op = "sext" -> (IF k < 8 * (e.i0 + 1) THEN Ab(k) ELSE Ab(8 * (e.i0 + 1) - 1))
                          [] e.op = "zero_byte" -> (IF k \div 8 = e.i0 THEN 0 ELSE Ab(k))
                          [] e.op = "splice_u8" -> (IF k \div 8 = e.i0 THEN Bb(8 * e.i1 + (k % 8)) ELSE Ab(k))
                          [] e.op = "splice_u16" -> (IF k \div 16 = e.i0 THEN Bb(16 * e.i1 + (k % 16)) ELSE Ab(k))
                          [] OTHER -> (IF k = 0 THEN Ab(e.i0) ELSE 0)           \* get_bit: the selected bit as the word 0 / 1
         IN \A o \in 1..Len(e.outs) : e.outs[o].panic = "" /\ \A k \in 0..31 : e.outs[o].out[k + 1] = Want(k)
    [] e.kind = "blind" -> BlindOK(e)
    [] e.kind = "shared" -> \A k \in 1..Len(e.outs) : e.outs[k].panic = "" /\ WordOK(e.outs[k].op, e.abits, e.bbits, e.outs[k].out)
    [] OTHER ->  \* chain
         LET RECURSIVE Go(_, _)
             Go(k, cur) == IF k > Len(e.outs) THEN TRUE
                           ELSE /\ e.outs[k].panic = ""
                                /\ e.outs[k].out = SpecWord(e.outs[k].op, cur, e.bbits)
                                /\ Go(k + 1, e.outs[k].out)
         IN Len(e.outs) = Len(e.ops) /\ Go(1, e.abits)
ThreadsOK(e) ==
  CASE e.kind \in {"chain", "surgery", "blind"} -> TRUE
    [] e.kind = "shared" -> \A k \in 1..Len(e.outs) : \A j \in 1..Len(e.outs[k].conc) : e.outs[k].conc[j] = e.outs[k].digest     \* shared module / key / operands
    [] OTHER -> \A k \in 1..Len(e.outs) : e.outs[k].digest = e.outs[1].digest
PartOK(e) == e.kind \in {"chain", "shared", "surgery", "blind"} \/ \A k \in 1..Len(e.outs) : e.outs[k].panic # "" \/ PartitionOK([e.outs[k] EXCEPT !.nitems = NItems(e, e.outs[k])])
Verdict(e, k) ==
     (IF SemOK(e) THEN <<>> ELSE << <<k, "sem">> >>)
  \o (IF ThreadsOK(e) THEN <<>> ELSE << <<k, "threads">> >>)
  \o (IF PartOK(e) THEN <<>> ELSE << <<k, "partition">> >>)
Init == i = 1 /\ bad = <<>>
Next == /\ i <= Len(Rec) /\ i' = i + 1 /\ bad' = bad \o Verdict(Rec[i], i)
Spec == Init /\ [][Next]_vars
Report == (i = Len(Rec) + 1) => PrintT(<<"VERDICT", Len(Rec), ToJson(bad)>>)
=============================================================================
