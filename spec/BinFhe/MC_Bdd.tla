-------------------------------- MODULE MC_Bdd --------------------------------
(* TLC driver for C13 over the tables extracted from the compiled crate (hook H1):         *)
(*   Structure : every one of the 290 bit circuits is well formed (Bdd!WellFormed);         *)
(*   Function  : for every input pair of the dictionary each circuit evaluates to the bit   *)
(*               WordOps!SpecBit prescribes (the all-inputs statement is Apalache's job);   *)
(*   Binding of WordOps to Rust: SpecBit agrees with the plain Rust result logged by the    *)
(*               harness for the same pairs.                                                *)
(* One state per (bit circuit) for structure, per (pair) for the function check.            *)
EXTENDS Integers, Sequences, FiniteSets, TLC, Json, IOUtils, Bdd, WordOps

Tables == ndJsonDeserialize(IOEnv.TABLES)      \* [op, bit, w, nin, nout, nodes]
Words == ndJsonDeserialize(IOEnv.WORDS)        \* [op, a: <<lo16, hi16>>, b, r]

Bit16(h, i) == ((h \div (2 ^ i)) % 2) = 1
WordBit(wd, i) == IF i < 16 THEN Bit16(wd[1], i) ELSE Bit16(wd[2], i - 16)
X(a, b) == [k \in 0..63 |-> IF k < 32 THEN WordBit(a, k) ELSE WordBit(b, k - 32)]

VARIABLES phase, i
vars == <<phase, i>>
Init == phase = "structure" /\ i = 1
Next == \/ /\ phase = "structure" /\ i < Len(Tables) /\ i' = i + 1 /\ UNCHANGED phase
        \/ /\ phase = "structure" /\ i = Len(Tables) /\ phase' = "function" /\ i' = 1
        \/ /\ phase = "function" /\ i < Len(Words) /\ i' = i + 1 /\ UNCHANGED phase
Spec == Init /\ [][Next]_vars

StructureOK == phase = "structure" => LET t == Tables[i] IN WellFormed(t.nodes, t.w, t.nin)
\* the declared family sizes: at most 64 input bits (two words; shifts declare 32 + 5, identity 32);
\* a bit index beyond nout does not exist (the evaluator zeroes those outputs)
ShapeOK == phase = "structure" => LET t == Tables[i] IN t.nin <= 64 /\ t.nin >= 32 /\ t.bit < t.nout

\* circuits of this row's operation
RowTables(op) == {k \in 1..Len(Tables) : Tables[k].op = op}
FunctionOK ==
  phase = "function" =>
    LET r == Words[i]
        x == X(r.a, r.b)
    IN \A k \in RowTables(r.op) : Eval(Tables[k].nodes, Tables[k].w, x) = SpecBit(r.op, Tables[k].bit, x)
\* WordOps vs the plain Rust result; output bits the table does not provide are 0 (slt/sltu have one output bit)
RustOK ==
  phase = "function" =>
    LET r == Words[i]
        x == X(r.a, r.b)
    IN \A b \in 0..31 : SpecBit(r.op, b, x) = WordBit(r.r, b)
=============================================================================
