--------------------------------- MODULE Bdd ---------------------------------
(* Level-by-level selection semantics of the BDD evaluator (bdd_arithmetic/eval.rs) and the *)
(* structural well-formedness of a compiled bit circuit (C13).                              *)
(* A bit circuit is (nodes, w): `nodes` is a flat sequence of levels of w slots each; a node *)
(* is <<kind, in, hi, lo>> with kind 0 = Cmux(in, hi, lo), 1 = Copy, 2 = None.               *)
(* The state before the first level is  slot 0 = 0, slot 1 = 1, every other slot 0.          *)
(* A level maps slot j to  IF x[in] THEN prev[hi] ELSE prev[lo]  (Cmux),  prev[j] (Copy) or   *)
(* leaves it UNDEFINED (None).  The result is slot 0 of the last level (which must be a Cmux).*)
(* A circuit of declared width 0 denotes the constant 0.                                     *)
EXTENDS Integers, Sequences, FiniteSets

Kind(n) == n[1]
NLevels(nodes, w) == Len(nodes) \div w
Node(nodes, w, l, j) == nodes[(l - 1) * w + j + 1]          \* level l in 1..NLevels, slot j in 0..w-1

U == "undef"
Init0(j) == IF j = 1 THEN TRUE ELSE FALSE
Sel(c, t, e) == IF c THEN t ELSE e

\* value of slot j after level l (l = 0: initial state); three-valued (TRUE, FALSE, U)
RECURSIVE Val(_, _, _, _, _)
Val(nodes, w, x, l, j) ==
  IF l = 0 THEN Init0(j)
  ELSE LET n == Node(nodes, w, l, j) IN
       CASE Kind(n) = 0 -> Val(nodes, w, x, l - 1, IF x[n[2]] THEN n[3] ELSE n[4])
         [] Kind(n) = 1 -> Val(nodes, w, x, l - 1, j)
         [] OTHER -> U
Eval(nodes, w, x) == IF w = 0 THEN FALSE ELSE Val(nodes, w, x, NLevels(nodes, w), 0)

\* ---- structure: top-down reachability from the root over (level, slot), following both branches
RECURSIVE Reach(_, _, _, _)
Reach(nodes, w, frontier, l) ==     \* set of slots of level l that the output can depend on; returns the union of [l |-> slots]
  IF l = 0 THEN {<<0, j>> : j \in frontier}
  ELSE LET nxt == UNION { LET n == Node(nodes, w, l, j) IN
                          CASE Kind(n) = 0 -> {n[3], n[4]} [] Kind(n) = 1 -> {j} [] OTHER -> {} : j \in frontier }
       IN {<<l, j>> : j \in frontier} \cup Reach(nodes, w, nxt, l - 1)

WellFormed(nodes, w, nin) ==
  \/ (w = 0)
  \/ LET L == NLevels(nodes, w)
         R == Reach(nodes, w, {0}, L)
     IN /\ w >= 2
        /\ Len(nodes) % w = 0 /\ L >= 1
        \* the last chunk is [Cmux, None, ..., None]
        /\ Kind(Node(nodes, w, L, 0)) = 0
        /\ \A j \in 1..(w - 1) : Kind(Node(nodes, w, L, j)) = 2
        \* every reachable index is in range, every reachable slot is defined, selector bits exist
        /\ \A p \in R : p[2] >= 0 /\ p[2] < w
        /\ \A p \in R : p[1] = 0 \/ (Kind(Node(nodes, w, p[1], p[2])) # 2)
        /\ \A p \in R : p[1] = 0 \/ Kind(Node(nodes, w, p[1], p[2])) # 0 \/
                         (Node(nodes, w, p[1], p[2])[2] >= 0 /\ Node(nodes, w, p[1], p[2])[2] < nin)
=============================================================================
