SPECIFICATION Spec
INVARIANTS StructureOK ShapeOK FunctionOK RustOK
CHECK_DEADLOCK FALSE
