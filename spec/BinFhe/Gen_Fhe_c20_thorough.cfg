CONSTANTS
  Ops = {"add", "sub", "and", "or", "xor", "sll", "srl", "sra", "slt", "sltu"}
  NPairs = 6
  Many = TRUE
  Starts = {0, 1, 2, 3, 5, 8, 13, 16, 24, 30, 31}
  Counts = {1, 2, 3, 4, 5, 7, 8, 11, 16, 17, 24, 31, 32}
  Bes = {0, 1}
  NChains = 0
  Blind = 0
  NSurg = 0
INIT Init
NEXT Next
INVARIANT Emit
CHECK_DEADLOCK FALSE
