CONSTANTS
  W = 5
  MaxMask = 3
  MaxSize = 8
SPECIFICATION Spec
INVARIANT AllOK
INVARIANT CapacityOK
INVARIANT SizeOneDegenerate
CHECK_DEADLOCK FALSE
