------------------------------- MODULE Gen_Fhe -------------------------------
(* Behaviour generator for encrypted integers (C15) and thread-count independence (C20).      *)
(* Words are given as two 16-bit halves (the generator's integers are 32-bit signed).          *)
(* One state per descriptor (printed by the invariant Emit).                                  *)
EXTENDS Integers, Sequences, TLC, Json

CONSTANTS Ops, NPairs, Many, Starts, Counts, Bes, NChains, NSurg

\* thread counts: 0 = the single-threaded entry point; counts that do not divide / exceed the number of items, oversubscription
ThreadLists == IF Many THEN << <<0, 1, 2, 3, 5, 7, 8, 16, 31, 32, 33, 64>> >> ELSE << <<0>> >>
PrepThreads == IF Many THEN << <<0, 1, 2, 3, 5, 8, 33>> >> ELSE << <<0>> >>

\* boundary dictionary: 0, 1, 2^31, 2^32-1, alternating patterns, single bits, small values (shift amounts)
Dict == << <<0, 0>>, <<0, 1>>, <<32768, 0>>, <<65535, 65535>>, <<43690, 43690>>, <<21845, 21845>>, <<0, 32768>>, <<1, 0>>, <<32767, 65535>>,
           <<0, 31>>, <<0, 32>>, <<0, 33>>, <<0, 63>>, <<0, 5>>, <<65535, 65534>>, <<4660, 22136>>, <<57005, 48879>>, <<51966, 47806>> >>
\* a deterministic spread of operand pairs over the dictionary
PairIdx(k) == << (k % Len(Dict)) + 1, ((k * 7 + k \div Len(Dict) + 3) % Len(Dict)) + 1 >>
W(op, be, p, th) == [kind |-> "word", op |-> op, be |-> be, ahi |-> Dict[p[1]][1], alo |-> Dict[p[1]][2], bhi |-> Dict[p[2]][1], blo |-> Dict[p[2]][2], threads |-> th]
ChainOps(k) == LET o == <<"add", "xor", "sub", "sll", "or", "srl", "and", "sra">> IN << o[(k % 8) + 1], o[((k * 3 + 1) % 8) + 1], o[((k * 5 + 2) % 8) + 1] >>

VARIABLE c
Init == c = [kind |-> "none"]
Next == /\ c.kind = "none"
        /\ \/ \E op \in Ops, be \in Bes, k \in 0..(NPairs - 1), t \in 1..Len(ThreadLists) : c' = W(op, be, PairIdx(k + (IF op \in {"sll", "srl", "sra"} THEN 9 ELSE 0)), ThreadLists[t])
           \/ \E be \in Bes, st \in Starts, cn \in Counts, p \in 1..3, t \in 1..Len(PrepThreads) :
                /\ st + cn <= 32
                /\ c' = [kind |-> "prep", be |-> be, ahi |-> Dict[p + 3][1], alo |-> Dict[p + 3][2], start |-> st, count |-> cn, threads |-> PrepThreads[t]]
           \/ \E be \in Bes, k \in 0..(NChains - 1) :
                c' = [kind |-> "chain", be |-> be, ahi |-> Dict[(k % 9) + 9][1], alo |-> Dict[(k % 9) + 9][2], bhi |-> 0, blo |-> (k * 5) % 37, ops |-> ChainOps(k)]
           \/ \E be \in Bes, op \in {"sext", "zero_byte", "splice_u8", "splice_u16", "get_bit"}, i0 \in 0..31, i1 \in 0..3, p \in 1..NSurg :
                /\ (op = "sext" => i0 <= 2 /\ i1 = 0) /\ (op = "zero_byte" => i0 <= 3 /\ i1 = 0) /\ (op = "splice_u8" => i0 <= 3)
                /\ (op = "splice_u16" => i0 <= 1 /\ i1 <= 1) /\ (op = "get_bit" => i1 = 0)
                /\ c' = [kind |-> "surgery", op |-> op, be |-> be, i0 |-> i0, i1 |-> i1, ahi |-> Dict[p + 14][1], alo |-> Dict[p + 14][2], bhi |-> Dict[p + 4][1], blo |-> Dict[p + 4][2]]
           \/ \E be \in Bes, k \in 0..1 :
                c' = [kind |-> "shared", be |-> be, ahi |-> Dict[16 + k][1], alo |-> Dict[16 + k][2], bhi |-> Dict[17][1], blo |-> Dict[17][2] + k,
                      ops |-> <<"add", "sub", "xor", "sll", "sltu", "and", "or", "sra">>, rounds |-> 3]
Emit == c.kind # "none" => PrintT(<<"DESC", ToJson(c)>>)
=============================================================================
