------------------------------- MODULE Gen_Fhe -------------------------------
(* Behaviour generator for encrypted integers (C15) and thread-count independence (C20).      *)
(* Words are given as two 16-bit halves (the generator's integers are 32-bit signed).          *)
(* One state per descriptor (printed by the invariant Emit).                                  *)
EXTENDS Integers, Sequences, TLC, Json

CONSTANTS Ops, NPairs, Many, Starts, Counts, Bes, NChains, NSurg, Blind

\* thread counts: 0 = the single-threaded entry point; counts that do not divide / exceed the number of items, oversubscription
ThreadLists == IF Many THEN << <<0, 1, 2, 3, 5, 7, 8, 16, 31, 32, 33, 64>> >> ELSE << <<0>> >>
PrepThreads == IF Many THEN << <<0, 1, 2, 3, 5, 8, 33>> >> ELSE << <<0>> >>

\* boundary dictionary: 0, 1, 2^31, 2^32-1, alternating patterns, single bits, small values (shift amounts)
Dict == << <<0, 0>>, <<0, 1>>, <<32768, 0>>, <<65535, 65535>>, <<43690, 43690>>, <<21845, 21845>>, <<0, 32768>>, <<1, 0>>, <<32767, 65535>>,
           <<0, 31>>, <<0, 32>>, <<0, 33>>, <<0, 63>>, <<0, 5>>, <<65535, 65534>>, <<4660, 22136>>, <<57005, 48879>>, <<51966, 47806>> >>
\* a deterministic spread of operand pairs over the dictionary
PairIdx(k) == << (k % Len(Dict)) + 1, ((k * 7 + k \div Len(Dict) + 3) % Len(Dict)) + 1 >>
W(op, be, p, th) == [kind |-> "word", op |-> op, be |-> be, ahi |-> Dict[p[1]][1], alo |-> Dict[p[1]][2], bhi |-> Dict[p[2]][1], blo |-> Dict[p[2]][2], threads |-> th]
ChainOps(k) == LET o == <<"add", "xor", "sub", "sll", "or", "srl", "and", "sra">> IN << o[(k % 8) + 1], o[((k * 3 + 1) % 8) + 1], o[((k * 5 + 2) % 8) + 1] >>

VARIABLE c
\* ---- oblivious data movement (Select.tla): the selector word is built around the addressed field value f at bit rsh
\* (field entirely inside one 16-bit half); junk = 1 sets every bit outside the field
Word(f, rsh, mask, junk) ==
  LET inlo == rsh + mask <= 16
      sh == IF inlo THEN rsh ELSE rsh - 16
      half == f * 2 ^ sh + (IF junk = 1 THEN (2 ^ sh - 1) + (65536 - 2 ^ (sh + mask)) ELSE 0)
  IN IF inlo THEN << (IF junk = 1 THEN 65535 ELSE 0), half >> ELSE << half, (IF junk = 1 THEN 65535 ELSE 0) >>
Junks == IF Blind = 1 THEN {1} ELSE {0, 1}
FieldVals(mask) == IF Blind = 1 THEN {0, 1, 2 ^ mask - 1, 5 % (2 ^ mask), (2 ^ mask) \div 2} ELSE 0..(2 ^ mask - 1)
KeySets(mask) == LET U == 0..(2 ^ mask - 1) IN << U, {x \in U : x % 3 = 0}, {0}, {2 ^ mask - 1}, {}, {x \in U : x % 2 = 1} >>
RECURSIVE SetSeq(_)
SetSeq(S) == IF S = {} THEN <<>> ELSE LET x == CHOOSE y \in S : \A z \in S : y <= z IN <<x>> \o SetSeq(S \ {x})
BD(op, be, w, f) == [x \in DOMAIN f \cup {"kind", "op", "be", "ahi", "alo"} |->
                      IF x = "kind" THEN "blind" ELSE IF x = "op" THEN op ELSE IF x = "be" THEN be ELSE IF x = "ahi" THEN w[1] ELSE IF x = "alo" THEN w[2] ELSE f[x]]
Rounds(size) == << <<size>>, <<1>>, <<size - 1, 0, size>>, <<(size + 1) \div 2, size>> >>
BlindNext ==
  \/ \E be \in Bes, rsh \in {0, 3, 27}, mask \in {0, 1, 3, 5}, junk \in {0, 1}, ks \in 1..6 : \E f \in FieldVals(mask) :
       c' = BD("select", be, Word(f, rsh, mask, junk), [rsh |-> rsh, mask |-> mask, keys |-> SetSeq(KeySets(mask)[ks])])
  \/ \E be \in Bes, rsh \in {0, 29}, mask \in 0..3, n \in (IF Blind = 1 THEN {1, 2, 3, 5, 8, 9} ELSE 1..9), junk \in Junks : \E f \in FieldVals(mask) :
       c' = BD("retrieval", be, Word(f, rsh, mask, junk), [rsh |-> rsh, mask |-> mask, n |-> n])
  \/ \E be \in Bes, rsh \in {0, 5}, size \in (IF Blind = 1 THEN {1, 2, 3, 5, 8} ELSE 1..9), r \in 1..4, junk \in Junks : \E f \in 0..(size - 1) :
       /\ \A k \in 1..Len(Rounds(size)[r]) : Rounds(size)[r][k] >= 0
       /\ c' = BD("retriever", be, Word(f, rsh, 4, junk), [rsh |-> rsh, size |-> size, rounds |-> Rounds(size)[r]])
  \/ \E be \in Bes, rsh \in {0, 12}, size \in {2, 5, 8}, full \in {0, 1} : \E f \in 0..(IF full = 1 THEN size - 1 ELSE 0) :
       c' = BD("retrieve", be, Word(f, rsh, 4, 0), [rsh |-> rsh, size |-> size, n |-> IF full = 1 THEN size ELSE 1])
  \/ \E be \in Bes, rsh \in {0, 7, 31}, bit \in {0, 1}, junk \in {0, 1} :
       c' = BD("cswap", be, Word(bit, rsh, 1, junk), [rsh |-> rsh])
  \/ \E be \in Bes, op \in {"rotate", "rotate_assign"}, rsh \in (IF Blind = 1 THEN {0, 16} ELSE {0, 3, 16}), mask \in (IF Blind = 1 THEN {0, 4, 9} ELSE {0, 1, 4, 8, 9}),
          lsh \in (IF Blind = 1 THEN {0, 3} ELSE {0, 1, 3}), pos \in (IF Blind = 1 THEN {3, 255} ELSE {0, 3, 255}), neg \in BOOLEAN, junk \in Junks :
       \E f \in (IF Blind = 1 THEN {1, 2 ^ mask - 1} ELSE {0, 1, 2 ^ mask - 1, 5 % (2 ^ mask)}) :
       c' = BD(op, be, Word(f, rsh, mask, junk), [rsh |-> rsh, mask |-> mask, lsh |-> lsh, pos |-> pos, val |-> 5, neg |-> neg])

Init == c = [kind |-> "none"]
Next == /\ c.kind = "none"
        /\ \/ \E op \in Ops, be \in Bes, k \in 0..(NPairs - 1), t \in 1..Len(ThreadLists) : c' = W(op, be, PairIdx(k + (IF op \in {"sll", "srl", "sra"} THEN 9 ELSE 0)), ThreadLists[t])
           \/ \E be \in Bes, st \in Starts, cn \in Counts, p \in 1..3, t \in 1..Len(PrepThreads) :
                /\ st + cn <= 32
                /\ c' = [kind |-> "prep", be |-> be, ahi |-> Dict[p + 3][1], alo |-> Dict[p + 3][2], start |-> st, count |-> cn, threads |-> PrepThreads[t]]
           \/ \E be \in Bes, k \in 0..(NChains - 1) :
                c' = [kind |-> "chain", be |-> be, ahi |-> Dict[(k % 9) + 9][1], alo |-> Dict[(k % 9) + 9][2], bhi |-> 0, blo |-> (k * 5) % 37, ops |-> ChainOps(k)]
           \/ \E be \in Bes, op \in {"sext", "zero_byte", "splice_u8", "splice_u16", "get_bit"}, i0 \in 0..31, i1 \in 0..3, p \in 1..NSurg :
                /\ (op = "sext" => i0 <= 2 /\ i1 = 0) /\ (op = "zero_byte" => i0 <= 3 /\ i1 = 0) /\ (op = "splice_u8" => i0 <= 3)
                /\ (op = "splice_u16" => i0 <= 1 /\ i1 <= 1) /\ (op = "get_bit" => i1 = 0)
                /\ c' = [kind |-> "surgery", op |-> op, be |-> be, i0 |-> i0, i1 |-> i1, ahi |-> Dict[p + 14][1], alo |-> Dict[p + 14][2], bhi |-> Dict[p + 4][1], blo |-> Dict[p + 4][2]]
           \/ Blind > 0 /\ BlindNext
           \/ \E be \in Bes, k \in 0..1 :
                c' = [kind |-> "shared", be |-> be, ahi |-> Dict[16 + k][1], alo |-> Dict[16 + k][2], bhi |-> Dict[17][1], blo |-> Dict[17][2] + k,
                      ops |-> <<"add", "sub", "xor", "sll", "sltu", "and", "or", "sra">>, rounds |-> 3]
Emit == c.kind # "none" => PrintT(<<"DESC", ToJson(c)>>)
=============================================================================
