------------------------------ MODULE LutTrace ------------------------------
EXTENDS Integers, Sequences, TLC, Json, IOUtils, Lut

Rec == ndJsonDeserialize(IOEnv.TRACE)
VARIABLES i, bad
vars == <<i, bad>>
Verdict(e, k) ==
  IF e.ev = "lut" THEN (IF \A o \in 1..Len(e.outs) : LutOK(e, e.outs[o].rec) THEN <<>> ELSE << <<k, "sem">> >>)
                       \o (IF Len(e.outs) = 1 THEN <<>> ELSE << <<k, "be">> >>)
  ELSE (IF \A o \in 1..Len(e.outs) : BlindOK(e, e.outs[o].rec) THEN <<>> ELSE << <<k, "sem">> >>)
       \o (IF ~e.strict \/ \A o \in 1..Len(e.outs) : EntryOK(e, e.outs[o].rec) THEN <<>> ELSE << <<k, "entry">> >>)
Init == i = 1 /\ bad = <<>>
Next == /\ i <= Len(Rec) /\ i' = i + 1 /\ bad' = bad \o Verdict(Rec[i], i)
Spec == Init /\ [][Next]_vars
Report == (i = Len(Rec) + 1) => PrintT(<<"VERDICT", Len(Rec), ToJson(bad)>>)
=============================================================================
