------------------------------ MODULE CbtTrace ------------------------------
(* Validates logged circuit-bootstrapping behaviours against Cbt.tla. *)
EXTENDS Integers, Sequences, TLC, Json, IOUtils, Cbt
Rec == ndJsonDeserialize(IOEnv.TRACE)
VARIABLES i, bad
vars == <<i, bad>>
Init == i = 1 /\ bad = <<>>
Next == /\ i <= Len(Rec) /\ i' = i + 1 /\ bad' = bad \o (IF CbtOK(Rec[i]) THEN <<>> ELSE << <<i, "sem">> >>)
Spec == Init /\ [][Next]_vars
Report == (i = Len(Rec) + 1) => PrintT(<<"VERDICT", Len(Rec), ToJson(bad)>>)
=============================================================================
