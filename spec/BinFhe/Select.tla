------------------------------- MODULE Select -------------------------------
(* Oblivious data movement under an encrypted index (C15: "swap and blind selection /            *)
(* retrieval address exactly the documented bit positions").                                    *)
(*                                                                                            *)
(* Everything is built from three gates on GLWE ciphertexts, controlled by a GGSW bit s:          *)
(*     cmux(t, f, s)            = t if s else f                                                  *)
(*     cmux_assign(res, a, s)   : res <- res if s else a                                         *)
(*     cmux_assign_neg(res,a,s) : res <- a if s else res                                         *)
(*     cswap(a, b, s)           : (a, b) <- (b, a) if s else (a, b)                              *)
(* The USER-LEVEL statements (Field = the documented sub-field of the selector word):             *)
(*     blind selection over a sparse map       res = map[Field] if present else ZERO   (SelectSpec)*)
(*     blind retrieval (butterfly of cswaps)   res[0] = data[Field], rev undoes it     (RetrSpec)  *)
(*     stateful retriever  add* ; flush        res = added[Field] (Field < #added), ZERO if none   *)
(*     blind rotation                          res = a * X^(sign * Field << lsh)                   *)
(* The code-shaped algorithms (loop for loop as in poulpy-bin-fhe/src/bdd_arithmetic) are below as *)
(* operators / a state machine over abstract items; MC_Select checks that they implement the       *)
(* user-level statements for every map / count / selector value in the bounded scope; SelectTrace  *)
(* validates logged behaviours of the real library against the user-level statements.             *)
EXTENDS Integers, Sequences, FiniteSets

Reversed == FALSE           \* overridden by MC_Select_neg.cfg: negative control (the retriever's merge gate selects the wrong operand)
ZERO == 0                                   \* the encryption of zero; real items are >= 1
Bit(kb, i) == IF i + 1 <= Len(kb) THEN kb[i + 1] ELSE 0          \* kb[1] = bit 0
RECURSIVE FieldFrom(_, _, _)
FieldFrom(kb, from, n) == IF n = 0 THEN 0 ELSE Bit(kb, from) + 2 * FieldFrom(kb, from + 1, n - 1)
Field(kb, rsh, mask) == FieldFrom(kb, rsh, mask)              \* (k >> rsh) % 2^mask

Cmux(t, f, s) == IF s = 1 THEN t ELSE f

\* ---------------------------------------------------------------- blind selection over a sparse map
SelectSpec(map, kb, rsh, mask) == LET x == Field(kb, rsh, mask) IN IF x \in DOMAIN map THEN map[x] ELSE ZERO
\* the library's reduction: level i (MSB first) folds slot j+t into slot j; absent slots act as ZERO but
\* a slot only exists afterwards if at least one of the two existed
SelStep(a, j, t, s) ==
  LET hasLo == (j + t) \in DOMAIN a        \* the library calls this one `lo`
      hasHi == j \in DOMAIN a
      rest == [x \in (DOMAIN a \ {j, j + t}) |-> a[x]]
      put(v) == [x \in (DOMAIN rest \cup {j}) |-> IF x = j THEN v ELSE rest[x]]
  IN IF hasLo /\ hasHi THEN put(Cmux(a[j + t], a[j], s))
     ELSE IF hasLo THEN put(Cmux(a[j + t], ZERO, s))
     ELSE IF hasHi THEN put(Cmux(ZERO, a[j], s))
     ELSE rest
RECURSIVE SelLevel(_, _, _, _)
SelLevel(a, j, t, s) == IF j >= t THEN a ELSE SelLevel(SelStep(a, j, t, s), j + 1, t, s)
RECURSIVE SelRun(_, _, _, _, _)
SelRun(a, kb, rsh, mask, i) ==
  IF i >= mask THEN a
  ELSE LET t == 2 ^ (mask - i - 1) IN SelRun(SelLevel(a, 0, t, Bit(kb, rsh + mask - i - 1)), kb, rsh, mask, i + 1)
SelectImpl(map, kb, rsh, mask) == LET a == SelRun(map, kb, rsh, mask, 0) IN IF 0 \in DOMAIN a THEN a[0] ELSE ZERO

\* ---------------------------------------------------------------- blind retrieval: butterfly of conditional swaps
Swap2(v, x, y, s) == IF s = 1 THEN [v EXCEPT ![x] = v[y], ![y] = v[x]] ELSE v        \* 1-based positions
RECURSIVE RetrLevel(_, _, _, _)
RetrLevel(v, j, t, s) == IF j >= t THEN v ELSE RetrLevel(IF j + t < Len(v) THEN Swap2(v, j + 1, j + t + 1, s) ELSE v, j + 1, t, s)
RECURSIVE RetrFwd(_, _, _, _, _)
RetrFwd(v, kb, rsh, mask, i) ==
  IF i >= mask THEN v
  ELSE RetrFwd(RetrLevel(v, 0, 2 ^ (mask - i - 1), Bit(kb, rsh + mask - i - 1)), kb, rsh, mask, i + 1)
RECURSIVE RetrRev(_, _, _, _, _)
RetrRev(v, kb, rsh, mask, i) ==        \* i counts down from mask - 1
  IF i < 0 THEN v
  ELSE RetrRev(RetrLevel(v, 0, 2 ^ (mask - i - 1), Bit(kb, rsh + mask - i - 1)), kb, rsh, mask, i - 1)
\* user level: position 0 holds data[Field] whenever Field addresses an element; rev restores the order
RetrSpec(data, out, kb, rsh, mask) == LET x == Field(kb, rsh, mask) IN x < Len(data) => out[1] = data[x + 1]

\* ---------------------------------------------------------------- the stateful retriever (binary carry-save accumulation)
\* state: acc[l] = [v |-> item, num |-> 0/1] for l in 1..L, counter; L = ceil(log2(size))
RECURSIVE CeilLog2(_)
CeilLog2(n) == IF n <= 1 THEN 0 ELSE 1 + CeilLog2((n + 1) \div 2)
RInit(size) == [acc |-> [l \in 1..CeilLog2(size) |-> [v |-> ZERO, num |-> 0]], counter |-> 0]
\* add_core(a, accumulators[l..], i = l - 1)
RECURSIVE AddCore(_, _, _, _, _)
AddCore(acc, a, l, kb, off) ==
  IF acc[l].num = 0 THEN [acc EXCEPT ![l] = [v |-> a, num |-> 1]]
  ELSE LET m == IF Reversed THEN Cmux(acc[l].v, a, Bit(kb, (l - 1) + off)) ELSE Cmux(a, acc[l].v, Bit(kb, (l - 1) + off))      \* cmux_assign_neg: a if the bit is set
           acc1 == [acc EXCEPT ![l] = [v |-> m, num |-> 0]]
       IN IF l < Len(acc) THEN AddCore(acc1, m, l + 1, kb, off) ELSE acc1
RAddEnabled(st) == Len(st.acc) >= 1 /\ st.counter < 2 ^ Len(st.acc)
RAdd(st, a, kb, off) == [acc |-> AddCore(st.acc, a, 1, kb, off), counter |-> st.counter + 1]
RECURSIVE FlushFrom(_, _, _, _)
FlushFrom(acc, l, kb, off) ==
  IF l >= Len(acc) THEN acc
  ELSE FlushFrom(IF acc[l].num # 0 THEN [AddCore(acc, acc[l].v, l + 1, kb, off) EXCEPT ![l].num = 0] ELSE acc, l + 1, kb, off)
RFlushValue(st, kb, off) == IF st.counter = 0 THEN ZERO ELSE FlushFrom(st.acc, 1, kb, off)[Len(st.acc)].v
RReset(st) == [acc |-> [l \in 1..Len(st.acc) |-> [v |-> st.acc[l].v, num |-> 0]], counter |-> 0]
\* user level: what a flush returns after the items `added` (in order)
RetrieverSpec(added, kb, off, nbits) ==
  IF Len(added) = 0 THEN {ZERO}
  ELSE LET x == Field(kb, off, nbits) IN IF x < Len(added) THEN {added[x + 1]} ELSE {added[j] : j \in 1..Len(added)} \cup {ZERO}

\* ---------------------------------------------------------------- blind rotation exponent
RotExp(kb, rsh, mask, lsh, neg) == (IF neg THEN -1 ELSE 1) * Field(kb, rsh, mask) * 2 ^ lsh
=============================================================================
