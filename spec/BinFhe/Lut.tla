--------------------------------- MODULE Lut ---------------------------------
(* Lookup tables and blind rotation (C14).                                                    *)
(* A table f of length len over the domain D = N * ext is the polynomial of Z[X]/(X^D + 1)      *)
(*     V[j] = f[j div step] * 2^(S*b - kmsg),   step = round(D / len),                          *)
(* i.e. every entry replicated over one step and placed on the top kmsg bits of the torus,      *)
(* pre-rotated by half a step (drift = step div 2):  L = X^(-drift) * V.  It is stored as ext    *)
(* polynomials of degree N, data[i][t] = L[t*ext + i].  Rotating the table by k multiplies L by  *)
(* X^k in the extended ring (negacyclic: a coefficient that wraps around changes sign).          *)
(* Blind rotation under LWE(m) returns an encryption of X^(-idx) L (X^(+idx) for the Right       *)
(* direction) where idx is the phase of the LWE sample switched to Z_(2D); its constant          *)
(* coefficient is the entry f[m] (negated after a wrap-around).                                  *)
EXTENDS Integers, Sequences, Pow2, Poly, Limbs

DivRound(a, bq) == (a + bq \div 2) \div bq
Step(D, len) == DivRound(D, len)
Drift(D, len) == Step(D, len) \div 2
\* the un-rotated table as integers modulo 2^(S*b)
Table(f, D, S, b, kmsg) ==
  LET st == Step(D, Len(f)) IN
  [j \in 1..D |-> IF (j - 1) \div st < Len(f) THEN f[(j - 1) \div st + 1] * Pow2(S * b - kmsg) ELSE 0]
Encoded(f, D, S, b, kmsg) == MulXk(Table(f, D, S, b, kmsg), -Drift(D, Len(f)))
Interleave(L, ext, i) == [t \in 1..(Len(L) \div ext) |-> L[(t - 1) * ext + i + 1]]        \* i = 0..ext-1

\* data = the logged polynomials: data[i+1][limb][coefficient]; equal to L modulo 2^(S*b) (the digits need not be
\* canonical: negating the digit -2^(b-1) on a wrap-around gives +2^(b-1))
DataOK(data, L, ext, b) ==
  /\ Len(data) = ext
  /\ \A i \in 0..(ext - 1) :
       LET want == Interleave(L, ext, i)
           S == Len(data[i + 1])
       IN \A t \in 1..Len(want) : CMod(TorusInt(data[i + 1], b, t) - want[t], Pow2(S * b)) = 0
LutOK(e, rec) ==
  LET D == e.n * e.ext
      L0 == Encoded(e.f, D, e.size, e.b, e.kmsg)
  IN /\ rec.panic = ""
     /\ rec.drift = Drift(D, Len(e.f))
     /\ DataOK(rec.set, L0, e.ext, e.b)
     /\ \A r \in 1..Len(rec.rot) : DataOK(rec.rot[r].data, MulXk(L0, rec.rot[r].k), e.ext, e.b)

\* ---- blind rotation
\* index window of the LWE phase switched to Z_(2D): every coefficient v / 2^K is mapped to floor or floor + 1 of
\* v * 2D / 2^K (any rounding rule), the body and the mask coefficients selected by the binary secret are summed
LweCoef(lwe, bl, i) == LET col == [j \in 1..Len(lwe) |-> << lwe[j][i] >>] IN TorusInt(col, bl, 1)
FloorIdx(v, K, t) == v \div Pow2(K - t)                   \* floor(v * 2^t / 2^K), TLA+ \div floors
PhaseLo(e, rec, t) ==
  LET K == Len(rec.lwe) * e.blwe
      RECURSIVE S(_)
      S(i) == IF i > e.nlwe THEN 0 ELSE rec.sk_lwe[i] * FloorIdx(LweCoef(rec.lwe, e.blwe, i + 1), K, t) + S(i + 1)
  IN FloorIdx(LweCoef(rec.lwe, e.blwe, 1), K, t) + S(1)
Hw(s) == LET RECURSIVE H(_) H(i) == IF i > Len(s) THEN 0 ELSE s[i] + H(i + 1) IN H(1)
Log2e(x) == LET RECURSIVE L(_) L(y) == IF y <= 1 THEN 0 ELSE 1 + L(y \div 2) IN L(x)
BlindOK(e, rec) ==
  LET D == e.n * e.ext
      t == Log2e(2 * D)
      L0 == Encoded(e.f, D, 1, e.b, e.p + 1)
      lo == PhaseLo(e, rec, t)
      W == Hw(rec.sk_lwe) + 1
      M == Pow2(e.b)
      Match(idx) == LET want == Interleave(MulXk(L0, IF e.dir = "right" THEN idx ELSE -idx), e.ext, 0)
                    IN \A c \in 1..e.n : CMod(rec.pt[1][c] - want[c], M) = 0
  IN /\ rec.panic = ""
     /\ \E idx \in lo..(lo + W) : Match(idx)
\* the user-level statement, for parameters where half a step exceeds the switching error: the constant coefficient
\* is the selected entry, negated when the (padded) message wraps around the domain
EntryOK(e, rec) ==
  LET len == Len(e.f)
      m == e.msg % len
      sg == IF e.msg >= len THEN -1 ELSE 1
      sgd == IF e.dir = "right" /\ e.msg % (2 * len) # 0 THEN 0 ELSE 1     \* the Right direction reads another coefficient
  IN sgd = 0 \/ CMod(rec.pt[1][1] - sg * e.f[m + 1] * Pow2(e.b - e.p - 1), Pow2(e.b)) = 0
=============================================================================
