CONSTANTS
  Ns = {4, 8, 16}
  Exts = {1, 2, 4, 8}
  MaxP = 5
  Keys = {1, 2, 3}
  BrN = 64
INIT Init
NEXT Next
INVARIANT Emit
CHECK_DEADLOCK FALSE
