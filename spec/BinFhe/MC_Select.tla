------------------------------ MODULE MC_Select ------------------------------
(* Design-level check of Select.tla: the code-shaped algorithms implement the user-level        *)
(* statements for EVERY sparse map / data length / selector word / sub-field in the bounded       *)
(* scope, and the stateful retriever does so over every history of add / flush (stale            *)
(* accumulator contents of an earlier round never leak into a later one).                         *)
EXTENDS Select, TLC

CONSTANTS W, MaxMask, MaxSize
RevTrue == TRUE
Words == [1..W -> {0, 1}]
Id(n) == [i \in 1..n |-> i]

VARIABLES mode, p, st, added, ok, rounds
vars == <<mode, p, st, added, ok, rounds>>

SelInit == /\ mode = "sel"
           /\ \E mask \in 0..MaxMask, rsh \in 0..(W - MaxMask), kb \in Words : \E S \in SUBSET (0..(2 ^ mask - 1)) :
                p = [mask |-> mask, rsh |-> rsh, kb |-> kb, map |-> [x \in S |-> x + 1]]
           /\ st = <<>> /\ added = <<>> /\ rounds = 0
           /\ ok = (SelectImpl(p.map, p.kb, p.rsh, p.mask) = SelectSpec(p.map, p.kb, p.rsh, p.mask))
RetrInit == /\ mode = "retr"
            /\ \E mask \in 0..MaxMask, rsh \in 0..(W - MaxMask), kb \in Words, n \in 1..(2 ^ MaxMask) :
                 p = [mask |-> mask, rsh |-> rsh, kb |-> kb, n |-> n]
            /\ st = <<>> /\ added = <<>> /\ rounds = 0
            /\ ok = LET d == Id(p.n)
                        f == RetrFwd(d, p.kb, p.rsh, p.mask, 0)
                    IN /\ RetrSpec(d, f, p.kb, p.rsh, p.mask)
                       /\ RetrRev(f, p.kb, p.rsh, p.mask, p.mask - 1) = d
                       /\ {f[i] : i \in 1..p.n} = 1..p.n            \* a permutation: nothing lost or duplicated
StInit == /\ mode = "acc"
          /\ \E size \in 1..MaxSize, off \in 0..(W - MaxMask), kb \in Words : p = [size |-> size, off |-> off, kb |-> kb]
          /\ st = RInit(p.size) /\ added = <<>> /\ ok = TRUE /\ rounds = 0
Init == SelInit \/ RetrInit \/ StInit

Add == /\ mode = "acc" /\ RAddEnabled(st)
       /\ st' = RAdd(st, 10 * rounds + Len(added) + 1, p.kb, p.off)
       /\ added' = Append(added, 10 * rounds + Len(added) + 1)
       /\ UNCHANGED <<mode, p, ok, rounds>>
Flush == /\ mode = "acc" /\ rounds < 2
         /\ ok' = (ok /\ RFlushValue(st, p.kb, p.off) \in RetrieverSpec(added, p.kb, p.off, Len(st.acc)))
         /\ st' = RReset([st EXCEPT !.acc = IF st.counter = 0 THEN st.acc ELSE FlushFrom(st.acc, 1, p.kb, p.off)])
         /\ added' = <<>> /\ rounds' = rounds + 1
         /\ UNCHANGED <<mode, p>>
Next == Add \/ Flush
Spec == Init /\ [][Next]_vars
AllOK == ok
\* the documented capacity ("up to size inputs") is always available
CapacityOK == mode = "acc" /\ CeilLog2(p.size) >= 1 => (Len(added) < p.size => RAddEnabled(st))
\* size = 1 allocates no accumulator at all: nothing can ever be added (recorded, see DESIGN.md)
SizeOneDegenerate == mode = "acc" /\ p.size = 1 => ~RAddEnabled(st)
=============================================================================
