CONSTANTS
  Ops = {"add", "sub", "and", "or", "xor", "sll", "srl", "sra", "slt", "sltu"}
  NPairs = 12
  Many = FALSE
  Starts = {0, 5, 31}
  Counts = {1, 11, 32}
  Bes = {0, 1}
  NChains = 6
  Blind = 1
  NSurg = 1
INIT Init
NEXT Next
INVARIANT Emit
CHECK_DEADLOCK FALSE
