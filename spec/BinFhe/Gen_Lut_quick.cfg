CONSTANTS
  Ns = {4, 8}
  Exts = {1, 2, 4}
  MaxP = 4
  Keys = {1}
  BrN = 64
INIT Init
NEXT Next
INVARIANT Emit
CHECK_DEADLOCK FALSE
