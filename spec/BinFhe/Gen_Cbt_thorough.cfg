CONSTANTS
  Bes = {0, 1}
  Kpts = {1, 2, 3, 4}
  Gaps = {0, 1, 2, 4, 5, 6, 7}
  Exts = {1, 2, 4}
  Rows = {1, 2, 3}
INIT Init
NEXT Next
INVARIANT Emit
CHECK_DEADLOCK FALSE
