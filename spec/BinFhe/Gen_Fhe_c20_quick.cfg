CONSTANTS
  Ops = {"add", "sll", "sltu", "xor"}
  NPairs = 2
  Many = TRUE
  Starts = {0, 5, 31}
  Counts = {1, 3, 11, 32}
  Bes = {0, 1}
  NChains = 0
  Blind = 0
  NSurg = 0
INIT Init
NEXT Next
INVARIANT Emit
CHECK_DEADLOCK FALSE
