CONSTANTS
  MaxItems = 5
  MaxThreads = 4
  W = 6
SPECIFICATION Spec
INVARIANTS ExactlyOnce NeverTwice OwnerOnly NoSharedWrite Covers NonEmpty TailOK
PROPERTY Termination
CHECK_DEADLOCK FALSE
