CONSTANTS
  MaxItems = 6
  MaxThreads = 8
  W = 8
SPECIFICATION Spec
INVARIANTS ExactlyOnce NeverTwice OwnerOnly NoSharedWrite Covers NonEmpty TailOK
PROPERTY Termination
CHECK_DEADLOCK FALSE
