---------------------------- MODULE MC_Partition ----------------------------
(* All (items, threads, start) shapes of the bounded scope in one model: the shape is chosen *)
(* in the initial state, then Partition's actions run (all interleavings).                   *)
EXTENDS Integers, Sequences, FiniteSets, TLC

CONSTANTS MaxItems, MaxThreads, W

VARIABLES items, threads, start, pc, next, count, by, zeroed, joined
vars == <<items, threads, start, pc, next, count, by, zeroed, joined>>

Chunk == (items + threads - 1) \div threads
NChunks == (items + Chunk - 1) \div Chunk
Spawned == 0..((IF NChunks < threads THEN NChunks ELSE threads) - 1)
First(t) == start + t * Chunk
Last(t) == IF First(t) + Chunk < start + items THEN First(t) + Chunk - 1 ELSE start + items - 1
Owns(t) == First(t)..Last(t)
Slots == 0..(W - 1)
AllT == 0..(MaxThreads - 1)

Init == /\ items \in 1..MaxItems /\ threads \in 1..MaxThreads /\ start \in 0..(W - 1) /\ start + items <= W
        /\ pc = [t \in AllT |-> "idle"]
        /\ next = [t \in AllT |-> start + t * ((items + threads - 1) \div threads)]
        /\ count = [i \in Slots |-> 0] /\ by = [i \in Slots |-> {}] /\ zeroed = {} /\ joined = FALSE
StartT(t) == /\ pc[t] = "idle" /\ pc' = [pc EXCEPT ![t] = "running"] /\ UNCHANGED <<items, threads, start, next, count, by, zeroed, joined>>
Process(t) == /\ pc[t] = "running" /\ next[t] <= Last(t)
              /\ count' = [count EXCEPT ![next[t]] = @ + 1] /\ by' = [by EXCEPT ![next[t]] = @ \cup {t}]
              /\ next' = [next EXCEPT ![t] = @ + 1] /\ UNCHANGED <<items, threads, start, pc, zeroed, joined>>
Finish(t) == /\ pc[t] = "running" /\ next[t] > Last(t)
             /\ pc' = [pc EXCEPT ![t] = "done"] /\ UNCHANGED <<items, threads, start, next, count, by, zeroed, joined>>
Join == /\ ~joined /\ \A t \in Spawned : pc[t] = "done" /\ joined' = TRUE
        /\ zeroed' = {i \in Slots : i < start \/ i >= start + items}
        /\ UNCHANGED <<items, threads, start, pc, next, count, by>>
Next == (\E t \in Spawned : StartT(t) \/ Process(t) \/ Finish(t)) \/ Join
Spec == Init /\ [][Next]_vars /\ WF_vars(Next)

InRange == {i \in Slots : i >= start /\ i < start + items}
ExactlyOnce == joined => (\A i \in InRange : count[i] = 1) /\ (\A i \in Slots \ InRange : count[i] = 0)
NeverTwice == \A i \in Slots : count[i] <= 1
OwnerOnly == \A i \in Slots : \A t \in by[i] : i \in Owns(t)
NoSharedWrite == \A t, u \in Spawned : t # u => Owns(t) \cap Owns(u) = {}
Covers == UNION {Owns(t) : t \in Spawned} = InRange
NonEmpty == \A t \in Spawned : Owns(t) # {}
TailOK == joined => zeroed = Slots \ InRange
Termination == <>joined
\* symmetry-free state reduction: hide nothing; the scope is small
=============================================================================
