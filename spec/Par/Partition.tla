------------------------------ MODULE Partition ------------------------------
(* The work partition of the two multi-threaded loops of poulpy-bin-fhe (C20):              *)
(*   execute_bdd_circuit_multi_thread  (items = output bits of the circuit)                 *)
(*   fhe_uint_prepare_custom_multi_thread (items = bits [start, start+len) of the integer)  *)
(* Both do:  chunk = ceil(items / threads);  scratches.split_mut(threads, per_thread);       *)
(*           zip(scratches, out[start..start+items].chunks_mut(chunk)) -> one spawned thread *)
(*           per pair, each processing its chunk sequentially; thread::scope joins them;     *)
(*           the sequential tail zeroes what lies outside [start, start+items).              *)
(* Threads interleave freely.  What users rely on: every item is processed exactly once, by  *)
(* its owner, with a scratch window nobody else uses; the result does not depend on the      *)
(* schedule or on the thread count.                                                          *)
EXTENDS Integers, Sequences, FiniteSets

CONSTANTS Items,      \* number of work items (>= 1; items = 0 makes chunks_mut(0) panic: a documented precondition)
          Threads,    \* requested thread count (>= 1)
          Start,      \* first item index within the word (0 for circuit evaluation)
          Width       \* total number of slots of the output (32 for u32)

Chunk == (Items + Threads - 1) \div Threads
NChunks == (Items + Chunk - 1) \div Chunk
Spawned == 0..((IF NChunks < Threads THEN NChunks ELSE Threads) - 1)     \* zip truncates to the shorter side
First(t) == Start + t * Chunk
Last(t) == IF First(t) + Chunk < Start + Items THEN First(t) + Chunk - 1 ELSE Start + Items - 1
Owns(t) == First(t)..Last(t)

VARIABLES pc,        \* pc[t] in {"idle", "running", "done"}
          next,      \* next[t]: next item thread t will process
          count,     \* count[i]: how many times item i was processed
          by,        \* by[i]: set of threads that processed i
          scr,       \* scr[t]: scratch window index used by thread t
          zeroed,    \* slots zeroed by the sequential tail
          joined
vars == <<pc, next, count, by, scr, zeroed, joined>>

Slots == 0..(Width - 1)
Init == /\ pc = [t \in Spawned |-> "idle"]
        /\ next = [t \in Spawned |-> First(t)]
        /\ count = [i \in Slots |-> 0]
        /\ by = [i \in Slots |-> {}]
        /\ scr = [t \in Spawned |-> t]
        /\ zeroed = {}
        /\ joined = FALSE

StartT(t) == /\ pc[t] = "idle" /\ pc' = [pc EXCEPT ![t] = "running"] /\ UNCHANGED <<next, count, by, scr, zeroed, joined>>
Process(t) == /\ pc[t] = "running" /\ next[t] <= Last(t)
              /\ count' = [count EXCEPT ![next[t]] = @ + 1]
              /\ by' = [by EXCEPT ![next[t]] = @ \cup {t}]
              /\ next' = [next EXCEPT ![t] = @ + 1]
              /\ UNCHANGED <<pc, scr, zeroed, joined>>
Finish(t) == /\ pc[t] = "running" /\ next[t] > Last(t)
             /\ pc' = [pc EXCEPT ![t] = "done"] /\ UNCHANGED <<next, count, by, scr, zeroed, joined>>
Join == /\ ~joined /\ \A t \in Spawned : pc[t] = "done"
        /\ joined' = TRUE
        /\ zeroed' = {i \in Slots : i < Start \/ i >= Start + Items}
        /\ UNCHANGED <<pc, next, count, by, scr>>
Next == (\E t \in Spawned : StartT(t) \/ Process(t) \/ Finish(t)) \/ Join
Spec == Init /\ [][Next]_vars /\ WF_vars(Next)

AllDone == joined
InRange == {i \in Slots : i >= Start /\ i < Start + Items}
ExactlyOnce == AllDone => /\ \A i \in InRange : count[i] = 1
                          /\ \A i \in Slots \ InRange : count[i] = 0
NeverTwice == \A i \in Slots : count[i] <= 1
OwnerOnly == \A i \in Slots : \A t \in by[i] : i \in Owns(t)
NoSharedWrite == \A t, u \in Spawned : t # u => Owns(t) \cap Owns(u) = {}
Covers == UNION {Owns(t) : t \in Spawned} = InRange
DisjointScratch == \A t, u \in Spawned : t # u => scr[t] # scr[u]
TailOK == AllDone => zeroed = Slots \ InRange /\ zeroed \cap InRange = {}
Termination == <>AllDone
=============================================================================
