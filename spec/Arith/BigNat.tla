------------------------------- MODULE BigNat -------------------------------
(* Natural numbers of arbitrary size as little-endian sequences of bytes (base 256), so    *)
(* that 64-bit header fields, their exact products and "does this overflow usize" are       *)
(* expressible in TLC's 32-bit integers.  A wire field of w bytes *is* such a sequence.     *)
EXTENDS Integers, Sequences

RECURSIVE Trim(_)
Trim(a) == IF Len(a) > 0 /\ a[Len(a)] = 0 THEN Trim(SubSeq(a, 1, Len(a) - 1)) ELSE a

RECURSIVE FromNat(_)
FromNat(x) == IF x = 0 THEN <<>> ELSE <<x % 256>> \o FromNat(x \div 256)

Dig(a, i) == IF i <= Len(a) THEN a[i] ELSE 0

RECURSIVE AddFrom(_, _, _, _)
AddFrom(a, b, i, c) ==
  IF i > Len(a) /\ i > Len(b) THEN (IF c = 0 THEN <<>> ELSE <<c>>)
  ELSE LET s == Dig(a, i) + Dig(b, i) + c IN <<s % 256>> \o AddFrom(a, b, i + 1, s \div 256)
BAdd(a, b) == Trim(AddFrom(a, b, 1, 0))

RECURSIVE MulDigFrom(_, _, _, _)
MulDigFrom(a, d, i, c) ==
  IF i > Len(a) THEN (IF c = 0 THEN <<>> ELSE FromNat(c))
  ELSE LET s == a[i] * d + c IN <<s % 256>> \o MulDigFrom(a, d, i + 1, s \div 256)
Zeros(k) == [j \in 1..k |-> 0]
RECURSIVE MulFrom(_, _, _)
MulFrom(a, b, i) == IF i > Len(b) THEN <<>> ELSE BAdd(Zeros(i - 1) \o MulDigFrom(a, b[i], 1, 0), MulFrom(a, b, i + 1))
BMul(a, b) == Trim(MulFrom(Trim(a), Trim(b), 1))

BEq(a, b) == Trim(a) = Trim(b)
RECURSIVE LtFrom(_, _, _)
LtFrom(a, b, i) == IF i = 0 THEN FALSE ELSE IF a[i] # b[i] THEN a[i] < b[i] ELSE LtFrom(a, b, i - 1)
BLt(a0, b0) == LET a == Trim(a0) b == Trim(b0) IN
               IF Len(a) # Len(b) THEN Len(a) < Len(b) ELSE LtFrom(a, b, Len(a))
BLe(a, b) == BEq(a, b) \/ BLt(a, b)
\* value as a native integer when it is known to be small
RECURSIVE ToNat(_)
ToNat(a) == IF Len(a) = 0 THEN 0 ELSE a[1] + 256 * ToNat(SubSeq(a, 2, Len(a)))
IsSmall(a) == Len(Trim(a)) <= 3
=============================================================================
