------------------------------- MODULE Pow2 -------------------------------
(* Integer helpers shared by every layer of the poulpy specification.       *)
(* All operators are total on the stated domains and use only Integers, so  *)
(* the module is usable from TLC, Apalache and TLAPS alike.                 *)
EXTENDS Integers

Pow2(k) == 2 ^ k                       \* k \in Nat

Abs(x) == IF x < 0 THEN -x ELSE x
Max(a, b) == IF a >= b THEN a ELSE b
Min(a, b) == IF a <= b THEN a ELSE b

\* floor division / non-negative remainder for positive divisors (TLA+ \div and % already are)
DivFloor(a, m) == a \div m
ModNN(a, m)    == a % m
DivCeil(a, m)  == -((-a) \div m)

\* representative of a modulo m in the balanced interval [-m/2, m/2)   (m even)
CMod(a, m) == LET r == a % m IN IF r >= m \div 2 THEN r - m ELSE r

\* balanced base-2^b digit of x and the carry that goes with it:  x = Digit + 2^b * Carry
Digit(x, b) == CMod(x, Pow2(b))
Carry(x, b) == (x - Digit(x, b)) \div Pow2(b)

\* rounding division by 2^s, ties toward +infinity, as a shift does after adding half
DivRoundHalfUp(a, s) == IF s = 0 THEN a ELSE (a + Pow2(s - 1)) \div Pow2(s)

\* two's complement wrap of an integer into w bits
Wrap(x, w) == CMod(x, Pow2(w))

InBalanced(x, b) == -Pow2(b - 1) <= x /\ x < Pow2(b - 1)

\* distance between two integers on the cycle Z / mZ
CycDist(a, b, m) == Abs(CMod(a - b, m))
=============================================================================
