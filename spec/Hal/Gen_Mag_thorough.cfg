CONSTANTS
  Ns = {8, 16, 64, 256, 1024, 4096, 65536}
  Bs = {8, 12, 14, 17, 19}
  Classes = {0, 1, 2, 3, 5}
  DomainBits = 48
  MaxS = 3
INIT Init
NEXT Next
CHECK_DEADLOCK FALSE
