CONSTANTS
  Ns = {1, 4, 8, 16}
  Bs = {12, 31, 52}
  MaxS = 2
  Classes = {10, 11, 12}
INIT Init
NEXT Next
INVARIANT Emit
CHECK_DEADLOCK FALSE
