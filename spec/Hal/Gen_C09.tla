------------------------------- MODULE Gen_C09 -------------------------------
(* Behaviour generator (specification -> implementation) for the coefficient-domain     *)
(* ring operations.  TLC enumerates every *descriptor* of the scope below; the harness   *)
(* instantiates each with seeded operand values on the four real back-ends and logs the  *)
(* call; HalTrace.tla validates the log.  Ring operations are (signed) permutations or   *)
(* linear maps, so one generic input per descriptor determines the whole map.            *)
(*   scope: every N in Ns, every k in [-4N,4N], every odd g in (-2N, 2N) and a few out-   *)
(*   of-range representatives, all (res,a,b) size triples up to MaxS, ring ratios up to   *)
(*   MaxRatio, every part of a split, small and big-accumulator forms.                   *)
EXTENDS Integers, Sequences, FiniteSets, TLC, Json, IOUtils, SequencesExt

CONSTANTS Ns, MaxS, MaxRatio, VMax

D(op, n, na, rs, as, bs, k, limb, part) ==
  [op |-> op, n |-> n, na |-> na, rs |-> rs, as |-> as, bs |-> bs, k |-> k, limb |-> limb, part |-> part, vmax |-> VMax]

S == 1..MaxS
RotK(N) == (-4 * N)..(4 * N)
Odd(N) == {g \in (-2 * N)..(2 * N) : g % 2 = 1} \cup {2 * N + 1, 6 * N - 1, -(4 * N) + 3}
Ratios == {r \in {2, 4, 8, 16} : r <= MaxRatio}
Pre(big, op) == IF big THEN "big_" \o op ELSE op

Rotations == UNION { { D(op, n, n, rs, as, 1, k, 0, 0) :
                         op \in {"rotate", "mul_xp_minus_one"}, rs \in S, as \in S, k \in RotK(n) }
                     \cup { D(op, n, n, rs, rs, 1, k, 0, 0) :
                         op \in {"rotate_assign", "mul_xp_minus_one_assign"}, rs \in S, k \in RotK(n) } : n \in Ns }
Autos == UNION { { D(Pre(big, "automorphism"), n, n, rs, as, 1, g, 0, 0) : big \in BOOLEAN, rs \in S, as \in S, g \in Odd(n) }
                 \cup { D(Pre(big, "automorphism_assign"), n, n, rs, rs, 1, g, 0, 0) : big \in BOOLEAN, rs \in S, g \in Odd(n) } : n \in Ns }
Unary == { D(op, n, n, rs, as, 1, 0, 0, 0) :
             op \in {"copy", "negate", "big_negate", "big_from_small"}, n \in Ns, rs \in S, as \in S }
      \cup { D(op, n, n, rs, rs, 1, 0, 0, 0) : op \in {"zero", "negate_assign", "big_negate_assign"}, n \in Ns, rs \in S }
Binary == { D(op, n, n, rs, as, bs, 0, 0, 0) :
              op \in {"add_into", "sub", "big_add_into", "big_sub", "big_add_small_into", "big_sub_small_a", "big_sub_small_b"},
              n \in Ns, rs \in S, as \in S, bs \in S }
Accum == { D(op, n, n, rs, as, 1, 0, 0, 0) :
             op \in {"add_assign", "sub_assign", "sub_negate_assign", "big_add_assign", "big_sub_assign", "big_sub_negate_assign",
                     "big_add_small_assign", "big_sub_small_assign", "big_sub_small_negate_assign"},
             n \in Ns, rs \in S, as \in S }
\* the scalar lands on limb `limb`, which the API requires to exist in both b and res
Scalars == { D(op, n, n, rs, 1, bs, 0, limb, 0) :
               op \in {"add_scalar_into", "sub_scalar"}, n \in Ns, rs \in S, bs \in S, limb \in 0..(MaxS - 1) } 
Scalars1 == { d \in Scalars : d.limb < d.rs /\ d.limb < d.bs }
ScalarsA == { D(op, n, n, rs, 1, 1, 0, limb, 0) :
               op \in {"add_scalar_assign", "sub_scalar_assign"}, n \in Ns, rs \in S, limb \in 0..(MaxS - 1) }
ScalarsA1 == { d \in ScalarsA : d.limb < d.rs }
\* ring switching in both directions, splitting (every part) and merging
Switch == { D("switch_ring", n, na, rs, as, 1, 0, 0, 0) :
              n \in Ns, na \in Ns, rs \in S, as \in S }
Switch1 == { d \in Switch : \/ d.n = d.na
                            \/ (d.n > d.na /\ d.n \div d.na \in Ratios)
                            \/ (d.na > d.n /\ d.na \div d.n \in Ratios) }
Splits == { D("split_ring", n, na, rs, as, 1, 0, 0, part) :
              n \in Ns, na \in Ns, rs \in S, as \in S, part \in 0..(MaxRatio - 1) }
Splits1 == { d \in Splits : d.na > d.n /\ d.na \div d.n \in Ratios /\ d.part < d.na \div d.n }
Merges == { D("merge_rings", n, na, rs, as, 1, 0, 0, 0) : n \in Ns, na \in Ns, rs \in S, as \in S }
Merges1 == { d \in Merges : d.n > d.na /\ d.n \div d.na \in Ratios }

Descs == Rotations \cup Autos \cup Unary \cup Binary \cup Accum \cup Scalars1 \cup ScalarsA1 \cup Switch1 \cup Splits1 \cup Merges1

ASSUME ndJsonSerialize(IOEnv.OUT, SetToSeq(Descs))
ASSUME PrintT(<<"GENERATED", Cardinality(Descs)>>)

VARIABLE c
Init == c \in Descs
Next == UNCHANGED c
=============================================================================
