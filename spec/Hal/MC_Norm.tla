------------------------------- MODULE MC_Norm -------------------------------
(* Spec-level model check for C08: the relational post-condition NormOK of HalNorm.tla is  *)
(*  (a) satisfiable - the constructive reference (round-half-up then balanced digit        *)
(*      expansion, carries rippling from the least significant limb) satisfies it for      *)
(*      every un-normalised input, every radix pair, size pair and signed offset in scope; *)
(*  (b) not vacuous  - the reference result perturbed by two units of the last limb is     *)
(*      rejected whenever the result has at least 3 bits;                                  *)
(*  (c) for equal radices the reference digits are balanced.                               *)
(* One state per (bA, bR, Sa, Sr, off, digit tuple).                                       *)
EXTENDS Integers, Sequences, FiniteSets, TLC, Pow2, Poly, Limbs, HalNorm

CONSTANTS B, MaxS

VARIABLES bA, bR, off, src, sr
vars == <<bA, bR, off, src, sr>>

Digits(b) == (-(2 ^ (b + 1)))..(2 ^ (b + 1))
Cols(b, S) == [1..S -> Digits(b)]

Init == /\ bA \in B /\ bR \in B /\ sr \in 1..MaxS
        /\ \E sa \in 1..MaxS : /\ src \in Cols(bA, sa)
                               /\ off \in (-(sa * bA + 2 * bA))..(sa * bA + 2 * bA)
Next == UNCHANGED vars

Sa == Len(src)
A == TorusInt([j \in 1..Sa |-> <<src[j]>>], bA, 1)
E == off + sr * bR - Sa * bA
M == Pow2(sr * bR)
Target == IF E >= sr * bR THEN 0 ELSE IF E >= 0 THEN CMod(A * Pow2(E), M) ELSE CMod(DivRoundHalfUp(A, -E), M)
RefCol == LET ds == RefDigits(Target, bR, sr) IN [j \in 1..sr |-> <<ds[j]>>]
Ins == [a |-> [j \in 1..Sa |-> <<src[j]>>], r |-> <<>>]
P == [k |-> off, rb |-> bR, ab |-> bA]

Satisfiable == NormOK("normalize", 1, P, sr, Ins, RefCol)
Perturbed == [j \in 1..sr |-> IF j = sr THEN <<RefCol[j][1] + 2>> ELSE RefCol[j]]
NotVacuous == (sr * bR >= 3) => ~NormOKt("normalize", 1, P, sr, Ins, Perturbed, 1) \/ bA = bR
NotVacuousRel == (sr * bR >= 3) =>
   ~TorusShiftOK(TorusInt(Perturbed, bR, 1), A, E, sr * bR, 1)
RefBalanced == IsNormalized(RefCol, bR)
=============================================================================
