CONSTANTS
  Ns = {1, 2, 4, 8}
  MaxS = 3
  MaxRatio = 4
  VMax = 1000
INIT Init
NEXT Next
CHECK_DEADLOCK FALSE
