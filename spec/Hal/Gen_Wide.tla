------------------------------- MODULE Gen_Wide -------------------------------
(* Wide-radix / SIMD-tail corpus for normalisation, shifts and the wrapping ring kernels    *)
(* (C10: "all 64-bit boundary values for the normalisation kernels crossed with all carries  *)
(* and radices", "lengths that are not multiples of the SIMD width"; C08 full radix range).  *)
(* Values exceed TLC's native integers: events are validated for cross-back-end agreement,   *)
(* fill independence and absence of panics (chk = "agree").                                  *)
(*   radices 12, 17, 31, 50, 52, 62 (and cross pairs), ring degrees 1, 2, 4, 8, 16, 64,       *)
(*   sizes 1..MaxS, shift amounts with every kind of k mod b (0, 1, small, b/2, b-2, b-1),   *)
(*   value classes: normalised digits, full i64 range, boundary mix, carry ripple.           *)
EXTENDS Integers, Sequences, FiniteSets, TLC, Json

CONSTANTS Ns, Bs, MaxS, Classes

S == 1..MaxS
Ks(b, sz) == {0, 1, 2, 5, b \div 2, b - 14, b - 2, b - 1, b, b + 1, b + 14, 2 * b - 1, 2 * b, (sz + 1) * b + 3} \cap (0..((sz + 2) * b))
D(op, n, rs, as, rb, ab, k, vc) ==
  [op |-> op, n |-> n, na |-> n, rs |-> rs, as |-> as, bs |-> 1, rb |-> rb, ab |-> ab, k |-> k,
   vmax |-> 1, limb |-> 0, part |-> 0, vclass |-> vc, chk |-> "agree"]

\* ---- one TLC state per descriptor (printed by the invariant Emit): the families are quantified, never built as sets
VARIABLE c
Init == c = [op |-> "none"]
Next ==
  /\ c.op = "none"
  /\ \/ \E op \in {"lsh", "rsh", "lsh_add_into", "rsh_add_into", "lsh_sub", "rsh_sub"}, n \in Ns, rs \in S, as \in S, b \in Bs, vc \in Classes : \E k \in Ks(b, as) :
            c' = D(op, n, rs, as, b, b, k, vc)
     \/ \E n \in Ns, rs \in S, b \in Bs, vc \in Classes : \E k \in Ks(b, rs) : c' = D("lsh_assign", n, rs, rs, b, b, k, vc)
     \/ \* equal radices only for the NTT120/FFT64 comparison of big_normalize (cross-radix rounding differs: known finding)
        \* ... and only for values inside the i64 accumulator's headroom (classes 10, 13): with full-range digits the i64
        \* accumulator of FFT64 wraps where the i128 accumulator of NTT120 does not, which is outside the common domain
        \E op \in {"normalize", "big_normalize"}, n \in Ns, rs \in S, as \in S, rb \in Bs, ab \in Bs, vc \in Classes : \E k \in {0, 1, ab - 1, ab} :
            /\ (op = "normalize" \/ (rb = ab /\ vc \in {10, 13}))
            /\ c' = D(op, n, rs, as, rb, ab, k, vc)
     \/ \E n \in Ns, rs \in S, b \in Bs, vc \in Classes : c' = D("normalize_assign", n, rs, rs, b, b, 0, vc)
     \/ \* wrapping ring kernels over the whole i64 range
        \E op \in {"add_into", "sub", "add_assign", "sub_assign", "sub_negate_assign", "negate", "rotate", "automorphism", "mul_xp_minus_one"},
           n \in Ns, rs \in S, as \in S, k \in {1, 3, 5} : c' = D(op, n, rs, as, 62, 62, k, 11)
     \/ \* 128-bit accumulators holding values beyond 64 bits (class 14: a seeded 40-bit high part on every word): only the NTT120
        \* family can hold them, so these events are compared within a back-end family (reference against AVX); every radix pair,
        \* offsets of either sign with every kind of k mod b, plain / fused add / fused sub / negated forms
        \E op \in {"big_normalize", "big_normalize_add_assign", "big_normalize_sub_assign", "big_normalize_negate"},
           n \in (Ns \ {1}), rs \in {3, 4, 6}, as \in {2, 4}, rb \in Bs, ab \in Bs : \E k \in {0, 1, ab \div 2, ab - 1, ab, ab + 1, -1, 1 - ab, -ab} :
            c' = D(op, n, rs, as, rb, ab, k, 14)
Emit == c.op # "none" => PrintT(<<"DESC", ToJson(c)>>)
=============================================================================
