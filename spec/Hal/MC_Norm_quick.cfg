CONSTANTS
  B = {1, 2}
  MaxS = 2
INIT Init
NEXT Next
CHECK_DEADLOCK FALSE
INVARIANTS Satisfiable NotVacuousRel RefBalanced
