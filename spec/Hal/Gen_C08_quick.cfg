CONSTANTS
  B = {1, 2, 3}
  MaxS = 2
  N = 8
  Wide = FALSE
  MaxEncK = 7
INIT Init
NEXT Next
CHECK_DEADLOCK FALSE
