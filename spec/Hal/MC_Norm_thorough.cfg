CONSTANTS
  B = {1, 2, 3}
  MaxS = 3
INIT Init
NEXT Next
CHECK_DEADLOCK FALSE
INVARIANTS Satisfiable NotVacuousRel RefBalanced
