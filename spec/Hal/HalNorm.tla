------------------------------- MODULE HalNorm -------------------------------
(* Normalisation and bit shifts of limb vectors (C08).                                   *)
(*                                                                                       *)
(* These operations are *relational*: the library may round either way, so the           *)
(* specification is the two-line arithmetic fact, not a carry-propagation algorithm:     *)
(*                                                                                       *)
(*   the result represents  source * 2^off  on the torus R/Z, with an absolute error of  *)
(*   at most one unit of the result's last limb, and exactly when the result has enough  *)
(*   limbs.                                                                              *)
(*                                                                                       *)
(* With  A = TorusInt(source, bA)  (torus value A / 2^(Sa*bA)),                          *)
(*       D = TorusInt(result, bR)  (torus value D / 2^(Sr*bR)),  M = 2^(Sr*bR)  and      *)
(*       E = off + Sr*bR - Sa*bA :                                                       *)
(*   E >= 0 :  D = A * 2^E  (mod M)                       -- exact                       *)
(*   E <  0 :  | D - A / 2^(-E) | <= 1  on the cycle Z/M  -- one unit of the last limb   *)
(* The second case is evaluated without large intermediates: with q = floor(A / 2^(-E)), *)
(*   D - q (mod M) is in {-1,0,1} when 2^(-E) divides A and in {0,1} otherwise.*)
(* Accumulating forms state the same about D = +-(result - previous result).             *)
EXTENDS Integers, Sequences, Pow2, Poly, Limbs

NormOpsPlain == {"normalize", "normalize_assign", "lsh", "lsh_assign", "rsh", "rsh_assign", "big_normalize"}
NormOpsAcc   == {"lsh_add_into", "lsh_sub", "rsh_add_into", "rsh_sub",
                 "big_normalize_add_assign", "big_normalize_sub_assign", "big_normalize_negate"}
IsNormOp(op) == op \in NormOpsPlain \cup NormOpsAcc

\* source column, radices, signed bit offset, and how the observed result enters (sign / accumulation)
NSrc(op, ins) == IF op \in {"normalize_assign", "lsh_assign", "rsh_assign"} THEN ins.r ELSE ins.a
NOff(op, p) ==
  CASE op \in {"normalize", "big_normalize", "big_normalize_add_assign", "big_normalize_sub_assign", "big_normalize_negate"} -> p.k
    [] op = "normalize_assign" -> 0
    [] op \in {"lsh", "lsh_assign", "lsh_add_into", "lsh_sub"} -> p.k
    [] op \in {"rsh", "rsh_assign", "rsh_add_into", "rsh_sub"} -> -p.k
NAccumulates(op) == op \in {"lsh_add_into", "lsh_sub", "rsh_add_into", "rsh_sub", "big_normalize_add_assign", "big_normalize_sub_assign"}
NSign(op) == IF op \in {"lsh_sub", "rsh_sub", "big_normalize_sub_assign", "big_normalize_negate"} THEN -1 ELSE 1

\* the core relation for one coefficient (mb = log2 M).  Written so that no intermediate exceeds
\* max(|A| * M, |D|): shifts that push everything out (E >= mb) or below one unit (-E >= Cap with
\* |A| < 2^Cap) are decided without forming 2^|E|.
Cap == 24
TorusShiftOK(D, A, E, mb, t) ==   \* t = tolerance in units of the last limb (the property: t = 1)
  LET M == Pow2(mb) IN
  IF E >= mb THEN D % M = 0
  ELSE IF E >= 0 THEN (D - A * Pow2(E)) % M = 0
  ELSE LET big == (-E >= Cap)
           q == IF big THEN (IF A < 0 THEN -1 ELSE 0) ELSE A \div Pow2(-E)
           exact == IF big THEN A = 0 ELSE (A % Pow2(-E) = 0)
           dd == (D - q) % M          \* residue in 0..M-1 (M may be as small as 2, where 1 = -1)
       IN /\ Abs(A) < Pow2(Cap)
          /\ IF exact THEN \E u \in (-t)..t : dd = u % M ELSE \E u \in (1 - t)..t : dd = u % M

NormOKt(op, N, p, rs, ins, d, t) ==
  LET src == NSrc(op, ins)
      bA == p.ab
      bR == p.rb
      Sa == Len(src)
      E  == NOff(op, p) + rs * bR - Sa * bA
  IN /\ Len(d) = rs
     /\ \A j \in 1..rs : Len(d[j]) = N
     /\ \A i \in 1..N :
          LET A  == TorusInt(src, bA, i)
              Dn == TorusInt(d, bR, i)
              D0 == IF NAccumulates(op) THEN TorusInt(ins.r, bR, i) ELSE 0
          IN TorusShiftOK(NSign(op) * (Dn - D0), A, E, rs * bR, t)
     \* for equal radices every output digit is balanced (plain, non-accumulating, non-negated forms)
     /\ (op \in NormOpsPlain /\ bA = bR) => IsNormalized(d, bR)

NormOK(op, N, p, rs, ins, d) == NormOKt(op, N, p, rs, ins, d, 1)
\* diagnostic only (classification of rejected events for the findings file): within two units
NormOK2(op, N, p, rs, ins, d) == NormOKt(op, N, p, rs, ins, d, 2)

\* A constructive reference (floor-based carry propagation from the least significant limb) used by
\* MC_Norm to show that the relational post-condition above is satisfiable and not vacuous:
\* the balanced digits of round-to-nearest(A * 2^E).
RefTarget(A, E, M) == IF E >= 0 THEN CMod(A * Pow2(E), M) ELSE CMod(DivRoundHalfUp(A, -E), M)
RECURSIVE RefDigits(_, _, _)
RefDigits(x, b, S) ==   \* S balanced digits (most significant first) of x modulo 2^(S*b)
  IF S = 0 THEN <<>> ELSE Append(RefDigits(Carry(x, b), b, S - 1), Digit(x, b))
=============================================================================
