------------------------------- MODULE Gen_Mag -------------------------------
(* Magnitude corpus for the DFT-domain products (C07 "no rounding error is visible", C10):  *)
(* realistic ring degrees and radices, value classes random / all digits at +extreme with   *)
(* aligned signs (worst case for floating-point error and lazy modular accumulation) /      *)
(* alternating / sparse / all at -extreme.  Values exceed native TLC integers, so these     *)
(* events are validated for cross-family agreement (FFT64 exact iff equal to the exact      *)
(* NTT120 arithmetic), fill independence and absence of panics: chk = "agree".              *)
(* Entered only inside the FFT64 magnitude domain, with a margin:                           *)
(*    log2(N) + 2*b + log2(#accumulated terms) <= DomainBits.                               *)
EXTENDS Integers, Sequences, FiniteSets, TLC, Json, IOUtils, SequencesExt

CONSTANTS Ns, Bs, Classes, DomainBits, MaxS

RECURSIVE Log2c(_)
Log2c(x) == IF x <= 1 THEN 0 ELSE 1 + Log2c((x + 1) \div 2)      \* ceil(log2 x)

Base(op, n, b, vc, rs, as, bs) ==
  [op |-> op, n |-> n, rs |-> rs, as |-> as, bs |-> bs, step |-> 1, off |-> 0, scale |-> 0,
   rows |-> 1, cin |-> 1, cout |-> 1, ms |-> 1, maskt |-> 0, same |-> 0, vmax |-> 2 ^ (b - 1), vclass |-> vc,
   chk |-> "agree", b |-> b, pa |-> as, pb |-> bs]

InDomain(n, b, terms) == Log2c(n) + 2 * b + Log2c(terms) <= DomainBits

S == 1..MaxS
Svp == { Base("svp_apply_dft", n, b, vc, s, 1, s) : n \in Ns, b \in Bs, vc \in Classes, s \in S }
Vmp == { [Base("vmp_apply_dft", n, b, vc, s, s, 1) EXCEPT !.rows = s, !.cin = ci, !.cout = 2, !.ms = s] :
           n \in Ns, b \in Bs, vc \in Classes, s \in S, ci \in 1..2 }
Cnv == { [Base(op, n, b, vc, 2 * s, s, s) EXCEPT !.off = of] :
           op \in {"cnv_apply_dft", "cnv_pairwise_apply_dft", "cnv_by_const_apply"}, n \in Ns, b \in Bs, vc \in Classes, s \in S, of \in {0, 1} }
RoundTrip == { Base("idft_apply", n, b, vc, s, s, 1) : n \in Ns, b \in Bs, vc \in Classes, s \in S }

Terms(d) == CASE d.op = "svp_apply_dft" -> 1
              [] d.op = "vmp_apply_dft" -> d.rows * d.cin
              [] d.op = "cnv_pairwise_apply_dft" -> 4 * d.as
              [] d.op = "idft_apply" -> 1
              [] OTHER -> d.as
\* the round trip carries single digits, not products: its domain is log2(N) + b
Ok(d) == IF d.op = "idft_apply" THEN Log2c(d.n) + d.b <= DomainBits ELSE InDomain(d.n, d.b, Terms(d))

Descs == { d \in Svp \cup Vmp \cup Cnv \cup RoundTrip : Ok(d) }

ASSUME ndJsonSerialize(IOEnv.OUT, SetToSeq(Descs))
ASSUME PrintT(<<"GENERATED", Cardinality(Descs)>>)

VARIABLE c
Init == c \in Descs
Next == UNCHANGED c
=============================================================================
