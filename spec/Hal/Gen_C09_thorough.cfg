CONSTANTS
  Ns = {1, 2, 4, 8, 16, 32}
  MaxS = 4
  MaxRatio = 16
  VMax = 100000
INIT Init
NEXT Next
CHECK_DEADLOCK FALSE
