CONSTANTS
  Ns = {8, 16, 32}
  MaxS = 4
  MaxSel = 4
  VMax = 3
  Classes = {0, 1, 2, 3, 4}
INIT Init
NEXT Next
CHECK_DEADLOCK FALSE
