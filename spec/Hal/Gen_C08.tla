------------------------------- MODULE Gen_C08 -------------------------------
(* Behaviour generator for normalisation and shifts (C08): exhaustive small scope.        *)
(* Every descriptor carries a digit alphabet; the harness expands it to *all* digit       *)
(* tuples alpha^size (HalTrace re-derives the enumeration, so completeness is decided by  *)
(* TLC).  Alphabets include out-of-range digits: inputs need not be normalised.           *)
(*   radices (bA, bR) in B x B for cross-radix normalisation, equal radix for shifts      *)
(*   sizes 1..MaxS for source and result independently                                    *)
(*   offsets / shift amounts from -(a_bits + 2b) to +(a_bits + 2b), i.e. including shifts *)
(*   larger than the output precision                                                     *)
EXTENDS Integers, Sequences, FiniteSets, TLC, Json, IOUtils, SequencesExt

CONSTANTS B, MaxS, N, Wide, MaxEncK

S == 1..MaxS
\* digits -2^b .. 2^b  (balanced range is [-2^(b-1), 2^(b-1)) : half of these are out of range);
\* Wide adds the next power of two on both sides
Alpha(b) == LET base == [t \in 1..(2 * (2 ^ b) + 1) |-> t - 1 - 2 ^ b]
            IN IF Wide THEN <<-(2 ^ (b + 1))>> \o base \o <<2 ^ (b + 1)>> ELSE base

\* three-limb sources use the balanced range widened by one digit on each side (keeps alpha^3 enumerable for b = 4)
Narrow(b) == [t \in 1..(2 ^ b + 2) |-> t - 2 - 2 ^ (b - 1)]
AlphaFor(b, sz) == IF sz >= 3 /\ b >= 3 THEN Narrow(b) ELSE Alpha(b)
D(op, rs, as, rb, ab, k) ==
  [op |-> op, n |-> N, na |-> N, rs |-> rs, as |-> as, bs |-> 1, rb |-> rb, ab |-> ab, k |-> k,
   alpha |-> AlphaFor(ab, IF op \in {"normalize_assign", "lsh_assign", "rsh_assign"} THEN rs ELSE as), vmax |-> 2 ^ rb, limb |-> 0, part |-> 0]

Span(as, ab) == as * ab + 2 * ab

Normalize == UNION { { D(op, rs, as, rb, ab, k) : op \in {"normalize", "big_normalize"}, rs \in S, k \in (-Span(as, ab))..Span(as, ab) }
                     : as \in S, rb \in B, ab \in B }
NormAcc == UNION { { D(op, rs, as, rb, ab, k) : op \in {"big_normalize_add_assign", "big_normalize_sub_assign", "big_normalize_negate"},
                                               rs \in S, k \in (-Span(as, ab))..Span(as, ab) }
                     : as \in S, rb \in B, ab \in B }
NormAssign == { D("normalize_assign", rs, rs, b, b, 0) : rs \in S, b \in B }
Shifts == UNION { { D(op, rs, as, b, b, k) : op \in {"lsh", "rsh", "lsh_add_into", "rsh_add_into", "lsh_sub", "rsh_sub"},
                                            rs \in S, k \in 0..Span(as, b) }
                  : as \in S, b \in B }
ShiftAssign == UNION { { D(op, rs, rs, b, b, k) : op \in {"lsh_assign", "rsh_assign"}, k \in 0..Span(rs, b) } : rs \in S, b \in B }

\* integer encoding: every (b, k) with 2 <= b, 1 <= k <= S*b (k < b, k a multiple of b, k = S*b), S up to MaxS + 1,
\* every value in [-2^k, 2^k] (alphabet = the value range, one "digit" per coefficient); single-coefficient
\* forms at every index
ValRange(k) == [t \in 1..(2 * (2 ^ k) + 1) |-> t - 1 - 2 ^ k]
DE(op, rs, b, k, idx) ==
  [op |-> op, n |-> N, na |-> N, rs |-> rs, as |-> 1, bs |-> 1, rb |-> b, ab |-> b, k |-> k,
   alpha |-> ValRange(k), vmax |-> 2 ^ b, limb |-> idx, part |-> 0]
EncB == B \ {1}
Encodes == UNION { { DE(op, rs, b, k, 0) : op \in {"encode_vec_i64", "encode_vec_i128"}, k \in 1..(rs * b) } : rs \in 1..(MaxS + 1), b \in EncB }
EncodeCoeff == UNION { { DE("encode_coeff_i64", rs, b, k, idx) : k \in 1..(rs * b), idx \in 0..(N - 1) } : rs \in 1..(MaxS + 1), b \in EncB }
EncSmall == { d \in Encodes \cup EncodeCoeff : d.k <= MaxEncK }

Descs == Normalize \cup NormAcc \cup NormAssign \cup Shifts \cup ShiftAssign \cup EncSmall

ASSUME ndJsonSerialize(IOEnv.OUT, SetToSeq(Descs))
ASSUME PrintT(<<"GENERATED", Cardinality(Descs)>>)

VARIABLE c
Init == c \in Descs
Next == UNCHANGED c
=============================================================================
