CONSTANTS
  Ns = {8, 64, 1024}
  Bs = {12, 17}
  Classes = {0, 1, 2, 5}
  DomainBits = 48
  MaxS = 2
INIT Init
NEXT Next
CHECK_DEADLOCK FALSE
