CONSTANTS
  Ns = {8, 16}
  MaxS = 3
  MaxSel = 3
  VMax = 3
  Classes = {0, 1}
INIT Init
NEXT Next
CHECK_DEADLOCK FALSE
