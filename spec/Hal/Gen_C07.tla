------------------------------- MODULE Gen_C07 -------------------------------
(* Behaviour generator for the DFT-domain layer (C07): shape logic at N = 8 (and the other *)
(* Ns given), tagged small digits so that TLC's exact integer products stay native.        *)
(*   all size / row / column combinations 1..MaxS including mismatched ones,               *)
(*   limb_offset 0..size+1, (step, offset) selections including those past the last limb,  *)
(*   convolution offsets 0..a+b, pairwise i = j and i # j, top-limb masks,                 *)
(*   value classes: random, all +max (aligned signs), alternating, sparse, zero.           *)
EXTENDS Integers, Sequences, FiniteSets, TLC, Json, IOUtils, SequencesExt

CONSTANTS Ns, MaxS, MaxSel, VMax, Classes

S == 1..MaxS
Base(op, n, rs, as, bs) ==
  [op |-> op, n |-> n, rs |-> rs, as |-> as, bs |-> bs, step |-> 1, off |-> 0, scale |-> 0,
   rows |-> 1, cin |-> 1, cout |-> 1, ms |-> 1, maskt |-> 0, same |-> 0, vmax |-> VMax, vclass |-> 0, pa |-> as, pb |-> bs]

Transforms ==
  { [Base(op, n, rs, as, 1) EXCEPT !.step = st, !.off = of] :
      op \in {"dft_apply", "dft_copy"}, n \in Ns, rs \in S, as \in S, st \in 1..MaxSel, of \in 0..(MaxS + 1) }
  \cup { Base(op, n, rs, as, 1) : op \in {"idft_apply", "idft_apply_tmpa"}, n \in Ns, rs \in S, as \in S }
  \cup { Base("idft_apply_consume", n, as, as, 1) : n \in Ns, as \in S }
  \cup { Base("dft_zero", n, rs, 1, 1) : n \in Ns, rs \in S }
Linear ==
  { Base(op, n, rs, as, bs) : op \in {"dft_add_into", "dft_sub"}, n \in Ns, rs \in S, as \in S, bs \in S }
  \cup { Base(op, n, rs, as, 1) : op \in {"dft_add_assign", "dft_sub_assign", "dft_sub_negate_assign"}, n \in Ns, rs \in S, as \in S }
  \cup { [Base("dft_add_scaled_assign", n, rs, as, 1) EXCEPT !.scale = sc] : n \in Ns, rs \in S, as \in S, sc \in (-(MaxS + 1))..(MaxS + 1) }
Svp ==
  { [Base(op, n, rs, 1, bs) EXCEPT !.vclass = vc] : op \in {"svp_apply_dft", "svp_apply_dft_to_dft"}, n \in Ns, rs \in S, bs \in S, vc \in Classes }
  \cup { [Base("svp_apply_dft_to_dft_assign", n, rs, 1, 1) EXCEPT !.vclass = vc] : n \in Ns, rs \in S, vc \in Classes }
Vmp ==
  { [Base("vmp_apply_dft", n, rs, as, 1) EXCEPT !.rows = ro, !.cin = ci, !.cout = co, !.ms = ms] :
      n \in Ns, rs \in S, as \in S, ro \in S, ci \in 1..2, co \in 1..2, ms \in S }
  \cup { [Base("vmp_apply_dft_to_dft", n, rs, as, 1) EXCEPT !.rows = ro, !.cin = ci, !.cout = co, !.ms = ms, !.off = lo] :
      n \in Ns, rs \in S, as \in S, ro \in S, ci \in 1..2, co \in 1..2, ms \in S, lo \in 0..(MaxS + 1) }
Cnv ==
  { [Base(op, n, rs, as, bs) EXCEPT !.off = of, !.maskt = mt] :
      op \in {"cnv_apply_dft", "cnv_by_const_apply"}, n \in Ns, rs \in 1..(2 * MaxS), as \in S, bs \in S, of \in 0..(2 * MaxS), mt \in {0, 2} }
  \cup { [Base("cnv_apply_dft_self", n, rs, as, as) EXCEPT !.off = of, !.maskt = mt] :
      n \in Ns, rs \in 1..(2 * MaxS), as \in S, of \in 0..(2 * MaxS), mt \in {0, 2} }
  \cup { [Base("cnv_pairwise_apply_dft", n, rs, as, bs) EXCEPT !.off = of, !.same = sm] :
      n \in Ns, rs \in 1..(2 * MaxS), as \in S, bs \in S, of \in 0..(2 * MaxS), sm \in {0, 1} }
\* prepared operands with fewer / more limbs than their source (truncation, zero extension)
CnvPrep ==
  { [Base(op, n, rs, as, bs) EXCEPT !.off = of, !.pa = pa, !.pb = pb] :
      op \in {"cnv_apply_dft", "cnv_pairwise_apply_dft"}, n \in Ns, rs \in {2, 2 * MaxS}, as \in S, bs \in S, of \in {0, 1},
      pa \in 1..(MaxS + 1), pb \in 1..(MaxS + 1) }
  \cup { [Base("cnv_apply_dft_self", n, rs, as, as) EXCEPT !.off = of, !.pa = pa, !.pb = pa] :
      n \in Ns, rs \in {2, 2 * MaxS}, as \in S, of \in {0, 1}, pa \in 1..(MaxS + 1) }
CnvPrep1 == { d \in CnvPrep : d.pa # d.as \/ d.pb # d.bs }
\* the constant form has no mask and keeps the offset inside a + b
Cnv1 == { d \in Cnv : (d.op = "cnv_by_const_apply" => d.maskt = 0) /\ d.off <= d.as + d.bs /\ d.rs <= d.as + d.bs + 1 }

Descs == Transforms \cup Linear \cup Svp \cup Vmp \cup Cnv1 \cup CnvPrep1

ASSUME ndJsonSerialize(IOEnv.OUT, SetToSeq(Descs))
ASSUME PrintT(<<"GENERATED", Cardinality(Descs)>>)

VARIABLE c
Init == c \in Descs
Next == UNCHANGED c
=============================================================================
