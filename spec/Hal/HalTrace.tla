------------------------------ MODULE HalTrace ------------------------------
(* Trace specification for HAL-level executions (implementation -> specification).      *)
(* The harness logs one event per public call: operation, scalar arguments, the operand  *)
(* columns it supplied, and the *set of distinct outcomes* observed over                 *)
(*   back-ends {0 FFT64Ref, 1 FFT64Avx, 2 NTT120Ref, 3 NTT120Avx} x garbage pre-fills {0,1}.*)
(* This module replays the log: event i is accepted iff the post-state the specification *)
(* derives from the logged inputs equals every observed outcome.  Three verdict classes:  *)
(*   sem   - an outcome differs from the specified post-state (or the call panicked)     *)
(*   be    - two back-ends disagree under the same pre-fill                      (C10)   *)
(*   fill  - one back-end gives different results from different garbage, or a byte      *)
(*           outside the selected result column changed                          (C11)   *)
(* Rejected events are collected (not stopped at) so that the remainder of the log is    *)
(* still examined.                                                                       *)
EXTENDS Integers, Sequences, TLC, Json, IOUtils, HalVecZnx, HalNorm, HalDft

Rec == ndJsonDeserialize(IOEnv.TRACE)

VARIABLES i, bad
vars == <<i, bad>>

Post(e) ==
  IF IsVecZnxOp(e.op) THEN VecZnxPost(e.op, e.n, e.p, e.rs, e.ins)
  ELSE IF IsDftOp(e.op) THEN DftPost(e.op, e.n, e.p, e.rs, e.ins)
  ELSE <<"no such op">>

Who(e, o) == {e.outs[o].who[w] : w \in 1..Len(e.outs[o].who)}

\* relational operations (normalisation, shifts) are judged by a predicate, functional ones by equality
OutOK(e, d) == IF IsNormOp(e.op) THEN NormOK(e.op, e.n, e.p, e.rs, e.ins, d) ELSE d = Post(e)

SemOK(e)  == \A o \in 1..Len(e.outs) : e.outs[o].panic = "" /\ OutOK(e, e.outs[o].d)
BeOK(e)   == \A o1, o2 \in 1..Len(e.outs) : o1 # o2 =>
                 \A x \in Who(e, o1), y \in Who(e, o2) : x.f # y.f
FillOK(e) == /\ e.frame
             /\ \A o1, o2 \in 1..Len(e.outs) : o1 # o2 =>
                 \A x \in Who(e, o1), y \in Who(e, o2) : x.b # y.b

Verdict(e, k) ==
     (IF SemOK(e)  THEN <<>> ELSE << <<k, "sem">> >>)
  \o (IF BeOK(e)   THEN <<>> ELSE << <<k, "be">> >>)
  \o (IF FillOK(e) THEN <<>> ELSE << <<k, "fill">> >>)

Init == i = 1 /\ bad = <<>>
Next == /\ i <= Len(Rec)
        /\ i' = i + 1
        /\ bad' = bad \o Verdict(Rec[i], i)
Spec == Init /\ [][Next]_vars

Done == i = Len(Rec) + 1
\* always TRUE; prints the verdict once, in the final state
Report == Done => PrintT(<<"VERDICT", Len(Rec), ToJson(bad)>>)
=============================================================================
