------------------------------ MODULE HalTrace ------------------------------
(* Trace specification for HAL-level executions (implementation -> specification).      *)
(* The harness logs one event per public call: operation, scalar arguments, the operand  *)
(* columns it supplied, and the *set of distinct outcomes* observed over                 *)
(*   back-ends {0 FFT64Ref, 1 FFT64Avx, 2 NTT120Ref, 3 NTT120Avx} x garbage pre-fills {0,1}.*)
(* This module replays the log: event i is accepted iff the post-state the specification *)
(* derives from the logged inputs equals every observed outcome.  Three verdict classes:  *)
(*   sem   - an outcome differs from the specified post-state (or the call panicked)     *)
(*   be    - two back-ends disagree under the same pre-fill                      (C10)   *)
(*   fill  - one back-end gives different results from different garbage, or a byte      *)
(*           outside the selected result column changed                          (C11)   *)
(* Rejected events are collected (not stopped at) so that the remainder of the log is    *)
(* still examined.                                                                       *)
EXTENDS Integers, Sequences, TLC, Json, IOUtils, HalVecZnx, HalNorm, HalDft, Encoding, Scratch

Rec == ndJsonDeserialize(IOEnv.TRACE)

VARIABLES i, bad, prev
vars == <<i, bad, prev>>

Post(e) ==
  IF IsVecZnxOp(e.op) THEN VecZnxPost(e.op, e.n, e.p, e.rs, e.ins)
  ELSE IF IsDftOp(e.op) THEN DftPost(e.op, e.n, e.p, e.rs, e.ins)
  ELSE <<"no such op">>

Who(e, o) == {e.outs[o].who[w] : w \in 1..Len(e.outs[o].who)}

\* relational operations (normalisation, shifts) are judged by a predicate, functional ones by equality
OutOK(e, o) == IF IsNormOp(e.op) THEN NormOK(e.op, e.n, e.p, e.rs, e.ins, o.d)
              ELSE IF IsEncOp(e.op) THEN EncOK(e.op, e.n, e.p, e.rs, e.ins, o.d, o.dec)
              ELSE o.d = Post(e)

\* events of the magnitude corpora (values beyond native integers) are checked for absence of panics,
\* cross-back-end agreement and fill independence only: chk = "agree"
SemOK(e)  == \A o \in 1..Len(e.outs) : e.outs[o].panic = "" /\ (e.chk = "agree" \/ OutOK(e, e.outs[o]))
\* diagnostic: a rejected relational event whose every outcome is still within two units ("sem1")
Sem2OK(e) == IsNormOp(e.op) /\ \A o \in 1..Len(e.outs) :
                e.outs[o].panic = "" /\ NormOK2(e.op, e.n, e.p, e.rs, e.ins, e.outs[o].d)
\* value class 14 (128-bit accumulator words beyond 64 bits) exists on the NTT120 family only: compared within a family
FamOnly(e) == "vclass" \in DOMAIN e.p /\ e.p.vclass = 14
BeOK(e)   == \A o1, o2 \in 1..Len(e.outs) : o1 # o2 =>
                 \A x \in Who(e, o1), y \in Who(e, o2) : x.f # y.f \/ (FamOnly(e) /\ x.b \div 2 # y.b \div 2)
FillOK(e) == /\ e.frame
             /\ \A o1, o2 \in 1..Len(e.outs) : o1 # o2 =>
                 \A x \in Who(e, o1), y \in Who(e, o2) : x.b # y.b

\* Exhaustive digit enumeration (descriptors carrying an alphabet): the harness must have supplied
\* exactly tuple number (chunk*N + i) mod |alpha|^size of the lexicographic enumeration at coefficient i,
\* and the chunks of one descriptor must appear consecutively 0..nchunks-1 -- so that "every digit
\* tuple" is established by TLC and not taken on the harness's word.
EnumSrc(e) == IF e.op \in {"normalize_assign", "lsh_assign", "rsh_assign"} THEN e.ins.r ELSE e.ins.a
EnumOK(e) ==
  \/ Len(e.alpha) = 0
  \/ LET al == e.alpha
         L == Len(al)
         src == EnumSrc(e)
         sz == Len(src)
         N == Len(src[1])
         total == L ^ sz
     IN /\ e.nchunks = (total + N - 1) \div N
        /\ e.chunk < e.nchunks
        /\ \A c \in 1..N : \A j \in 1..sz :
              src[j][c] = al[((((e.chunk * N + c - 1) % total) \div (L ^ (sz - j))) % L) + 1]
SeqOK(e) ==
  IF Len(e.alpha) = 0 THEN prev.chunk = prev.nchunks - 1
  ELSE IF e.did = prev.did THEN e.chunk = prev.chunk + 1
  ELSE prev.chunk = prev.nchunks - 1 /\ e.chunk = 0

\* C12: every scratch-taking library call of the event ran inside a window of exactly the declared
\* size: no failed take, arena discipline respected, canaries intact (Scratch.tla)
ScrOK(e) == \A r \in 1..Len(e.scr) : \A c \in 1..Len(e.scr[r].calls) : CallOK(e.scr[r].calls[c])
ScrMemOK(e) == \A r \in 1..Len(e.scr) : \A c \in 1..Len(e.scr[r].calls) : CallMemOK(e.scr[r].calls[c])

Verdict(e, k) ==
     (IF EnumOK(e) /\ SeqOK(e) THEN <<>> ELSE << <<k, "enum">> >>) \o
     (IF SemOK(e)  THEN <<>> ELSE << <<k, IF Sem2OK(e) THEN "sem1" ELSE "sem">> >>)
  \o (IF BeOK(e)   THEN <<>> ELSE << <<k, "be">> >>)
  \o (IF FillOK(e) THEN <<>> ELSE << <<k, "fill">> >>)
  \o (IF ScrOK(e)  THEN <<>> ELSE << <<k, "scr">> >>)
  \o (IF ScrMemOK(e) THEN <<>> ELSE << <<k, "scrmem">> >>)

Init == i = 1 /\ bad = <<>> /\ prev = [did |-> 0, chunk |-> 0, nchunks |-> 1]
Next == /\ i <= Len(Rec)
        /\ i' = i + 1
        /\ bad' = bad \o Verdict(Rec[i], i)
        /\ prev' = [did |-> Rec[i].did, chunk |-> Rec[i].chunk, nchunks |-> Rec[i].nchunks]
Spec == Init /\ [][Next]_vars

Done == i = Len(Rec) + 1
\* always TRUE; prints the verdict once, in the final state
Report == Done => PrintT(<<"VERDICT", Len(Rec), ToJson(IF prev.chunk = prev.nchunks - 1 THEN bad ELSE Append(bad, <<Len(Rec), "enum">>))>>)
=============================================================================
