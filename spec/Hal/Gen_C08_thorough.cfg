CONSTANTS
  B = {1, 2, 3, 4}
  MaxS = 3
  N = 8
  Wide = FALSE
  MaxEncK = 10
INIT Init
NEXT Next
CHECK_DEADLOCK FALSE
