CONSTANTS
  Ns = {1, 2, 4, 8, 16, 64}
  Bs = {12, 17, 31, 50, 52, 62}
  MaxS = 4
  Classes = {10, 11, 12, 13}
INIT Init
NEXT Next
INVARIANT Emit
CHECK_DEADLOCK FALSE
