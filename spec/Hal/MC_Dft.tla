------------------------------- MODULE MC_Dft -------------------------------
(* Algebraic sanity of the DFT-layer operators of HalDft.tla (C07, spec alone):           *)
(*   a vector-matrix product equals the sum of the row (scalar-vector) products,          *)
(*   the pairwise convolution satisfies (ai+aj)(bi+bj) = ai*bi + aj*bj + ai*bj + aj*bi,   *)
(*   convolution is commutative, a limb offset is a shift of the limb index,              *)
(*   limb selection with step 1 / offset 0 is the identity with zero extension.           *)
EXTENDS Integers, Sequences, FiniteSets, TLC, Pow2, Poly, Limbs, HalDft

CONSTANTS N, MaxS
Vals == {-1, 0, 2}

Polys == [1..N -> Vals]
VARIABLES a, b, off
vars == <<a, b, off>>
Cols(s) == [1..s -> Polys]
Init == /\ \E sa \in 1..MaxS : a \in Cols(sa)
        /\ \E sb \in 1..MaxS : b \in Cols(sb)
        /\ off \in 0..(2 * MaxS)
Next == UNCHANGED vars

RS == 2 * MaxS
ConvComm == Conv(a, b, off, RS, N) = Conv(b, a, off, RS, N)
ConvShift == \A j \in 1..RS : Conv(a, b, off, RS, N)[j] = ConvLimb(a, b, j - 1 + off, N)
ConvTail == \A j \in 1..RS : (j - 1 + off >= Len(a) + Len(b) - 1) => Conv(a, b, off, RS, N)[j] = PZero(N)
\* pairwise identity with a used for (ai, aj) = (a, rev a) and b likewise (same sizes required)
Rev(c) == [j \in 1..Len(c) |-> PNeg(c[j])]
Plus(c, d) == [j \in 1..Len(c) |-> PAdd(c[j], d[j])]
PairId == LET ai == a aj == Rev(b) IN
          Len(a) = Len(b) =>
            \A j \in 1..RS :
              Conv(Plus(ai, aj), Plus(ai, aj), off, RS, N)[j]
                = PAdd(PAdd(Conv(ai, ai, off, RS, N)[j], Conv(aj, aj, off, RS, N)[j]),
                       PAdd(Conv(ai, aj, off, RS, N)[j], Conv(aj, ai, off, RS, N)[j]))
\* vmp with one input column and one output column: rows of the matrix are the limbs of b,
\* matrix limbs = 1  ==>  result limb 0 = sum_r a[r] * b[r]
VmpIsSumOfSvp ==
  LET rows == Len(b)
      mat == [r \in 1..rows |-> << << <<b[r]>> >> >>]      \* [row][ci][co][limb]
      pp == [cin |-> 1, cout |-> 1, rows |-> rows, ms |-> 1, off |-> 0]
      rmax == Min(rows, Len(a))
  IN VmpLimb(<<a>>, mat, pp, 0, 0, N)
       = (IF rmax = 0 THEN PZero(N) ELSE SumPolys(LAMBDA r : NegacyclicMul(a[r + 1], b[r + 1]), 0, rmax - 1))
SelectId == Select(a, 1, 0, RS, N) = MapCol(LAMBDA x : x, a, RS, N)
MaskIdem == MaskLast(MaskLast(a, 1), 1) = MaskLast(a, 1) /\ MaskLast(a, 0) = a
=============================================================================
