------------------------------- MODULE HalDft -------------------------------
(* placeholder, replaced below by the DFT-domain layer *)
EXTENDS Integers, Sequences
IsDftOp(op) == FALSE
DftPost(op, N, p, rs, ins) == <<>>
=============================================================================
