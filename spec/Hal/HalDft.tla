------------------------------- MODULE HalDft -------------------------------
(* DFT-domain layer of the hardware abstraction (C07).                                     *)
(* Refinement mapping: a prepared / DFT-domain object *is* the coefficient-domain value it  *)
(* represents (DFT |-> IDFT); the specification therefore states every operation as exact   *)
(* integer arithmetic in Z[X,Y]/(X^N+1), Y = one limb position:                             *)
(*   - forward then inverse transform is the identity on the selected limbs                 *)
(*     (selection offset, offset+step, ...; zero fill where the selection runs past the end),*)
(*   - DFT-domain add/sub/copy/zero/add_scaled act limb-wise with the size rule,            *)
(*   - svp  = limb-wise negacyclic product by a scalar polynomial,                          *)
(*   - vmp  = sum of row products over the flattened (limb, column) index, result limbs     *)
(*            beyond the matrix (after limb_offset) are ZERO,                               *)
(*   - cnv  = bivariate convolution truncated to the requested limbs, with the requested    *)
(*            limb offset; pairwise form (a_i+a_j)(b_i+b_j); constant form; top-limb mask.  *)
(* No rounding error is visible: equality is bit for bit.                                   *)
EXTENDS Integers, Sequences, Pow2, Poly, Limbs

DftOps == {"dft_apply", "dft_copy", "dft_zero", "dft_add_into", "dft_sub", "dft_add_assign", "dft_sub_assign",
           "dft_sub_negate_assign", "dft_add_scaled_assign", "idft_apply", "idft_apply_tmpa", "idft_apply_consume",
           "svp_apply_dft", "svp_apply_dft_to_dft", "svp_apply_dft_to_dft_assign",
           "vmp_apply_dft", "vmp_apply_dft_to_dft",
           "cnv_apply_dft", "cnv_apply_dft_self", "cnv_pairwise_apply_dft", "cnv_by_const_apply"}
IsDftOp(op) == op \in DftOps

Limb(a, l, N) == IF l >= 0 /\ l < Len(a) THEN a[l + 1] ELSE PZero(N)      \* 0-based limb, zero outside

\* limb selection of dft_apply / dft_copy
Select(a, step, off, rs, N) == [j \in 1..rs |-> Limb(a, off + (j - 1) * step, N)]

\* masking of the least significant active limb: bitwise AND with -(2^t)  =  floor to a multiple of 2^t
MaskPoly(x, t) == [i \in 1..Len(x) |-> (x[i] \div Pow2(t)) * Pow2(t)]
MaskLast(a, t) == [j \in 1..Len(a) |-> IF j = Len(a) THEN MaskPoly(a[j], t) ELSE a[j]]
\* a prepared operand of pa limbs holds the first min(pa, size) limbs of its source (zero beyond); the mask
\* applies to the last limb that was actually taken
Trunc(a, pa) == SubSeq(a, 1, Min(pa, Len(a)))
Prep(a, pa, t) == MaskLast(Trunc(a, pa), t)

RECURSIVE SumPolys(_, _, _)
SumPolys(F(_), lo, hi) == IF lo > hi THEN <<>> ELSE IF lo = hi THEN F(lo) ELSE PAdd(F(lo), SumPolys(F, lo + 1, hi))

\* bivariate convolution: limb l (0-based) of a*b is the sum over p+q = l of the negacyclic products
ConvLimb(a, b, l, N) ==
  LET lo == Max(0, l - (Len(b) - 1))
      hi == Min(Len(a) - 1, l)
  IN IF lo > hi THEN PZero(N) ELSE SumPolys(LAMBDA pp : NegacyclicMul(a[pp + 1], b[l - pp + 1]), lo, hi)
Conv(a, b, off, rs, N) == [j \in 1..rs |-> ConvLimb(a, b, (j - 1) + off, N)]

\* convolution by a constant (limbs are scalars)
ConvConstLimb(a, c, l, N) ==
  LET lo == Max(0, l - (Len(c) - 1))
      hi == Min(Len(a) - 1, l)
  IN IF lo > hi THEN PZero(N) ELSE SumPolys(LAMBDA pp : PScale(a[pp + 1], c[l - pp + 1]), lo, hi)

\* vector-matrix product over the flattened index spaces
\*   input  r = limb*cin + ci        (r < min(rows*cin, as*cin))
\*   output c = limb*cout + co       (matrix limb = result limb + limb_offset must exist: < ms)
VmpLimb(am, mat, pp, co, l, N) ==
  LET cin == pp.cin
      cout == pp.cout
      as == Len(am[1])
      rmax == Min(pp.rows * cin, as * cin)
      c == (l + pp.off) * cout + co         \* flattened matrix column (limb_offset counts limbs)
      ml == c \div cout                     \* matrix limb
      mc == c % cout                        \* matrix output column
  IN IF c >= pp.ms * cout \/ rmax = 0 THEN PZero(N)
     ELSE SumPolys(LAMBDA r : NegacyclicMul(am[(r % cin) + 1][(r \div cin) + 1],
                                            mat[(r \div cin) + 1][(r % cin) + 1][mc + 1][ml + 1]), 0, rmax - 1)

DftPost(op, N, p, rs, ins) ==
  CASE op = "dft_apply" -> Select(ins.a, p.step, p.off, rs, N)
    [] op = "dft_copy" -> Select(ins.a, p.step, p.off, rs, N)
    [] op = "dft_zero" -> ZeroCol(N, rs)
    [] op \in {"idft_apply", "idft_apply_tmpa", "idft_apply_consume"} -> MapCol(LAMBDA x : x, ins.a, rs, N)
    [] op = "dft_add_into" -> Comb2(PAdd, ins.a, ins.b, rs, N)
    [] op = "dft_sub" -> Comb2(PSub, ins.a, ins.b, rs, N)
    [] op = "dft_add_assign" -> Acc(PAdd, ins.r, ins.a)
    [] op = "dft_sub_assign" -> Acc(PSub, ins.r, ins.a)
    [] op = "dft_sub_negate_assign" -> [j \in 1..rs |-> IF j <= Len(ins.a) THEN PSub(ins.a[j], ins.r[j]) ELSE PNeg(ins.r[j])]
    \* res += a * Y^(-scale): limb j of res receives limb j + scale of a
    [] op = "dft_add_scaled_assign" -> [j \in 1..rs |-> PAdd(ins.r[j], Limb(ins.a, (j - 1) + p.scale, N))]
    [] op \in {"svp_apply_dft", "svp_apply_dft_to_dft"} ->
         [j \in 1..rs |-> IF j <= Len(ins.b) THEN NegacyclicMul(ins.s, ins.b[j]) ELSE PZero(N)]
    [] op = "svp_apply_dft_to_dft_assign" -> [j \in 1..rs |-> NegacyclicMul(ins.s, ins.r[j])]
    [] op \in {"vmp_apply_dft", "vmp_apply_dft_to_dft"} -> [j \in 1..rs |-> VmpLimb(ins.am, ins.m, p, p.rcol, j - 1, N)]
    [] op = "cnv_apply_dft" -> Conv(Prep(ins.a, p.pa, p.maskt), Prep(ins.b, p.pb, p.maskt), p.off, rs, N)
    [] op = "cnv_apply_dft_self" -> Conv(Prep(ins.a, p.pa, p.maskt), Prep(ins.a, p.pa, p.maskt), p.off, rs, N)
    [] op = "cnv_pairwise_apply_dft" ->
         LET ai == Prep(ins.am[p.ci + 1], p.pa, p.maskt)
             aj == Prep(ins.am[p.cj + 1], p.pa, p.maskt)
             bi == Prep(ins.bm[p.ci + 1], p.pb, p.maskt)
             bj == Prep(ins.bm[p.cj + 1], p.pb, p.maskt)
         IN IF p.ci = p.cj THEN Conv(ai, bi, p.off, rs, N)
            ELSE Conv([j \in 1..Len(ai) |-> PAdd(ai[j], aj[j])], [j \in 1..Len(bi) |-> PAdd(bi[j], bj[j])], p.off, rs, N)
    [] op = "cnv_by_const_apply" -> [j \in 1..rs |-> ConvConstLimb(ins.a, ins.cst, (j - 1) + p.off, N)]
=============================================================================
