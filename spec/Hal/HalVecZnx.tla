----------------------------- MODULE HalVecZnx -----------------------------
(* Coefficient-domain operations of the hardware abstraction layer                     *)
(* (poulpy-hal/src/api/vec_znx.rs and the coefficient-domain part of vec_znx_big.rs).  *)
(* One operator per public entry point.  Each returns the *selected result column* as   *)
(* a function of the call's inputs only (C11): `rs` = result size, `ins` = operand      *)
(* columns, `p` = scalar parameters.  `ins.r` is the pre-state of the result column and *)
(* occurs only in the accumulate / assign forms.                                        *)
(* Big-accumulator (VecZnxBig) forms obey the same ring semantics; the event's op name  *)
(* is prefixed with "big_".                                                             *)
EXTENDS Integers, Sequences, Pow2, Poly, Limbs

Id(x) == x

OpsUnary == {"copy", "negate", "rotate", "mul_xp_minus_one", "automorphism", "switch_ring", "from_small"}
OpsUnaryAssign == {"negate_assign", "rotate_assign", "mul_xp_minus_one_assign", "automorphism_assign"}
OpsBinary == {"add_into", "sub", "add_small_into", "sub_small_a", "sub_small_b"}
OpsAcc == {"add_assign", "sub_assign", "sub_negate_assign", "add_small_assign", "sub_small_assign", "sub_small_negate_assign"}
OpsScalar == {"add_scalar_into", "sub_scalar", "add_scalar_assign", "sub_scalar_assign"}

\* strip the "big_" prefix: same algebra on the accumulator type
BaseOp(op) == IF Len(op) > 4 /\ SubSeq(op, 1, 4) = "big_" THEN SubSeq(op, 5, Len(op)) ELSE op

VecZnxPost(op0, N, p, rs, ins) ==
  LET op == BaseOp(op0) IN
  CASE op = "zero" -> ZeroCol(N, rs)
    [] op \in {"copy", "from_small"} -> MapCol(Id, ins.a, rs, N)
    [] op = "negate" -> MapCol(PNeg, ins.a, rs, N)
    [] op = "negate_assign" -> [j \in 1..rs |-> PNeg(ins.r[j])]
    [] op = "rotate" -> MapCol(LAMBDA x : MulXk(x, p.k), ins.a, rs, N)
    [] op = "rotate_assign" -> [j \in 1..rs |-> MulXk(ins.r[j], p.k)]
    [] op = "mul_xp_minus_one" -> MapCol(LAMBDA x : MulXkMinusOne(x, p.k), ins.a, rs, N)
    [] op = "mul_xp_minus_one_assign" -> [j \in 1..rs |-> MulXkMinusOne(ins.r[j], p.k)]
    [] op = "automorphism" -> MapCol(LAMBDA x : Auto(x, p.k), ins.a, rs, N)
    [] op = "automorphism_assign" -> [j \in 1..rs |-> Auto(ins.r[j], p.k)]
    [] op = "switch_ring" -> [j \in 1..rs |-> IF j <= Len(ins.a) THEN SwitchRing(ins.a[j], N) ELSE PZero(N)]
    [] op \in {"add_into", "add_small_into"} -> Comb2(PAdd, ins.a, ins.b, rs, N)
    [] op \in {"sub", "sub_small_a", "sub_small_b"} -> Comb2(PSub, ins.a, ins.b, rs, N)
    [] op \in {"add_assign", "add_small_assign"} -> Acc(PAdd, ins.r, ins.a)
    [] op \in {"sub_assign", "sub_small_assign"} -> Acc(PSub, ins.r, ins.a)
    \* res <- a - res, with a zero-extended over the limbs it lacks
    [] op \in {"sub_negate_assign", "sub_small_negate_assign"} ->
         [j \in 1..rs |-> IF j <= Len(ins.a) THEN PSub(ins.a[j], ins.r[j]) ELSE PNeg(ins.r[j])]
    \* scalar polynomial ins.s added to / subtracted from limb p.limb (0-based) of b
    [] op = "add_scalar_into" ->
         [j \in 1..rs |-> IF j <= Len(ins.b) THEN (IF j = p.limb + 1 THEN PAdd(ins.b[j], ins.s) ELSE ins.b[j]) ELSE PZero(N)]
    [] op = "sub_scalar" ->
         [j \in 1..rs |-> IF j <= Len(ins.b) THEN (IF j = p.limb + 1 THEN PSub(ins.b[j], ins.s) ELSE ins.b[j]) ELSE PZero(N)]
    [] op = "add_scalar_assign" -> [j \in 1..rs |-> IF j = p.limb + 1 THEN PAdd(ins.r[j], ins.s) ELSE ins.r[j]]
    [] op = "sub_scalar_assign" -> [j \in 1..rs |-> IF j = p.limb + 1 THEN PSub(ins.r[j], ins.s) ELSE ins.r[j]]
    \* split: part p.part (0-based) of a, into a ring of degree N; merge: interleave ins.parts
    [] op = "split_ring" -> [j \in 1..rs |-> IF j <= Len(ins.a) THEN SplitPart(ins.a[j], N, p.part) ELSE PZero(N)]
    [] op = "merge_rings" ->
         LET sz == Len(ins.parts[1]) IN
         [j \in 1..rs |-> IF j <= sz THEN Merge([q \in 1..Len(ins.parts) |-> ins.parts[q][j]], N) ELSE PZero(N)]

VecZnxOps == {"zero"} \cup OpsUnary \cup OpsUnaryAssign \cup OpsBinary \cup OpsAcc \cup OpsScalar \cup {"split_ring", "merge_rings"}
IsVecZnxOp(op) == BaseOp(op) \in VecZnxOps
=============================================================================
