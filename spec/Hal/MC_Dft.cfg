CONSTANTS
  N = 2
  MaxS = 2
INIT Init
NEXT Next
CHECK_DEADLOCK FALSE
INVARIANTS ConvComm ConvShift ConvTail PairId VmpIsSumOfSvp SelectId MaskIdem
