------------------------------ MODULE Encoding ------------------------------
(* Integer encoding / decoding of limb vectors (poulpy-hal/src/layouts/encoding.rs), C08. *)
(*   Encode(x, b, k): the column represents x * 2^-k on the torus (exactly: the column    *)
(*      has S >= ceil(k/b) limbs, so TorusInt(col) = x * 2^(S*b - k)  (mod 2^(S*b)));     *)
(*   Decode at the same precision returns x modulo 2^k, and x itself whenever             *)
(*      |x| < 2^(k-2);                                                                    *)
(*   single-coefficient forms touch only that coefficient;                                *)
(*   arbitrary-precision decoding equals the exact rational TorusInt(col) / 2^(S*b).      *)
EXTENDS Integers, Sequences, Pow2, Poly, Limbs

EncOps == {"encode_vec_i64", "encode_vec_i128", "encode_coeff_i64"}
IsEncOp(op) == op \in EncOps

SameMod(a, b, k) == (a - b) % Pow2(k) = 0
RoundTrip(y, x, k) == SameMod(y, x, k) /\ ((k >= 2 /\ Abs(x) < Pow2(k - 2)) => y = x)

EncOK(op, N, p, rs, ins, d, dec) ==
  LET b == p.rb
      k == p.k
      x == ins.a[1]
      mb == rs * b
      Coeffs == IF op = "encode_coeff_i64" THEN {p.limb + 1} ELSE 1..N
      X(i) == IF op = "encode_coeff_i64" THEN x[1] ELSE x[i]
  IN /\ Len(d) = rs /\ \A j \in 1..rs : Len(d[j]) = N
     /\ \A i \in Coeffs :
          /\ (TorusInt(d, b, i) - X(i) * Pow2(mb - k)) % Pow2(mb) = 0
          /\ RoundTrip(dec.v64[i], X(i), k)
          /\ RoundTrip(dec.v128[i], X(i), k)
          /\ RoundTrip(dec.c64[i], X(i), k)
     \* single-coefficient form: every other coefficient keeps its previous digits
     /\ op = "encode_coeff_i64" => \A i \in (1..N) \ Coeffs : \A j \in 1..rs : d[j][i] = ins.r[j][i]
     \* exact rational decoding (numerator over 2^(S*b))
     /\ \A i \in 1..N : dec.flt[i] = TorusInt(d, b, i)
=============================================================================
