------------------------------- MODULE Limbs -------------------------------
(* Limb vectors.  A *column* of a VecZnx is a sequence of `size` polynomials (limbs);   *)
(* limb 1 is the most significant.  With radix 2^b a column c of size S represents, per *)
(* coefficient i, the torus element  TorusInt(c,b,i) / 2^(S*b)  (mod 1), where          *)
(*    TorusInt(c,b,i) = SUM_j c[j][i] * 2^((S-j)*b).                                    *)
(* Digits need not be normalised.                                                       *)
EXTENDS Integers, Sequences, Pow2, Poly

ZeroCol(N, S) == [j \in 1..S |-> PZero(N)]
ColSize(c) == Len(c)

RECURSIVE TorusIntFrom(_, _, _, _)
TorusIntFrom(c, b, i, j) ==   \* Horner from limb j on, accumulating limbs 1..j-1 already folded by caller
  IF j > Len(c) THEN 0 ELSE c[j][i] * Pow2((Len(c) - j) * b) + TorusIntFrom(c, b, i, j + 1)
TorusInt(c, b, i) == TorusIntFrom(c, b, i, 1)

\* every digit of the column in the balanced range of radix 2^b
IsNormalized(c, b) == \A j \in 1..Len(c) : \A i \in 1..Len(c[j]) : InBalanced(c[j][i], b)

\* The size rule of the HAL ("extra result limbs zero, extra operand limbs ignored"):
\* limb-wise unary map onto a result of S limbs
MapCol(F(_), a, S, N) == [j \in 1..S |-> IF j <= Len(a) THEN F(a[j]) ELSE PZero(N)]

\* limb-wise binary combination of zero-extended operands (used by add / sub and their big forms):
\* where only one operand has the limb the other counts as zero.
Comb2(F(_, _), a, b, S, N) ==
  [j \in 1..S |-> F(IF j <= Len(a) THEN a[j] ELSE PZero(N), IF j <= Len(b) THEN b[j] ELSE PZero(N))]

\* accumulate forms touch only the limbs the operand has
Acc(F(_, _), r, a) == [j \in 1..Len(r) |-> IF j <= Len(a) THEN F(r[j], a[j]) ELSE r[j]]
=============================================================================
