#!/bin/bash
# Re-run the seeded changes of seeded/<id>/patch.diff against the current checks.
#   tools/mutants.sh [id ...]        (default: all)
# For each: git -C /repo apply, bin/check <property> --tier quick, git -C /repo checkout -- . ;
# the evidence directory is saved first and restored afterwards (evidence must describe the unchanged tree).
# Result lines go to seeded/RESULTS.txt:  <id> <property> rc=<n> <first VIOLATION line>
set -u
cd "$(dirname "$0")/.."
if [ -n "$(git -C /repo status --porcelain --untracked-files=no)" ]; then echo "/repo not clean" >&2; exit 2; fi
ids=("$@"); [ ${#ids[@]} -eq 0 ] && ids=($(ls seeded | grep -E '^C[0-9]+[a-z]$'))
save=$(mktemp -d /var/tmp/evid.XXXX); cp -a evidence/. "$save"/
trap 'git -C /repo checkout -- . ; cp -a "$save"/. evidence/ ; rm -rf "$save"' EXIT
for id in "${ids[@]}"; do
  prop=$(python3 -c "import json;print(json.load(open('seeded/$id/meta.json'))['property'])")
  extra=$(python3 -c "import json;print(' '.join(json.load(open('seeded/$id/meta.json')).get('also',[])))")
  if ! git -C /repo apply --check "$PWD/seeded/$id/patch.diff" 2>/dev/null; then echo "$id $prop patch does not apply" | tee -a seeded/RESULTS.txt; continue; fi
  git -C /repo apply "$PWD/seeded/$id/patch.diff"
  for p in $prop $extra; do
    out=$(bin/check "$p" --tier quick 2>&1); rc=$?
    v=$(echo "$out" | grep -m1 '^VIOLATION' || true)
    n=$(echo "$out" | grep -c '^VIOLATION' || true)
    echo "$(date -u +%H:%M) $id check=$p rc=$rc violations=$n $v" | tee -a seeded/RESULTS.txt
  done
  git -C /repo apply -R "$PWD/seeded/$id/patch.diff" 2>/dev/null; git -C /repo checkout -- .
done
