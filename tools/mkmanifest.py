#!/usr/bin/env python3
"""Regenerates MANIFEST.json from the table below (single place to keep it valid)."""
import json, os, sys
V = os.path.dirname(os.path.dirname(os.path.abspath(__file__)))
props = [json.loads(l) for l in open(os.path.join(V, "properties.jsonl"))]

MC = "model_checking"
CHECKS = {
 "C09": dict(level=MC, design="§2 C09",
   technique="TLA+ spec (Poly/Limbs/HalVecZnx) + TLC: ring-law model check, TLC-enumerated descriptors replayed on 4 back-ends, trace validated by TLC",
   text="TLC checks the ring laws on the specification (all k in [-4N,4N], all odd g, N<=8/16), then enumerates every (op, N, sizes, k|g, limb, part) descriptor of the scope; each is executed on the real FFT64Ref/FFT64Avx/NTT120Ref/NTT120Avx modules from two garbage pre-fills and the logged call is re-derived by TLC from Poly.tla. Exhaustive over the shape/parameter scope, one generic operand per descriptor (maps are linear / signed permutations).",
   note="Trusts TLC, the harness projection (raw limbs via the public layout) and that seeded generic operand values expose any wrong index/sign (linear maps). N<=8 quick, N<=32 thorough; larger N in the trace corpora of C10."),
 "C08": dict(level=MC, design="§2 C08",
   technique="TLA+ spec (Limbs/HalNorm/Encoding): relational post-condition model-checked against a constructive reference; TLC-enumerated descriptors with exhaustive digit alphabets replayed on 4 back-ends; trace validated by TLC incl. completeness of the enumeration",
   text="The two-line arithmetic fact (result = source*2^off on the torus within one unit of the last limb, exact when E>=0, balanced digits for equal radices; encode/decode round trip mod 2^k, exact rational decoding) is the TLA+ post-condition. TLC shows it satisfiable/non-vacuous (MC_Norm), enumerates every (op, radix pair, size pair, offset) descriptor for b<=3 (quick, seeded subset) / b<=4 (thorough, all), the harness expands each to every digit tuple including out-of-range digits and TLC validates every coefficient of every call on 4 back-ends and re-derives the enumeration order so completeness is decided by TLC.",
   note="Small-scope exhaustive (b<=4, sizes<=3, N=8); wide radices (up to 62 bits) not yet covered by a BigZ corpus. Known findings (known_findings.json) mask the gap=1, cross-radix-rounding and rsh_assign classes."),
 "C07": dict(level=MC, design="§2 C07",
   technique="TLA+ spec (HalDft: DFT-domain objects = the coefficient-domain value they represent) + TLC: identities model-checked, TLC-enumerated shape descriptors replayed on 4 back-ends and compared with TLC's exact integer products; magnitude corpus FFT64 vs exact NTT120",
   text="HalDft.tla states every DFT-domain operation as exact integer arithmetic in Z[X,Y]/(X^N+1). TLC checks the operator identities (vmp = sum of svp, pairwise identity, offset = limb shift), enumerates every shape/selection/offset/mask descriptor at N=8(16), and validates bit for bit the outcome of each call on the four real back-ends (inputs prepared by the library's own prepare calls, outputs projected through idft). Realistic N (<=65536) and radices inside the FFT64 domain are covered by the magnitude corpus, decided by agreement with the exact NTT120 arithmetic.",
   note="Exact products recomputed by TLC only for N<=16 and |digit|<=3 (native Int); larger magnitudes rely on FFT64 == NTT120 (an error common to both families at large N would be missed); Rns/closed-form validation of DESIGN §C07 not built yet."),
 "C10": dict(level=MC, design="§2 C10",
   technique="TLA+ trace spec HalTrace.BeOK over TLC-generated corpora executed on FFT64Ref/FFT64Avx/NTT120Ref/NTT120Avx in lock-step",
   text="Every TLC-generated HAL corpus (ring ops N=1..32, exhaustive-digit normalisation/shifts, DFT-domain shapes, magnitude classes up to N=65536) is executed on the four back-ends from identical inputs; the harness logs the set of distinct outcomes with the back-ends that produced each and TLC requires a single outcome per pre-fill (and that it equals the specified post-state where the spec computes one).",
   note="HAL level only so far (scheme-level pipelines and PRNG-position checks of DESIGN §C10 pending). FFT64 vs NTT120 compared inside Gen_Mag.InDomain (48 bits; disagreement measured from 52). Known finding masks cross-radix big_normalize family rounding."),
 "C11": dict(level=MC, design="§2 C11",
   technique="TLA+ trace spec HalTrace.FillOK (result is a function of the inputs only + frame condition) over TLC-generated corpora run twice from independent garbage fills inside canary-guarded windows",
   text="Each descriptor is executed twice per back-end from two independent garbage fills of every writable byte (result buffer incl. other columns and slack limbs, scratch); the specification's post-state does not mention the pre-state of the result column (except for the accumulate forms where it is an input), so both runs must produce the same specified column and every byte outside it must be unchanged. Column counts 1..3 and target columns vary per descriptor.",
   note="HAL operations (vec_znx, big, dft, svp, vmp, cnv, normalisation) so far; core-level operations pending. Frame comparison is a byte compare by the harness; equality across fills is decided by TLC."),
 "C12": dict(level=MC, design="§2 C12",
   technique="TLA+ arena model Scratch.tla: model-checked discipline + replay of the H4 take log of every scratch-taking call run in an exact-size canary-guarded window; size-query monotonicity table validated by TLC",
   text="Scratch.tla models take_slice_aligned exactly (64-byte re-alignment, failure iff aligned bytes < request, remainder/taken hand-out). TLC checks the discipline over all call/return/split interleavings and refutes the raw-sum lemma the size formulas implicitly rely on. Every scratch-taking HAL call of the TLC-generated corpora then runs with a scratch window of exactly the declared size on 4 back-ends x 2 scratch fills; hook H4 logs each take and TLC replays the log against the arena model (no failed take, takes derive from the window, high-water <= declared, canaries intact) and requires results independent of the scratch fill.",
   note="20 HAL (operation, tmp_bytes) pairs so far of ~120; core/CKKS/bin-fhe pairs pending. The replay cannot observe releases, so two simultaneously live overlapping takes are only excluded by the model check of the discipline plus Rust's borrow rules."),
 "C18": dict(level=MC, design="§2 C18",
   technique="TLA+ contract Wire.tla (grammar + ReadOK over exact byte-sequence naturals): reference reader model-checked / wrapping reader refuted; TLC-enumerated streams fed to the real read_from; trace validated by TLC",
   text="Wire.tla holds the grammar of 11 serialisable types and the contract of read_from (Ok only for complete, overflow-free consistent, fitting streams; such streams must be accepted; Err leaves metadata unchanged; never a panic/abort; dimensions consistent with the buffer afterwards), over naturals represented as byte sequences so 2^61, 2^64-1 and overflowing products are exact. TLC model-checks a reference reader against it and refutes the wrapping reader, then enumerates every truncation point, every header field x boundary dictionary, the overflowing combinations and three receivers per type; the grammar-free harness applies the byte edits, runs the real read_from in a child process and logs header bytes; TLC re-parses them and decides.",
   note="hal VecZnx/ScalarZnx/MatZnx and core LWE/GLWE/GGLWE/GGSW (+compressed) covered; nested key types and bin-fhe keys pending. Debug-assertion (overflow-check) builds not yet run. Receiver capacity is taken from the allocation formula."),
 "C13": dict(level="proof", design="§2 C13",
   technique="TLA+ specs Bdd.tla (evaluator semantics, well-formedness) and WordOps.tla; tables extracted from the compiled crate (hook H1); TLC for structure + dictionary evaluation + binding of WordOps to plain Rust; Apalache (SMT) for all 2^64 inputs per (op, output bit)",
   text="The 290 compiled bit circuits are read out of the built crate, checked structurally by TLC (reachable indices in range, no reachable undefined slot, last chunk [Cmux, None..], declared width covers every level), evaluated by TLC under the level-by-level selection semantics on a boundary dictionary x dictionary and seeded random pairs against WordOps.tla (itself bound to the plain Rust word operations on the same pairs), and for ALL 2^64 inputs one Apalache obligation per (operation, output bit) states circuit == word-operation bit. thorough discharges all 290; quick discharges every obligation whose table row is not in the committed proved-hash cache (i.e. any changed table) plus a seeded sample of 8.",
   note="Trusted: Apalache+z3, TLC, the H1 extractor, tools/gen_bdd_tla.py (node / auxiliary-signal encoding; its spec recurrences mirror WordOps.tla). spec/BinFhe/proved.json is a regression cache written by a thorough run on this tree; it is keyed by table row + generator source so any table or generator change forces re-proof. The homomorphic realisation of Cmux is C04/C15."),
 "C01": dict(level=MC, design="§2 C01",
   technique="TLA+ specs Glwe.tla / CoreTrace.tla: TLC-enumerated enc;dec programs replayed on 4 back-ends, each step validated by TLC which recomputes the decryption phase from raw limbs and the clear secret",
   text="CoreTrace.tla keeps the register file of a program and, for every logged step of the real library, recomputes the phase body + sum mask_c*s_c with schoolbook negacyclic products (nothing shared with the FFT/NTT). Fresh encryptions (secret-key, zero, public-key, seed-compressed+decompress) must satisfy |phase - message at its torus position| <= bound*2^(S*b-k) (times 1+N+|s|_1 for public-key), decryptions must equal the phase within one unit of the plaintext's last limb, for plaintext precisions below/equal/above the ciphertext's and other radices. TLC enumerates the configuration grid (radix, k not a multiple of the radix, rank, secret distribution incl. zero, message classes with extreme digits, noise parameters).",
   note="N=8 (16 thorough), radices 2..6 so that phases are native TLC integers; realistic sizes only through C10 agreement. LWE encryption/decryption not covered yet. Known finding: plaintext of another radix in glwe_encrypt_sk."),
 "C02": dict(level=MC, design="§2 C02",
   technique="TLA+ specs Glwe.tla / CoreTrace.tla + MC_C02 (linearity for every secret) + TLC-simulated random straight-line programs (Gen_C02) replayed on the real library and validated step by step",
   text="MC_C02 model-checks, for every secret in {-1,0,1}^N, that the phase commutes exactly with limb-wise add/sub/negate, X^k, (X^k-1) and with cutting to fewer limbs (and the one-unit cost of a cut for normalised digits). Gen_C02 is a state machine over register shapes whose actions are the public calls of api/operations.rs with the API's assertions as enabling conditions; TLC simulation emits random programs (depth 12, 4 registers) that the harness runs on 4 back-ends; CoreTrace validates every step: linear operations exactly on operands cut to the result's limb count, shifts and re-normalisation (also into another radix) column-wise within one unit of the result's last limb, in-place and accumulate forms included.",
   note="Rank-1 programs at N=8, radices 3 and 5; rank-0 plaintext operands, mixed ranks and GGSW rotate pending. The phase-level 'one unit per truncated operand' is implied by the exact / column-wise statements (see DESIGN.md on why the phase-level bound of a rounding step is key dependent)."),
 "C03": dict(level=MC, design="§2 C03",
   technique="TLA+ specs KeySwitch.tla (exact gadget product, key validity, worst-case bound) and KsFamily.tla (Image_op / Bound_op for automorphisms, trace, packing, LWE conversions, extraction); TLC-enumerated keygen->encrypt->operation behaviours replayed on 4 back-ends; KsTrace validates each from raw limbs and clear secrets",
   text="Gen_C03 enumerates every gadget shape of the bounded scope (three-way radix mismatch, input limbs not a multiple of dsize, dnum smaller/equal/larger than needed, ranks in/out, result with fewer/more limbs, in-place forms) for the plain key-switch, and every operation parameter (all 16 signed Galois elements at N=8, every trace start level, every admitted slot subset and gap, every extraction index, LWE dimensions) for the rest of the family. The harness generates the keys with the library, encrypts, runs the operation on 4 back-ends x 2 fills and logs raw limbs plus the clear secrets (hook H5). TLC recomputes the key rows' phases (valid gadget encryption of the source secret within the configured bound), the exact integer gadget product from the logged key rows (plain key-switch, key <= 16 bits; equal up to the output rounding and the documented limb-dropping slack), and for every operation the decryption phase of the result against the exact ring image of the input phases within the worst-case gadget bound.",
   note="N=8, radices 3/4, precisions <= 24 bits. Noise is judged against the worst-case bound implied by the truncated Gaussian (a sound upper bound: no false alarm), not against a variance estimate, so a defect that only inflates the noise by a small factor is not caught; gross errors (wrong row, limb, Galois element, sign, slot) are. GGLWE/GGSW key-switch and automorphism-key automorphism not covered here."),
 "C04": dict(level=MC, design="§2 C04",
   technique="TLA+ spec Xp.tla (GGSW validity cell by cell, exact gadget product over all rank+1 columns, phase(result) = m2*phase(input) within the worst-case bound, CMux selection, GGSW x GGSW cell-wise); TLC-enumerated behaviours replayed on 4 back-ends; KsTrace validates each from raw limbs and the clear secret",
   text="Gen_C04 enumerates the gadget shapes of the bounded scope (input/GGSW/output radix mismatches, input limbs not a multiple of dsize, dnum smaller/equal/larger, GGSW precision below/above the GLWE's, ranks 1..2, dsize 1..3, fewer/more result limbs, in-place forms) x GGSW plaintexts {0, +-1, +-X^k for every k, small dense}, the three CMux forms for both selector bits, and GGSW x GGSW products with fewer/equal/more result rows. The library encrypts the GGSW and the GLWE, runs the operation on 4 back-ends x 2 fills; TLC recomputes every GGSW cell's phase (= m2*G_row*(1|s_col) within the configured bound), the exact integer gadget product from the logged cells, and the phase of the result against the exact negacyclic product m2*phase(input) within the worst-case gadget bound; CMux must decrypt to the selected branch.",
   note="N=8, radices 3/4, precisions <= 24 bits; worst-case (not variance) noise bound. Not covered: GGSW row expansion from a GGLWE via the tensor key, GGLWE external product, GGSW key-switch/automorphism. CMux inside whole BDD circuits is C13/C15."),
}
NA_REASON = "check not built yet in this round (planned in DESIGN.md §2); not claimed"

man = {
 "version": 1,
 "setup_cmd": "bin/setup",
 "hooks": {"guard": "poulpy_verif",
           "enable": "harness/.cargo/config.toml passes `--cfg poulpy_verif` to every /repo crate built as a path dependency of /verif/harness",
           "baseline_off_cmd": "cd /repo && cargo nextest run --workspace --no-fail-fast --tool-config-file pb:/w/lib/nextest.toml --profile pb --test-threads 8 --offline",
           "source_commits": ["7b5a9d3", "ad4a404", "eebdf19"], "add_only": True},
 "engines": [{"name": "tla-tlc", "path": "bin/check", "serves_properties": sorted(CHECKS),
              "kind_free_text": "explicit TLA+ specification under spec/; TLC model-checks the spec (MC_*), enumerates behaviours replayed on the real code (Gen_*), and validates traces recorded from the real code (*Trace)"}],
 "checks": [], "not_applicable": [], "notes": "see DESIGN.md; known_findings.json lists fixed/known defects",
}
for p in props:
    pid = p["id"]
    if pid in CHECKS:
        c = CHECKS[pid]
        man["checks"].append({
            "property_id": pid,
            "quick_cmd": "bin/check %s --tier quick" % pid,
            "thorough_cmd": "bin/check %s --tier thorough" % pid,
            "evidence_file": "evidence/%s.json" % pid,
            "replay_cmd_template": "bin/check %s --replay {path}" % pid,
            "engine": "tla-tlc",
            "level_claimed": {"category": c["level"], "text": c["text"], "design_ref": c["design"]},
            "level_note": c["note"],
            "technique": c["technique"],
        })
    else:
        man["not_applicable"].append({"property_id": pid, "reason": NA_REASON})
json.dump(man, open(os.path.join(V, "MANIFEST.json"), "w"), indent=1)
print("MANIFEST: %d checks, %d not_applicable" % (len(man["checks"]), len(man["not_applicable"])))
