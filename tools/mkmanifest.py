#!/usr/bin/env python3
"""Regenerates MANIFEST.json from the table below (single place to keep it valid)."""
import json, os, sys
V = os.path.dirname(os.path.dirname(os.path.abspath(__file__)))
props = [json.loads(l) for l in open(os.path.join(V, "properties.jsonl"))]

MC = "model_checking"
CHECKS = {
 "C09": dict(level=MC, design="§2 C09",
   technique="TLA+ spec (Poly/Limbs/HalVecZnx) + TLC: ring-law model check, TLC-enumerated descriptors replayed on 4 back-ends, trace validated by TLC",
   text="TLC checks the ring laws on the specification (all k in [-4N,4N], all odd g, N<=8/16), then enumerates every (op, N, sizes, k|g, limb, part) descriptor of the scope; each is executed on the real FFT64Ref/FFT64Avx/NTT120Ref/NTT120Avx modules from two garbage pre-fills and the logged call is re-derived by TLC from Poly.tla. Exhaustive over the shape/parameter scope, one generic operand per descriptor (maps are linear / signed permutations).",
   note="Trusts TLC, the harness projection (raw limbs via the public layout) and that seeded generic operand values expose any wrong index/sign (linear maps). N<=8 quick, N<=32 thorough; larger N in the trace corpora of C10."),
 "C08": dict(level=MC, design="§2 C08",
   technique="TLA+ spec (Limbs/HalNorm/Encoding): relational post-condition model-checked against a constructive reference; TLC-enumerated descriptors with exhaustive digit alphabets replayed on 4 back-ends; trace validated by TLC incl. completeness of the enumeration",
   text="The two-line arithmetic fact (result = source*2^off on the torus within one unit of the last limb, exact when E>=0, balanced digits for equal radices; encode/decode round trip mod 2^k, exact rational decoding) is the TLA+ post-condition. TLC shows it satisfiable/non-vacuous (MC_Norm), enumerates every (op, radix pair, size pair, offset) descriptor for b<=3 (quick, seeded subset) / b<=4 (thorough, all), the harness expands each to every digit tuple including out-of-range digits and TLC validates every coefficient of every call on 4 back-ends and re-derives the enumeration order so completeness is decided by TLC.",
   note="Small-scope exhaustive (b<=4, sizes<=3, N=8); wide radices (up to 62 bits) not yet covered by a BigZ corpus. Known findings (known_findings.json) mask the gap=1, cross-radix-rounding and rsh_assign classes."),
}
NA_REASON = "check not built yet in this round (planned in DESIGN.md §2); not claimed"

man = {
 "version": 1,
 "setup_cmd": "bin/setup",
 "hooks": {"guard": "poulpy_verif",
           "enable": "harness/.cargo/config.toml passes `--cfg poulpy_verif` to every /repo crate built as a path dependency of /verif/harness",
           "baseline_off_cmd": "cd /repo && cargo nextest run --workspace --no-fail-fast --tool-config-file pb:/w/lib/nextest.toml --profile pb --test-threads 8 --offline",
           "source_commits": [], "add_only": True},
 "engines": [{"name": "tla-tlc", "path": "bin/check", "serves_properties": sorted(CHECKS),
              "kind_free_text": "explicit TLA+ specification under spec/; TLC model-checks the spec (MC_*), enumerates behaviours replayed on the real code (Gen_*), and validates traces recorded from the real code (*Trace)"}],
 "checks": [], "not_applicable": [], "notes": "see DESIGN.md; known_findings.json lists fixed/known defects",
}
for p in props:
    pid = p["id"]
    if pid in CHECKS:
        c = CHECKS[pid]
        man["checks"].append({
            "property_id": pid,
            "quick_cmd": "bin/check %s --tier quick" % pid,
            "thorough_cmd": "bin/check %s --tier thorough" % pid,
            "evidence_file": "evidence/%s.json" % pid,
            "replay_cmd_template": "bin/check %s --replay {path}" % pid,
            "engine": "tla-tlc",
            "level_claimed": {"category": c["level"], "text": c["text"], "design_ref": c["design"]},
            "level_note": c["note"],
            "technique": c["technique"],
        })
    else:
        man["not_applicable"].append({"property_id": pid, "reason": NA_REASON})
json.dump(man, open(os.path.join(V, "MANIFEST.json"), "w"), indent=1)
print("MANIFEST: %d checks, %d not_applicable" % (len(man["checks"]), len(man["not_applicable"])))
