#!/usr/bin/env python3
"""Generates, from the extracted table of ONE bit circuit (hook H1 JSON row), an Apalache-checkable
TLA+ module stating that the circuit equals the word-operation bit for ALL 2^64 inputs.

Encoding (DESIGN.md C13): one Boolean per reachable BDD node (function variable v), one Boolean per
auxiliary signal of the word-operation recurrence (function variable s, the same recurrences as
spec/BinFhe/WordOps.tla written relationally: carries, borrows, barrel-shifter stages, comparator
chain), everything constrained in Init; the invariant is  v[root] <=> <spec bit>;  checked with
`apalache-mc check --length=0`.
"""
import json
import sys


def cone(nodes, w):
    """reachable (level, slot) pairs, top-down; returns dict (l, j) -> var index, and the node list"""
    L = len(nodes) // w
    idx = {}
    order = []

    def visit(l, j):
        if (l, j) in idx:
            return
        idx[(l, j)] = len(order)
        order.append((l, j))
        if l == 0:
            return
        k, b, h, lo = nodes[(l - 1) * w + j]
        if k == 0:
            visit(l - 1, h)
            visit(l - 1, lo)
        elif k == 1:
            visit(l - 1, j)
        else:
            raise ValueError("reachable None node at level %d slot %d" % (l, j))

    sys.setrecursionlimit(100000)
    visit(L, 0)
    return idx, order, L


def spec_constraints(op, bit):
    """returns (list of constraint strings over x and s, spec expression, number of s vars)"""
    A = lambda i: "x[%d]" % i
    B = lambda i: "x[%d]" % (32 + i)
    cs = []
    if op in ("add", "sub"):
        cs.append("s[0] = FALSE")
        for i in range(bit):
            if op == "add":
                cs.append("s[%d] = ((%s /\\ %s) \\/ (%s /\\ s[%d]) \\/ (%s /\\ s[%d]))" % (i + 1, A(i), B(i), A(i), i, B(i), i))
            else:
                cs.append("s[%d] = ((~%s /\\ %s) \\/ ((%s = %s) /\\ s[%d]))" % (i + 1, A(i), B(i), A(i), B(i), i))
        return cs, "((%s # %s) # s[%d])" % (A(bit), B(bit), bit), bit + 1
    if op in ("sll", "srl", "sra"):
        # stage k value of bit i: s[k*32 + i], k = 0..5
        fill = "FALSE" if op != "sra" else A(31)
        for i in range(32):
            cs.append("s[%d] = %s" % (i, A(i)))
        for k in range(5):
            p = 1 << k
            for i in range(32):
                if op == "sll":
                    src = ("s[%d]" % (k * 32 + i - p)) if i - p >= 0 else "FALSE"
                else:
                    src = ("s[%d]" % (k * 32 + i + p)) if i + p <= 31 else fill
                cs.append("s[%d] = (IF %s THEN %s ELSE s[%d])" % ((k + 1) * 32 + i, B(k), src, k * 32 + i))
        return cs, "s[%d]" % (5 * 32 + bit), 6 * 32
    if op in ("slt", "sltu"):
        # s[i] = unsigned comparison of the low i bits
        cs.append("s[0] = FALSE")
        top = 32 if op == "sltu" else 31
        for i in range(top):
            cs.append("s[%d] = ((~%s /\\ %s) \\/ ((%s = %s) /\\ s[%d]))" % (i + 1, A(i), B(i), A(i), B(i), i))
        if bit != 0:
            return cs, "FALSE", top + 1
        if op == "sltu":
            return cs, "s[32]", 33
        return cs, "(IF %s # %s THEN %s ELSE s[31])" % (A(31), B(31), A(31)), 32
    if op == "and":
        return cs, "(%s /\\ %s)" % (A(bit), B(bit)), 1
    if op == "or":
        return cs, "(%s \\/ %s)" % (A(bit), B(bit)), 1
    if op == "xor":
        return cs, "(%s # %s)" % (A(bit), B(bit)), 1
    if op == "identity":
        return cs, A(bit), 1
    raise ValueError(op)


def gen(row, modname):
    op, bit, w, nodes = row["op"], row["bit"], row["w"], row["nodes"]
    scs, spec, ns = spec_constraints(op, bit)
    lines = ["---- MODULE %s ----" % modname, "EXTENDS Integers", "VARIABLES", "  \\* @type: Int -> Bool;", "  x,",
             "  \\* @type: Int -> Bool;", "  v,", "  \\* @type: Int -> Bool;", "  s"]
    cons = []
    if w == 0:
        nv = 1
        cons.append("v[0] = FALSE")
        root = 0
    else:
        idx, order, L = cone(nodes, w)
        nv = len(order)
        root = idx[(L, 0)]
        for (l, j) in order:
            k = idx[(l, j)]
            if l == 0:
                cons.append("v[%d] = %s" % (k, "TRUE" if j == 1 else "FALSE"))
            else:
                kind, b, h, lo = nodes[(l - 1) * w + j]
                if kind == 0:
                    cons.append("v[%d] = (IF x[%d] THEN v[%d] ELSE v[%d])" % (k, b, idx[(l - 1, h)], idx[(l - 1, lo)]))
                else:
                    cons.append("v[%d] = v[%d]" % (k, idx[(l - 1, j)]))
    lines.append("Init == /\\ x \\in [0..63 -> BOOLEAN]")
    lines.append("        /\\ v \\in [0..%d -> BOOLEAN]" % max(nv - 1, 0))
    lines.append("        /\\ s \\in [0..%d -> BOOLEAN]" % max(ns - 1, 0))
    for c in cons + scs:
        lines.append("        /\\ (%s)" % c)
    lines.append("Next == UNCHANGED <<x, v, s>>")
    lines.append("Inv == (v[%d] <=> %s)" % (root, spec))
    lines.append("====")
    return "\n".join(lines) + "\n", len(cons) + len(scs)


if __name__ == "__main__":
    rows = [json.loads(l) for l in open(sys.argv[1])]
    op, bit, out = sys.argv[2], int(sys.argv[3]), sys.argv[4]
    row = [r for r in rows if r["op"] == op and r["bit"] == bit][0]
    name = out.split("/")[-1].replace(".tla", "")
    txt, n = gen(row, name)
    open(out, "w").write(txt)
    print("generated", out, "conjuncts", n)
