import sys, json, collections; sys.path.insert(0,'/verif')
from vlib import common
def load(trace):
    r = common.tlc("Hal/HalTrace", env={"TRACE":trace}, workers=1, wd="/verif/work/t", xmx="8g")
    v=r.printed("VERDICT")[0]
    n,js=v.split(', ',1)
    bad=json.loads(json.loads(js))
    ev=[json.loads(l) for l in open(trace)]
    return ev,bad
def torus(col,b,i):
    S=len(col); return sum(col[j][i]*2**((S-1-j)*b) for j in range(S))
def show(e, maxc=8):
    p=e['p']; print(e['op'],'rb',p['rb'],'ab',p['ab'],'k',p['k'],'rs',e['rs'],'as',len(e['ins']['a']),'chunk',e['chunk'], 'frame_bad', e['frame_bad'])
    src=e['ins']['r'] if e['op'] in('normalize_assign','lsh_assign','rsh_assign') else e['ins']['a']
    print(' src',src); 
    if e['ins']['r']: print(' r  ',e['ins']['r'])
    for o in e['outs']:
        print('  who',[(w['b'],w['f']) for w in o['who']], o['panic'][:100]); print('   d',o['d'])
if __name__=="__main__":
    ev,bad=load(sys.argv[1])
    want=sys.argv[2:]  # op kind rb ab
    n=0
    for k,kind in bad:
        e=ev[k-1]
        if e['op']==want[0] and kind==want[1] and (len(want)<3 or (e['p']['rb']==int(want[2]) and e['p']['ab']==int(want[3]))):
            show(e); n+=1
            if n>=int(want[4]) if len(want)>4 else n>=3: break
