"""spec -> impl -> spec pipeline for HAL-level corpora (used by C07, C08, C09, C10, C11)."""
import json
import os

from . import common
from .common import ToolError, log


def gen_descs(rep, wd, module, cfg, label, workers=4, timeout=1200):
    out = os.path.join(wd, label + ".descs.ndjson")
    r = common.tlc(module, cfg=cfg, env={"OUT": out}, workers=workers, wd=wd, timeout=timeout)
    common.tlc_must(r, "generator " + cfg)
    if not r.ok:
        raise ToolError("generator %s did not complete:\n%s" % (cfg, r.out[-2000:]))
    rep.add_tlc(r, "gen:" + label)
    n = int(r.printed("GENERATED")[0])
    return out, n


def subsample(path, n_keep, seed):
    """Seeded subset of a descriptor file (quick tier). Keeps original ids (line numbers)."""
    rows = common.read_ndjson(path)
    for i, r in enumerate(rows):
        r.setdefault("id", i + 1)
    if n_keep and len(rows) > n_keep:
        import random
        rnd = random.Random(seed)
        rows = rnd.sample(rows, n_keep)
        rows.sort(key=lambda r: r["id"])
    common.write_ndjson(path, rows)
    return len(rows)


def run_and_validate(rep, wd, descs_path, label, n_expected, timeout=3600, trace_module="Hal/HalTrace"):
    """harness executes the descriptors on the 4 real back-ends; TLC validates the log.
    Returns (events, bad) with bad = list of (event_index0, kind)."""
    ev_path = os.path.join(wd, label + ".events.ndjson")
    p = common.harness(["hal", descs_path, ev_path], env={"VERIF_SEED": common.seed()}, timeout=timeout)
    if p.returncode != 0:
        raise ToolError("harness hal failed rc=%d\n%s" % (p.returncode, p.stdout[-3000:]))
    r = common.tlc(trace_module, env={"TRACE": ev_path}, workers=1, wd=wd, timeout=timeout, deque=False, xmx="8g")
    common.tlc_must(r, "trace " + label)
    v = r.printed("VERDICT")
    if not r.ok or not v:
        raise ToolError("trace validation of %s did not complete:\n%s" % (label, r.out[-3000:]))
    n_s, js = v[0].split(", ", 1)
    n = int(n_s)
    if n != n_expected:
        raise ToolError("trace %s: %d events validated but %d descriptors generated" % (label, n, n_expected))
    if r.distinct != n + 1:
        raise ToolError("trace %s: TLC consumed %d of %d events" % (label, r.distinct - 1, n))
    bad = [(k - 1, kind) for k, kind in json.loads(json.loads(js))]
    rep.add_tlc(r, "trace:" + label)
    rep.traces += n
    events = common.read_ndjson(ev_path)
    return events, bad


BE = ["FFT64Ref", "FFT64Avx", "NTT120Ref", "NTT120Avx"]


def describe(e):
    """Short human description + matching key of an event for findings."""
    outs = e["outs"]
    maj = max(outs, key=lambda o: len(o["who"]))
    odd = sorted({BE[w["b"]] for o in outs if o is not maj for w in o["who"]})
    panics = sorted({o["panic"][:80] for o in outs if o["panic"]})
    key = "%s n=%d na=%d rs=%d as=%d" % (e["op"], e["n"], e["na"], e["rs"], len(e["ins"]["a"]))
    if odd:
        key += " odd=" + ",".join(odd)
    if e.get("frame_bad"):
        key += " frame=" + ",".join(sorted({x.split(":")[0] for x in e["frame_bad"]}))
    if panics:
        key += " panic=" + panics[0]
    return key


def report(rep, events, bad, kinds, corpus):
    """Turn verdicts of the given kinds into violations (deduplicated by key)."""
    seen = set()
    nbad = 0
    for idx, kind in bad:
        if kind not in kinds:
            continue
        e = events[idx]
        key = "%s:%s:%s" % (corpus, kind, describe(e))
        nbad += 1
        if key in seen:
            continue
        seen.add(key)
        small = {k: e[k] for k in e if k not in ("outs",)}
        small["outs"] = e["outs"][:3]
        rep.violation(key, "HAL event rejected by HalTrace (%s): %s" % (kind, key), {"corpus": corpus, "kind": kind, "event": small, "seed": common.seed()})
    return nbad
