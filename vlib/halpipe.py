"""spec -> impl -> spec pipeline for HAL-level corpora (used by C07, C08, C09, C10, C11)."""
import json
import os

from . import common
from .common import ToolError, log


class EvStore:
    """Events of a (sharded) corpus kept on disk; indexable lazily so that thorough corpora with
    millions of events never sit in memory."""

    def __init__(self):
        self.shards = []  # (path, n)
        self._cache = {}

    def add(self, path, n):
        self.shards.append((path, n))

    def __len__(self):
        return sum(n for _, n in self.shards)

    def _locate(self, idx):
        for path, n in self.shards:
            if idx < n:
                return path, idx
            idx -= n
        raise IndexError(idx)

    def prefetch(self, idxs):
        want = {}
        for i in idxs:
            if i not in self._cache:
                path, k = self._locate(i)
                want.setdefault(path, {})[k] = i
        for path, ks in want.items():
            with open(path) as f:
                for ln, line in enumerate(f):
                    if ln in ks:
                        self._cache[ks[ln]] = json.loads(line)

    def __getitem__(self, idx):
        if isinstance(idx, slice):
            idxs = list(range(*idx.indices(len(self))))
            self.prefetch(idxs)
            return [self._cache[i] for i in idxs]
        if idx not in self._cache:
            self.prefetch([idx])
        return self._cache[idx]

    def __iter__(self):
        for path, _ in self.shards:
            with open(path) as f:
                for line in f:
                    if line.strip():
                        yield json.loads(line)

    def op_counts(self):
        import re
        c = {}
        rx = re.compile(r'"op":"([a-z0-9_]+)"')
        for path, _ in self.shards:
            with open(path) as f:
                for line in f:
                    m = rx.search(line)
                    if m:
                        c[m.group(1)] = c.get(m.group(1), 0) + 1
        return c


def gen_descs(rep, wd, module, cfg, label, workers=4, timeout=1200):
    out = os.path.join(wd, label + ".descs.ndjson")
    r = common.tlc(module, cfg=cfg, env={"OUT": out}, workers=workers, wd=wd, timeout=timeout)
    common.tlc_must(r, "generator " + cfg)
    if not r.ok:
        raise ToolError("generator %s did not complete:\n%s" % (cfg, r.out[-2000:]))
    rep.add_tlc(r, "gen:" + label)
    if r.printed("GENERATED"):
        n = int(r.printed("GENERATED")[0])
    else:   # state-per-descriptor generators print one DESC line per distinct state (invariant Emit)
        rows = [json.loads(json.loads(x)) for x in r.printed("DESC")]
        rows.sort(key=lambda x: json.dumps(x, sort_keys=True))
        n = len(rows)
        if n != r.distinct - 1:
            raise ToolError("generator %s: %d descriptors printed but %d states" % (cfg, n, r.distinct))
        common.write_ndjson(out, rows)
    return out, n


def subsample(path, n_keep, seed):
    """Seeded subset of a descriptor file (quick tier). Keeps original ids (line numbers)."""
    rows = common.read_ndjson(path)
    for i, r in enumerate(rows):
        r.setdefault("id", i + 1)
    if n_keep and len(rows) > n_keep:
        import random
        rnd = random.Random(seed)
        rows = rnd.sample(rows, n_keep)
        rows.sort(key=lambda r: r["id"])
    common.write_ndjson(path, rows)
    return len(rows)


def run_and_validate(rep, wd, descs_path, label, n_expected, timeout=3600, trace_module="Hal/HalTrace"):
    """harness executes the descriptors on the 4 real back-ends; TLC validates the log.
    Returns (events, bad) with bad = list of (event_index0, kind)."""
    ev_path = os.path.join(wd, label + ".events.ndjson")
    p = common.harness(["hal", descs_path, ev_path], env={"VERIF_SEED": common.seed()}, timeout=timeout)
    if p.returncode != 0:
        raise ToolError("harness hal failed rc=%d\n%s" % (p.returncode, p.stdout[-3000:]))
    r = common.tlc(trace_module, env={"TRACE": ev_path}, workers=1, wd=wd, timeout=timeout, deque=False, xmx="8g")
    common.tlc_must(r, "trace " + label)
    v = r.printed("VERDICT")
    if not r.ok or not v:
        raise ToolError("trace validation of %s did not complete:\n%s" % (label, r.out[-3000:]))
    n_s, js = v[0].split(", ", 1)
    n = int(n_s)
    if n != n_expected:
        raise ToolError("trace %s: %d events validated but %d descriptors generated" % (label, n, n_expected))
    if r.distinct != n + 1:
        raise ToolError("trace %s: TLC consumed %d of %d events" % (label, r.distinct - 1, n))
    bad = [(k - 1, kind) for k, kind in json.loads(json.loads(js))]
    rep.add_tlc(r, "trace:" + label)
    rep.traces += n
    events = common.read_ndjson(ev_path)
    return events, bad


def run_and_validate_sharded(rep, wd, descs_path, label, shards=8, timeout=3600):
    """Same as run_and_validate but splits the descriptor file into contiguous shards validated by
    parallel TLC processes (a descriptor's chunks never straddle shards). Returns (events, bad)."""
    from concurrent.futures import ThreadPoolExecutor
    rows = common.read_ndjson(descs_path)
    shards = max(1, min(shards, len(rows)))
    per = (len(rows) + shards - 1) // shards
    parts = []
    for s in range(shards):
        part = rows[s * per:(s + 1) * per]
        if not part:
            continue
        pth = os.path.join(wd, "%s.s%d.descs.ndjson" % (label, s))
        common.write_ndjson(pth, part)
        parts.append((s, pth, len(part)))
    common.build_harness()

    def one(arg):
        s, pth, cnt = arg
        sub = common.Report(rep.pid, rep.tier, rep.level)
        ev, bad = _run_validate_any(sub, wd, pth, "%s.s%d" % (label, s), timeout)
        return sub, ev, bad

    events, bad = EvStore(), []
    with ThreadPoolExecutor(max_workers=min(12, len(parts))) as ex:
        for sub, ev, b in ex.map(one, parts):
            base = len(events)
            events.add(ev[0], ev[1])
            bad += [(i + base, kind) for i, kind in b]
            rep.states += sub.states
            rep.transitions += sub.transitions
            rep.traces += sub.traces
    rep.extra.setdefault("tlc_runs", []).append({"run": "trace:" + label, "shards": len(parts), "events": len(events)})
    return events, bad


# C17: when set ("1" = windows end at an inaccessible page, "2" = start after one) every HAL call runs in child processes
# over guard-page backed buffers; descriptors whose execution dies on a signal are collected in SIGNALS
GUARD = None
SIGNALS = []


def _run_validate_any(rep, wd, descs_path, label, timeout):
    """like run_and_validate but the number of events is whatever the harness expands to"""
    ev_path = os.path.join(wd, label + ".events.ndjson")
    if GUARD:
        p = common.harness(["guardrun", "hal", descs_path, ev_path], env={"VERIF_SEED": common.seed(), "VERIF_GUARD": GUARD}, timeout=timeout)
        if p.returncode == 0:
            SIGNALS.extend(common.read_ndjson(ev_path + ".signals.ndjson"))
    else:
        p = common.harness(["hal", descs_path, ev_path], env={"VERIF_SEED": common.seed()}, timeout=timeout)
    if p.returncode != 0:
        raise ToolError("harness hal failed rc=%d\n%s" % (p.returncode, p.stdout[-3000:]))
    with open(ev_path) as f:
        nev = sum(1 for line in f if line.strip())
    events = (ev_path, nev)
    r = common.tlc("Hal/HalTrace", env={"TRACE": ev_path}, workers=1, wd=wd, timeout=timeout, xmx="6g")
    common.tlc_must(r, "trace " + label)
    v = r.printed("VERDICT")
    if not r.ok or not v:
        raise ToolError("trace validation of %s did not complete:\n%s" % (label, r.out[-3000:]))
    n = int(v[0].split(", ", 1)[0])
    if n != nev or r.distinct != n + 1:
        raise ToolError("trace %s: TLC consumed %d of %d events" % (label, r.distinct - 1, nev))
    bad = [(k - 1, kind) for k, kind in json.loads(json.loads(v[0].split(", ", 1)[1]))]
    rep.states += r.distinct
    rep.transitions += r.generated
    rep.traces += n
    return events, bad


BE = ["FFT64Ref", "FFT64Avx", "NTT120Ref", "NTT120Avx"]


def describe(e):
    """Short human description + matching key of an event for findings."""
    outs = e["outs"]
    maj = max(outs, key=lambda o: len(o["who"]))
    odd = sorted({BE[w["b"]] for o in outs if o is not maj for w in o["who"]})
    panics = sorted({o["panic"][:80] for o in outs if o["panic"]})
    agree = e.get("chk") == "agree"
    key = "%s n=%d na=%d rs=%d as=%d" % (e["op"], e["n"], e["na"], e["rs"], len(e["ins"].get("a", [])))
    if agree:
        p_ = e["p"]
        key += " agree rb=%s ab=%s k=%s" % (p_.get("rb"), p_.get("ab"), p_.get("k", p_.get("off")))
    op = e["op"].replace("big_", "")
    if op.startswith(("normalize", "lsh", "rsh")) and not agree:
        p = e["p"]
        rb, ab, k = p["rb"], p["ab"], p["k"]
        src = e["ins"]["r"] if op in ("normalize_assign", "lsh_assign", "rsh_assign") else e["ins"]["a"]
        off = k if op.startswith("normalize") else (k if op.startswith("lsh") else -k)
        unn = any(not (-(1 << (ab - 1)) <= x < (1 << (ab - 1))) for l in src for x in l)
        steps = -((off) // rb) if off < 0 else 0  # ceil(-off / rb)
        key += " rb=%d ab=%d cross=%d unn=%d gap=%d k0=%d over=%d" % (
            rb, ab, int(rb != ab), int(unn), int(steps > e["rs"]), int(k == 0), int(op.endswith("_assign") and steps > e["rs"]))
        if rb != ab and off < 0:
            key += " neg=1"       # cross-radix with a negative (right-shifting) offset: the path of F-C08-cross-radix-rounding
    if odd:
        key += " odd=" + ",".join(odd)
    if e.get("frame_bad"):
        key += " frame=" + ",".join(sorted({x.split(":")[0] for x in e["frame_bad"]}))
    if panics:
        key += " panic=" + panics[0]
    return key


def report(rep, events, bad, kinds, corpus):
    """Turn verdicts of the given kinds into violations (deduplicated by key)."""
    seen = set()
    nbad = 0
    if isinstance(events, EvStore):
        events.prefetch([idx for idx, kind in bad if kind in kinds])
    for idx, kind in bad:
        if kind not in kinds:
            continue
        e = events[idx]
        key = "%s:%s:%s" % (corpus, kind, describe(e))
        nbad += 1
        if key in seen:
            continue
        seen.add(key)
        small = {k: e[k] for k in e if k not in ("outs",)}
        small["outs"] = e["outs"][:3]
        rep.violation(key, "HAL event rejected by HalTrace (%s): %s" % (kind, key), {"corpus": corpus, "kind": kind, "event": small, "seed": common.seed()})
    return nbad


def binding_selftest(rep, wd, events_path, label, k=6):
    """Demonstrate the binding: corrupt one logged field in k events and drop one event of an
    enumerated descriptor; TLC must reject exactly those. Raises ToolError when it does not."""
    import random
    rows = common.read_ndjson(events_path)
    rnd = random.Random(common.seed() * 7919 + 13)
    cands = [i for i, e in enumerate(rows)
             if all(o["panic"] == "" and o["d"] for o in e["outs"]) and len(e["outs"]) == 1
             and (not e["op"].replace("big_", "").startswith(("normalize", "lsh", "rsh")) or e["rs"] * e["p"]["rb"] >= 4)]
    if not cands:
        return 0
    pick = sorted(rnd.sample(cands, min(k, len(cands))))
    sub = []
    expect = []
    for n_, i in enumerate(pick):
        e = json.loads(json.dumps(rows[i]))
        e["alpha"] = []
        e["did"], e["chunk"], e["nchunks"] = n_ + 1, 0, 1
        good = json.loads(json.dumps(e))
        e["outs"][0]["d"][-1][0] += 3
        sub.append(good)
        sub.append(e)
        expect.append(2 * n_ + 2)
    path = os.path.join(wd, label + ".selftest.ndjson")
    common.write_ndjson(path, sub)
    r = common.tlc("Hal/HalTrace", env={"TRACE": path}, workers=1, wd=wd, timeout=600)
    common.tlc_must(r, "selftest " + label)
    v = r.printed("VERDICT")
    if not v:
        raise ToolError("binding self-test did not complete:\n" + r.out[-2000:])
    bad = json.loads(json.loads(v[0].split(", ", 1)[1]))
    got = sorted({b[0] for b in bad if b[1] in ("sem", "sem1")})
    # the uncorrupted copies may legitimately be rejected only if they were rejected in the main run
    got_corrupt = [g for g in got if g % 2 == 0]
    if got_corrupt != expect:
        raise ToolError("binding self-test FAILED for %s: corrupted events %s, rejected %s" % (label, expect, got))
    rep.extra.setdefault("binding_selftests", []).append({"corpus": label, "corrupted_events": len(expect), "rejected": len(got_corrupt)})
    return len(expect)


CORPORA = {
    # name: (generator module, quick cfg, thorough cfg, quick subsample, shards)
    "c09": ("Hal/Gen_C09", "Hal/Gen_C09_quick", "Hal/Gen_C09_thorough", 0, 6),
    "c08": ("Hal/Gen_C08", "Hal/Gen_C08_quick", "Hal/Gen_C08_thorough", 1200, 8),
    "c07": ("Hal/Gen_C07", "Hal/Gen_C07_quick", "Hal/Gen_C07_thorough", 0, 8),
    "mag": ("Hal/Gen_Mag", "Hal/Gen_Mag_quick", "Hal/Gen_Mag_thorough", 0, 4),
    "wide": ("Hal/Gen_Wide", "Hal/Gen_Wide_quick", "Hal/Gen_Wide_thorough", 6000, 8),
}


def run_corpus(rep, wd, name, tier, subsample_n=None):
    """TLC generates the corpus, the harness runs it on the real back-ends, TLC validates the log."""
    mod, qcfg, tcfg, qsub, shards = CORPORA[name]
    quick = tier == "quick"
    descs, n = gen_descs(rep, wd, mod, qcfg if quick else tcfg, name)
    keep = subsample_n if subsample_n is not None else (qsub if quick else 0)
    nd = subsample(descs, keep, common.seed())
    events, bad = run_and_validate_sharded(rep, wd, descs, name, shards=shards if quick else 12)
    rep.evaluations += len(events) * 8
    rep.distinct += len(events)
    ops = rep.extra.setdefault("ops_covered", {})
    for k_, v_ in events.op_counts().items():
        ops[k_] = ops.get(k_, 0) + v_
    rep.extra.setdefault("corpora", []).append({"corpus": name, "descriptors_in_scope": n, "descriptors_run": nd, "events": len(events)})
    return events, bad
