"""Shared plumbing for /verif/bin/check: harness build, TLC runs, evidence, findings.

Exit-code contract (MANIFEST): 0 = property held on everything explored,
1 = violation (always accompanied by a `VIOLATION property=<id> replay=<path>` line),
2 = tool failure / timeout (never reported as a violation).
"""
import hashlib
import json
import os
import re
import shutil
import subprocess
import sys
import time

VERIF = os.path.dirname(os.path.dirname(os.path.abspath(__file__)))
SPEC = os.path.join(VERIF, "spec")
HARNESS = os.path.join(VERIF, "harness")
WORK = os.path.join(VERIF, "work")
EVID = os.path.join(VERIF, "evidence")
REPLAYS = os.path.join(VERIF, "replays")
TLA_JAR = "/opt/veriftools/tla/tla2tools.jar"
TLA_DEPS = "/opt/veriftools/tla/CommunityModules-deps.jar"


class ToolError(Exception):
    pass


def log(*a):
    print(*a, flush=True)


def workdir(pid, clean=True):
    d = os.path.join(WORK, pid)
    if clean and os.path.isdir(d):
        shutil.rmtree(d, ignore_errors=True)
    os.makedirs(d, exist_ok=True)
    return d


def sh(cmd, cwd=None, env=None, timeout=None, check=False):
    e = dict(os.environ)
    if env:
        e.update({k: str(v) for k, v in env.items()})
    try:
        p = subprocess.run(cmd, cwd=cwd, env=e, timeout=timeout, stdout=subprocess.PIPE, stderr=subprocess.STDOUT, text=True)
    except subprocess.TimeoutExpired as ex:
        out = ex.stdout if isinstance(ex.stdout, str) else (ex.stdout or b"").decode("utf8", "replace")
        raise ToolError("timeout after %ss: %s\n%s" % (timeout, " ".join(map(str, cmd))[:300], out[-2000:]))
    if check and p.returncode != 0:
        raise ToolError("command failed (%d): %s\n%s" % (p.returncode, " ".join(map(str, cmd))[:300], p.stdout[-4000:]))
    return p


_built = {}


def build_harness(profile="release"):
    """(Re)build the harness against /repo's *current* working tree. Incremental."""
    if profile in _built:
        return _built[profile]
    t0 = time.time()
    lock = os.path.join(HARNESS, "Cargo.lock")
    if not os.path.exists(lock):
        shutil.copy("/repo/Cargo.lock", lock)
    cmd = ["cargo", "build", "--offline"]
    if profile == "release":
        cmd.append("--release")
    env = {"CARGO_NET_OFFLINE": "true"}
    p = sh(cmd, cwd=HARNESS, env=env, timeout=1800)
    if p.returncode != 0:
        # lockfile drift (e.g. /repo's Cargo.lock changed): retry once from a fresh copy
        shutil.copy("/repo/Cargo.lock", lock)
        p = sh(cmd, cwd=HARNESS, env=env, timeout=1800)
        if p.returncode != 0:
            raise ToolError("harness build failed:\n" + p.stdout[-6000:])
    binp = os.path.join(HARNESS, "target", "release" if profile == "release" else "debug", "verif-harness")
    log("[build] harness (%s) ready in %.1fs" % (profile, time.time() - t0))
    _built[profile] = binp
    return binp


def harness(args, profile="release", timeout=3600, env=None, cwd=None):
    binp = build_harness(profile)
    p = sh([binp] + [str(a) for a in args], cwd=cwd, env=env, timeout=timeout)
    return p


class TlcResult:
    def __init__(self, out, rc, wall):
        self.out = out
        self.rc = rc
        self.wall = wall
        self.generated = 0
        self.distinct = 0
        self.depth = 0
        m = None
        for m in re.finditer(r"(\d+) states generated, (\d+) distinct states found", out):
            pass
        if m:
            self.generated, self.distinct = int(m.group(1)), int(m.group(2))
        m = re.search(r"The depth of the complete state graph search is (\d+)", out)
        if m:
            self.depth = int(m.group(1))
        self.invariant = None
        m = re.search(r"Invariant (\S+) is violated", out)
        if m:
            self.invariant = m.group(1)
        m = re.search(r"Action property (\S+) is violated", out)
        if m and not self.invariant:
            self.invariant = m.group(1)
        m = re.search(r"Temporal properties were violated", out)
        if m and not self.invariant:
            self.invariant = "temporal"
        self.postcondition_failed = "POSTCONDITION" in out and "violated" in out.split("POSTCONDITION")[-1][:300]
        self.assumption_failed = bool(re.search(r"Assumption .* is false", out))
        self.deadlock = "Deadlock reached" in out
        self.completed = "Model checking completed. No error has been found." in out or (
            "Finished in" in out and "Error:" not in out and not self.invariant
        )
        self.error = None
        if not self.completed and not self.invariant and not self.postcondition_failed and not self.assumption_failed and not self.deadlock:
            m = re.search(r"Error: (.*)", out)
            self.error = m.group(1) if m else "tlc rc=%d" % rc
        # counter-example states
        self.trace_states = re.findall(r"State (\d+): <([^>]*)>\n((?:(?!State \d+:|\n\n).*\n)*)", out)

    @property
    def ok(self):
        return self.completed and not self.invariant and not self.postcondition_failed and not self.assumption_failed and not self.deadlock and not self.error

    def printed(self, tag):
        """Values printed by PrintT(<<"tag", ...>>) -> list of raw strings after the tag
        (TLC wraps long tuples over several lines)."""
        res = []
        for m in re.finditer(r'<<\s*"%s",\s*(.*?)\s*>>\n' % re.escape(tag), self.out, re.S):
            res.append(re.sub(r"\s*\n\s*", " ", m.group(1)))
        return res

    def coverage(self):
        """-coverage 1 output: {action/operator label: count} (only top-level `<Name line..>: d:g` lines)."""
        cov = {}
        for m in re.finditer(r"^<(\w+) line \d+, col \d+ to line \d+, col \d+ of module (\w+)>: (\d+):(\d+)", self.out, re.M):
            cov[m.group(2) + "!" + m.group(1)] = int(m.group(4))
        return cov


def tlc(module, cfg=None, wd=None, env=None, workers=4, timeout=1800, simulate=None, depth=None, seed=None,
        coverage=False, xmx="6g", deque=False, extra=None):
    """Run TLC on spec/<module>.tla. `module` is a path relative to SPEC (without .tla)."""
    mod_path = os.path.join(SPEC, module + ".tla")
    mod_dir = os.path.dirname(mod_path)
    cfg_path = os.path.join(SPEC, (cfg or module) + ".cfg") if not (cfg and os.path.isabs(cfg)) else cfg
    wd = wd or workdir("tlc_misc", clean=False)
    import uuid
    meta = os.path.join(wd, "tlcmeta_%s_%s" % (os.path.basename(module), uuid.uuid4().hex[:10]))
    jopts = "-Xss1g"
    if deque:
        jopts += " -Dtlc2.tool.queue.IStateQueue=StateDeque"
    # all spec dirs on the library path so modules can EXTEND each other across folders
    libs = [os.path.join(SPEC, d) for d in sorted(os.listdir(SPEC)) if os.path.isdir(os.path.join(SPEC, d))]
    cmd = ["java", "-XX:+UseParallelGC", "-Xmx" + xmx, "-Xss1g", "-DTLA-Library=" + ":".join(libs),
           "-cp", TLA_JAR + ":" + TLA_DEPS, "tlc2.TLC",
           "-workers", str(workers), "-metadir", meta, "-cleanup", "-noGenerateSpecTE", "-config", cfg_path]
    if deque:
        cmd.insert(1, "-Dtlc2.tool.queue.IStateQueue=StateDeque")
    if simulate is not None:
        cmd += ["-simulate", "num=%d" % simulate]
        if depth:
            cmd += ["-depth", str(depth)]
    if seed is not None:
        cmd += ["-seed", str(seed)]
    if coverage:
        cmd += ["-coverage", "1"]
    if extra:
        cmd += extra
    cmd.append(mod_path)
    t0 = time.time()
    p = sh(cmd, cwd=mod_dir, env=env, timeout=timeout)
    shutil.rmtree(meta, ignore_errors=True)
    r = TlcResult(p.stdout, p.returncode, time.time() - t0)
    return r


def tlc_must(r, what):
    """Raise ToolError if the run ended for a reason that is neither success nor a property violation."""
    if r.error:
        raise ToolError("TLC failed on %s: %s\n%s" % (what, r.error, r.out[-3000:]))
    return r


def seed():
    try:
        return int(os.environ.get("VERIF_SEED", "1"))
    except ValueError:
        return 1


def tier_from(argv_tier):
    return argv_tier or os.environ.get("VERIF_TIER") or "quick"


def write_replay(pid, obj):
    d = os.path.join(REPLAYS, pid)
    os.makedirs(d, exist_ok=True)
    s = json.dumps(obj, sort_keys=True, default=str)
    h = hashlib.sha256(s.encode()).hexdigest()[:16]
    path = os.path.join(d, h + ".json")
    with open(path, "w") as f:
        f.write(json.dumps(obj, indent=1, sort_keys=True, default=str))
    return path


def load_known():
    p = os.path.join(VERIF, "known_findings.json")
    if not os.path.exists(p):
        return []
    with open(p) as f:
        return json.load(f).get("findings", [])


class Report:
    """Collects what a check run covered and how it ended."""

    def __init__(self, pid, tier, level="model_checking"):
        self.pid, self.tier, self.level = pid, tier, level
        self.t0 = time.time()
        self.states = 0
        self.transitions = 0
        self.traces = 0
        self.evaluations = 0
        self.distinct = 0
        self.samples = []
        self.assumptions = []
        self.extra = {}
        self.violations = []  # (key, description, replay_obj)
        self.known_hits = []
        self.rule = ""

    def add_tlc(self, r, label=None):
        self.states += r.distinct
        self.transitions += r.generated
        if label:
            self.extra.setdefault("tlc_runs", []).append(
                {"run": label, "distinct_states": r.distinct, "states_generated": r.generated, "depth": r.depth, "wall_s": round(r.wall, 1)})

    def sample(self, s, cap=6):
        if len(self.samples) < cap:
            self.samples.append(s)

    def violation(self, key, desc, replay):
        """key identifies the failing site/input for known-findings matching."""
        for k in load_known():
            if k.get("property") == self.pid and k.get("status") == "known" and re.search(k["match"], key):
                if not any(h[0] == k["id"] for h in self.known_hits):
                    self.known_hits.append((k["id"], k.get("what", key)))
                return False
        self.violations.append((key, desc, replay))
        return True

    def finish(self):
        wall = time.time() - self.t0
        for kid, what in self.known_hits:
            log("KNOWN-FINDING: property=%s %s (%s)" % (self.pid, what, kid))
        paths = []
        for key, desc, replay in self.violations[:20]:
            obj = {"property": self.pid, "key": key, "description": desc, "replay": replay}
            path = write_replay(self.pid, obj)
            paths.append(path)
            log("VIOLATION property=%s replay=%s" % (self.pid, path))
            log("  " + desc[:600])
        cov = dict(self.extra)
        cov["samples"] = self.samples or ["(none)"]
        if self.level == "model_checking":
            cov["states"] = max(self.states, 0)
            cov["transitions"] = max(self.transitions, 0)
            cov["traces_validated_against_impl"] = self.traces
        if self.level == "proof":
            cov.setdefault("obligations", 0)
            cov.setdefault("discharged", 0)
            cov.setdefault("checker_cmd", "tlc")
            cov.setdefault("trusted_base", ["TLC"])
            cov["states"] = max(self.states, 0)
            cov["transitions"] = max(self.transitions, 0)
        cov["evaluations"] = max(self.evaluations, 1)
        cov["distinct_nontrivial"] = self.distinct
        cov["rule"] = self.rule
        ev = {
            "property_id": self.pid,
            "tier": self.tier,
            "seed": seed(),
            "level": self.level,
            "coverage": cov,
            "assumptions": self.assumptions,
            "wall_s": round(wall, 2),
            "violations": len(self.violations),
        }
        if self.known_hits:
            ev["coverage"]["known_findings_hit"] = [k for k, _ in self.known_hits]
        os.makedirs(EVID, exist_ok=True)
        with open(os.path.join(EVID, self.pid + ".json"), "w") as f:
            json.dump(ev, f, indent=1, default=str)
        log("[%s] tier=%s states=%d transitions=%d traces=%d evals=%d distinct=%d violations=%d wall=%.1fs" % (
            self.pid, self.tier, self.states, self.transitions, self.traces, self.evaluations, self.distinct,
            len(self.violations), wall))
        return 1 if self.violations else 0


def read_ndjson(path):
    res = []
    with open(path) as f:
        for line in f:
            line = line.strip()
            if line:
                res.append(json.loads(line))
    return res


def write_ndjson(path, rows):
    with open(path, "w") as f:
        for r in rows:
            f.write(json.dumps(r, separators=(",", ":")) + "\n")
