"""Pipeline for encrypted-integer behaviours (C15, C20): Gen_Fhe -> harness fhe -> FheTrace."""
import json
import os
from concurrent.futures import ThreadPoolExecutor

from . import common
from .common import ToolError, log

BE = ["FFT64Ref", "FFT64Avx"]


def gen(rep, wd, cfg):
    r = common.tlc("BinFhe/Gen_Fhe", cfg="BinFhe/Gen_Fhe_" + cfg, workers=2, wd=wd, timeout=900)
    common.tlc_must(r, "Gen_Fhe")
    if not r.ok:
        raise ToolError("Gen_Fhe did not complete:\n" + r.out[-2000:])
    rep.add_tlc(r, "gen:fhe")
    rows = [json.loads(json.loads(x)) for x in r.printed("DESC")]
    if len(rows) != r.distinct - 1:
        raise ToolError("Gen_Fhe: %d descriptors for %d states" % (len(rows), r.distinct))
    rows.sort(key=lambda x: json.dumps(x, sort_keys=True))
    for i, x in enumerate(rows):
        x["id"] = i + 1
    return rows


def run(rep, wd, rows, label, shards=8, timeout=7200):
    """Returns (events, bad) with bad = [(idx0, kind)]."""
    common.build_harness()
    # one shard = one process = one key generation per back-end: group by back-end first
    rows = sorted(rows, key=lambda x: (x["be"], x["id"]))
    shards = max(1, min(shards, len(rows)))
    per = (len(rows) + shards - 1) // shards

    def one(s):
        part = rows[s * per:(s + 1) * per]
        if not part:
            return [], [], None
        dp = os.path.join(wd, "%s.s%d.descs.ndjson" % (label, s))
        ep = os.path.join(wd, "%s.s%d.events.ndjson" % (label, s))
        common.write_ndjson(dp, part)
        p = common.harness(["fhe", dp, ep], timeout=timeout)
        if p.returncode != 0:
            raise ToolError("harness fhe failed rc=%d\n%s" % (p.returncode, p.stdout[-3000:]))
        ev = common.read_ndjson(ep)
        r = common.tlc("BinFhe/FheTrace", env={"TRACE": ep}, workers=1, wd=wd, timeout=timeout, xmx="4g")
        common.tlc_must(r, "FheTrace " + label)
        v = r.printed("VERDICT")
        if not r.ok or not v or r.distinct != len(ev) + 1:
            raise ToolError("FheTrace of %s did not complete:\n%s" % (label, r.out[-3000:]))
        bad = [(k - 1, kind) for k, kind in json.loads(json.loads(v[0].split(", ", 1)[1]))]
        return ev, bad, r

    events, bad = [], []
    with ThreadPoolExecutor(max_workers=min(8, shards)) as ex:
        for ev, b, r in ex.map(one, range(shards)):
            base = len(events)
            events += ev
            bad += [(i + base, kind) for i, kind in b]
            if r:
                rep.states += r.distinct
                rep.transitions += r.generated
    rep.traces += len(rows)
    return events, bad


def describe(e):
    key = "%s be=%s" % (e["kind"], BE[e["be"]])
    if e["kind"] == "word":
        key += " op=%s" % e["op"]
    if e["kind"] == "blind":
        key += " op=%s" % e["op"]
        if e["op"] in ("retriever", "retrieve"):
            key += " size=%s" % e.get("size")
    if e["kind"] == "prep":
        key += " start=%s count=%s" % (e["start"], e["count"])
    if e["kind"] in ("chain", "shared"):
        key += " ops=%s" % ",".join(e["ops"])
    pan = sorted({o["panic"][:80] for o in e["outs"] if o.get("panic")})
    if pan:
        import re
        key += " panic=" + re.sub(r"\d+", "#", pan[0])
    return key


def report(rep, events, bad, kinds, corpus):
    seen = set()
    n = 0
    for idx, kind in bad:
        if kind not in kinds:
            continue
        n += 1
        e = events[idx]
        key = "%s:%s:%s" % (corpus, kind, describe(e))
        if key in seen:
            continue
        seen.add(key)
        small = dict(e)
        small["outs"] = [{k: v for k, v in o.items() if k != "items"} for o in e["outs"][:6]]
        rep.violation(key, "behaviour rejected by FheTrace (%s): %s a=%s b=%s" % (kind, key, e.get("abits"), e.get("bbits")), {"corpus": corpus, "kind": kind, "event": small})
    return n
