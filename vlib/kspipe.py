"""spec -> impl -> spec pipeline for one-shot gadget-product behaviours (keygen -> encrypt -> operation):
C03 (key-switching family), C04 (external products), and their parts of C10 / C11 / C12."""
import json
import os
import random
import re

from . import common, corepipe
from .common import ToolError, log

BE = corepipe.BE


def gen_descs(rep, wd, module, cfg, label, per_op=0, exact=False, timeout=1800, ops=None, weights=None, keep=None):
    """TLC enumerates the descriptor set; a seeded, per-operation stratified subset is kept."""
    out = os.path.join(wd, label + ".descs.ndjson")
    r = common.tlc(module, cfg=cfg, env={"OUT": out}, workers=4, wd=wd, timeout=timeout)
    common.tlc_must(r, "generator " + cfg)
    if not r.ok:
        raise ToolError("generator %s did not complete:\n%s" % (cfg, r.out[-2000:]))
    rep.add_tlc(r, "gen:" + label)
    if r.printed("GENERATED"):
        n = int(r.printed("GENERATED")[0])
        rows = common.read_ndjson(out)
    else:   # state-per-descriptor generators print one DESC line per distinct state (invariant Emit)
        rows = [json.loads(json.loads(x)) for x in r.printed("DESC")]
        rows.sort(key=lambda x: json.dumps(x, sort_keys=True))
        n = len(rows)
        if n != r.distinct - 1:
            raise ToolError("generator %s: %d descriptors printed but %d states" % (cfg, n, r.distinct))
    for i, row in enumerate(rows):
        row.setdefault("id", i + 1)
        if exact:
            row["scr"] = "exact"
    if keep:
        rows = [x for x in rows if keep(x)]
    if ops:
        rows = [x for x in rows if x["op"] in ops]
    if per_op:
        rnd = random.Random(common.seed())
        byop = {}
        for x in rows:
            byop.setdefault(x["op"], []).append(x)
        rows = []
        for op in sorted(byop):
            v = byop[op]
            k = int(per_op * (weights or {}).get(op, 1))
            rows += rnd.sample(v, k) if len(v) > k else v
        rows.sort(key=lambda r_: r_["id"])
    common.write_ndjson(out, rows)
    return out, n, len(rows)


def run_and_validate(rep, wd, path, label, shards=12, timeout=3600, trace_module="Core/KsTrace", sub="ks", guard=None, signals=None):
    return corepipe.run_and_validate(rep, wd, path, label, shards=shards, timeout=timeout, trace_module=trace_module, sub=sub, guard=guard, signals=signals)


def describe(e):
    outs = e["outs"]
    maj = max(outs, key=lambda o: len(o["who"]))
    odd = sorted({BE[w["b"]] for o in outs if o is not maj for w in o["who"]})
    panics = sorted({re.sub(r"\d+", "#", o["panic"])[:90] for o in outs if o["panic"]})
    if e.get("ev") == "mul":
        key = "%s n=%s rank=%s ab=%s rb=%s sa=%s sb=%s sr=%s" % (e["op"], e.get("n"), e.get("rank"), e.get("ab"), e.get("rb"), e.get("sa"), e.get("sb"), e.get("sr"))
        if e["op"] == "relin":
            key += " bkey=%s dsize=%s" % (e.get("bkey"), e.get("dsize"))
        else:
            key += " offmod=%s" % (e.get("off", 0) % e.get("ab", 1))
    else:
        key = "%s n=%s bin=%s bkey=%s bout=%s rin=%s rout=%s dsize=%s" % (e["op"], e.get("n"), e.get("bin"), e.get("bkey"), e.get("bout"), e.get("rin"), e.get("rout"), e.get("dsize"))
        key += " xin=%d xout=%d" % (int(e.get("bin") != e.get("bkey")), int(e.get("bout") != e.get("bkey")))
        if e.get("ev") == "ggsw":
            da, dr = e.get("dnum_a", 0), e.get("dnum_r", 0)
            key += " rows=" + ("fewer" if dr < da else "more" if dr > da else "same")
    if odd:
        key += " odd=" + ",".join(odd)
    if panics:
        key += " panic=" + panics[0]
    return key


def report(rep, events, bad, kinds, corpus):
    seen = set()
    n = 0
    for idx, kind in bad:
        if kind not in kinds:
            continue
        e = events[idx]
        n += 1
        key = "%s:%s:%s" % (corpus, kind, describe(e))
        if key in seen:
            continue
        seen.add(key)
        small = {k: e[k] for k in e if k not in ("outs", "key", "tsk", "scr")}
        small["outs"] = e.get("outs", [])[:2]
        if kind == "scr":
            small["scr"] = e.get("scr", [])[:1]
        rep.violation(key, "behaviour rejected by KsTrace (%s): %s" % (kind, key), {"corpus": corpus, "kind": kind, "event": small, "seed": common.seed()})
    return n
