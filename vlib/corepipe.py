"""spec -> impl -> spec pipeline for scheme-level programs (poulpy-core): C01..C06, C19 and the
scheme-level parts of C10, C11, C12."""
import json
import os
import random
from concurrent.futures import ThreadPoolExecutor

from . import common
from .common import ToolError, log

BE = ["FFT64Ref", "FFT64Avx", "NTT120Ref", "NTT120Avx"]


def gen_programs(rep, wd, module, cfg, label, keep=0, exact=False, timeout=1800, always=None):
    out = os.path.join(wd, label + ".progs.ndjson")
    r = common.tlc(module, cfg=cfg, env={"OUT": out}, workers=4, wd=wd, timeout=timeout)
    common.tlc_must(r, "generator " + cfg)
    if not r.ok:
        raise ToolError("generator %s did not complete:\n%s" % (cfg, r.out[-2000:]))
    rep.add_tlc(r, "gen:" + label)
    n = int(r.printed("GENERATED")[0])
    rows = common.read_ndjson(out)
    for i, row in enumerate(rows):
        row.setdefault("id", i + 1)
        if exact:
            row["scr"] = "exact"
    if keep and len(rows) > keep:
        must = [x for x in rows if always and always(x)]
        rest = [x for x in rows if not (always and always(x))]
        rows = must + random.Random(common.seed()).sample(rest, max(0, keep - len(must)))
        rows.sort(key=lambda r_: r_["id"])
    common.write_ndjson(out, rows)
    return out, n, len(rows)


def run_and_validate(rep, wd, progs_path, label, shards=8, timeout=3600, trace_module="Core/CoreTrace", sub="core", guard=None, signals=None):
    """Runs the programs on the 4 real back-ends (x2 fills) and validates the log with CoreTrace.
    Returns (events: list, bad: [(idx0, kind)])."""
    rows = common.read_ndjson(progs_path)
    shards = max(1, min(shards, len(rows)))
    per = (len(rows) + shards - 1) // shards
    common.build_harness()
    parts = []
    for s in range(shards):
        part = rows[s * per:(s + 1) * per]
        if part:
            pth = os.path.join(wd, "%s.s%d.progs.ndjson" % (label, s))
            common.write_ndjson(pth, part)
            parts.append((s, pth))

    def one(arg):
        s, pth = arg
        evp = os.path.join(wd, "%s.s%d.events.ndjson" % (label, s))
        if guard:
            p = common.harness(["guardrun", sub, pth, evp], env={"VERIF_SEED": common.seed(), "VERIF_GUARD": guard}, timeout=timeout)
            if p.returncode == 0 and signals is not None:
                signals.extend(common.read_ndjson(evp + ".signals.ndjson"))
        else:
            p = common.harness([sub, pth, evp], env={"VERIF_SEED": common.seed()}, timeout=timeout)
        if p.returncode != 0:
            raise ToolError("harness " + sub + " failed rc=%d\n%s" % (p.returncode, p.stdout[-3000:]))
        ev = common.read_ndjson(evp)
        r = common.tlc(trace_module, env={"TRACE": evp}, workers=1, wd=wd, timeout=timeout, xmx="6g")
        common.tlc_must(r, "trace " + label)
        v = r.printed("VERDICT")
        if not r.ok or not v or r.distinct != len(ev) + 1:
            raise ToolError("trace validation of %s did not complete:\n%s" % (label, r.out[-3000:]))
        bad = [(k - 1, kind) for k, kind in json.loads(json.loads(v[0].split(", ", 1)[1]))]
        return ev, bad, r

    events, bad = [], []
    with ThreadPoolExecutor(max_workers=min(12, len(parts))) as ex:
        for ev, b, r in ex.map(one, parts):
            base = len(events)
            events += ev
            bad += [(i + base, kind) for i, kind in b]
            rep.states += r.distinct
            rep.transitions += r.generated
    rep.traces += len(rows)
    rep.extra.setdefault("tlc_runs", []).append({"run": "trace:" + label, "shards": len(parts), "programs": len(rows), "events": len(events)})
    return events, bad


def describe(e, setup):
    outs = e["outs"]
    maj = max(outs, key=lambda o: len(o["who"]))
    odd = sorted({BE[w["b"]] for o in outs if o is not maj for w in o["who"]})
    panics = sorted({o["panic"][:70] for o in outs if o["panic"] and not o["panic"].startswith("not reached")})
    key = "%s n=%s b=%s rank=%s" % (e["op"], setup.get("n"), setup.get("b"), setup.get("rank"))
    if e["op"].startswith("enc") or e["op"] == "dec":
        key += " xradix=%d" % int(e.get("pb") != setup.get("b"))
    if e["op"] in ("lsh", "rsh", "lsh_assign", "lsh_add", "lsh_sub"):
        key += " k=%s" % e.get("k")
    if odd:
        key += " odd=" + ",".join(odd)
    if panics:
        key += " panic=" + panics[0]
    return key


def report(rep, events, bad, kinds, corpus):
    setups = {}
    for e in events:
        if e["ev"] == "setup":
            setups[e["pid"]] = e
    seen = set()
    n = 0
    for idx, kind in bad:
        if kind not in kinds:
            continue
        e = events[idx]
        n += 1
        if e["ev"] == "setup":
            key = "%s:%s:setup" % (corpus, kind)
            s = e
        else:
            s = setups.get(e["pid"], {})
            key = "%s:%s:%s" % (corpus, kind, describe(e, s))
        if key in seen:
            continue
        seen.add(key)
        small = {k: e[k] for k in e if k != "outs"}
        small["outs"] = e.get("outs", [])[:2]
        rep.violation(key, "step rejected by CoreTrace (%s): %s" % (kind, key), {"corpus": corpus, "kind": kind, "setup": s, "event": small, "seed": common.seed()})
    return n
