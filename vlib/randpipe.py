"""Pipeline for the randomness (C06) and compression (C19) experiments: Gen_Rand -> harness rand -> RandTrace."""
import json
import os
from concurrent.futures import ThreadPoolExecutor

from . import common
from .common import ToolError, log


def gen(rep, wd, tier, kinds):
    r = common.tlc("Core/Gen_Rand", cfg="Core/Gen_Rand_" + tier, workers=4, wd=wd, timeout=1800)
    common.tlc_must(r, "Gen_Rand")
    if not r.ok:
        raise ToolError("Gen_Rand did not complete:\n" + r.out[-2000:])
    rep.add_tlc(r, "gen:rand")
    rows = [json.loads(json.loads(x)) for x in r.printed("DESC")]
    if len(rows) != r.distinct - 1:
        raise ToolError("Gen_Rand: %d descriptors for %d states" % (len(rows), r.distinct))
    rows = [x for x in rows if x["kind"] in kinds]
    rows.sort(key=lambda x: json.dumps(x, sort_keys=True))
    for i, x in enumerate(rows):
        x["id"] = i + 1
    return rows


def run_group(rep, wd, label, rows, timeout=3600):
    """One harness run + one RandTrace run for a group of descriptors. Returns (events, bad, sums)."""
    dp = os.path.join(wd, label + ".descs.ndjson")
    ep = os.path.join(wd, label + ".events.ndjson")
    common.write_ndjson(dp, rows)
    p = common.harness(["rand", dp, ep], timeout=timeout)
    if p.returncode != 0:
        raise ToolError("harness rand failed rc=%d\n%s" % (p.returncode, p.stdout[-3000:]))
    nev = sum(1 for _ in open(ep))
    r = common.tlc("Core/RandTrace", env={"TRACE": ep}, workers=1, wd=wd, timeout=timeout, xmx="8g")
    common.tlc_must(r, "RandTrace " + label)
    v = r.printed("VERDICT")
    if not r.ok or not v or r.distinct != nev + 1:
        raise ToolError("RandTrace of %s did not complete:\n%s" % (label, r.out[-3000:]))
    parts = v[0].split(", ", 1)[1]
    # two JSON strings: bad list and the accumulators
    dec = json.JSONDecoder()
    s1, idx = dec.raw_decode(parts)
    rest = parts[idx:].lstrip(", ")
    s2, _ = dec.raw_decode(rest)
    bad = json.loads(s1)
    sums = json.loads(s2)
    rep.states += r.distinct
    rep.transitions += r.generated
    rep.traces += len(rows)
    return ep, nev, bad, sums


def first_events(ep, idxs):
    want = set(idxs)
    out = {}
    for i, line in enumerate(open(ep)):
        if i + 1 in want:
            out[i + 1] = json.loads(line)
    return out
